(* Proofs/ParserNatural.v — the parser model looks at token KINDS only: relabelling the tokens by any function that
   keeps their kinds commutes with parsing a relation definition.  (Texts and positions travel through the parser
   untouched; the listener reads texts of name tokens only.) *)
From Verif Require Import Base.Str Base.Outcome Model.Ast Model.Token Model.Parser Model.Listener Spec.Sem Proofs.ListenerSem.

Section Natural.
  Variable g : tok -> tok.
  Hypothesis g_kind : forall t, tk (g t) = tk t.

  Definition restr_map (r : restr) : restr :=
    {| rs_type := g (rs_type r);
       rs_kind := match rs_kind r with RKRel t => RKRel (g t) | k => k end;
       rs_cond := option_map g (rs_cond r) |}.
  Fixpoint relem_map (e : relem) : relem :=
    match e with
    | EDirect rs => EDirect (map restr_map rs)
    | ERewrite cu ts => ERewrite (g cu) (option_map g ts)
    | EGroup nd first op rest => EGroup nd (relem_map first) op (map relem_map rest)
    end.
  Definition def_map (d : def_result) : def_result :=
    let '(fi, op, rest) := d in (relem_map fi, op, map relem_map rest).

  Definition pmap {A} (h : A -> A) (r : P A) : P A := option_map (fun x => (h (fst x), map g (snd x))) r.

  Lemma hd_tk_map ts : hd_tk (map g ts) = hd_tk ts.
  Proof. destruct ts; cbn; [reflexivity|apply g_kind]. Qed.
  Lemma hd2_tk_map ts : hd2_tk (map g ts) = hd2_tk ts.
  Proof. destruct ts as [|a [|b r]]; cbn; try reflexivity. apply g_kind. Qed.
  Lemma is_tk_map k ts : is_tk k (map g ts) = is_tk k ts.
  Proof. unfold is_tk. rewrite hd_tk_map. reflexivity. Qed.
  Lemma is_tk2_map k ts : is_tk2 k (map g ts) = is_tk2 k ts.
  Proof. unfold is_tk2. rewrite hd2_tk_map. reflexivity. Qed.
  Lemma tl_map ts : tl (map g ts) = map g (tl ts).
  Proof. destruct ts; reflexivity. Qed.
  Lemma skip_opt_map k ts : skip_opt k (map g ts) = map g (skip_opt k ts).
  Proof. destruct ts as [|t r]; cbn; [reflexivity|]. rewrite g_kind. destruct (tk_eqb (tk t) k); reflexivity. Qed.
  Lemma expect_map k ts : expect k (map g ts) = pmap g (expect k ts).
  Proof. destruct ts as [|t r]; cbn; [reflexivity|]. rewrite g_kind. destruct (tk_eqb (tk t) k); reflexivity. Qed.
  Lemma expect_p_map p ts : expect_p p (map g ts) = pmap g (expect_p p ts).
  Proof. destruct ts as [|t r]; cbn; [reflexivity|]. rewrite g_kind. destruct (p (tk t)); reflexivity. Qed.
  Lemma peek_op_map ts : peek_op (map g ts) = peek_op ts.
  Proof. unfold peek_op. rewrite is_tk_map, hd2_tk_map. reflexivity. Qed.

  Definition base_map (b : tok * rkind) : tok * rkind :=
    (g (fst b), match snd b with RKRel t => RKRel (g t) | k => k end).

  Lemma p_restr_base_map ts : p_restr_base (map g ts) = pmap base_map (p_restr_base ts).
  Proof.
    unfold p_restr_base. rewrite expect_p_map. destruct (expect_p is_ext_identifier_tk ts) as [[ty r]|]; cbn [pmap option_map fst snd]; [|reflexivity].
    rewrite !is_tk_map. destruct (is_tk COLON r).
    - rewrite tl_map, expect_map. destruct (expect STAR (tl r)) as [[x r']|]; reflexivity.
    - destruct (is_tk HASH r); [|reflexivity].
      rewrite tl_map, expect_p_map. destruct (expect_p is_ext_identifier_tk (tl r)) as [[x r']|]; reflexivity.
  Qed.

  Lemma p_restr_map ts : p_restr (map g ts) = pmap restr_map (p_restr ts).
  Proof.
    unfold p_restr. rewrite skip_opt_map, p_restr_base_map.
    destruct (p_restr_base (skip_opt NEWLINE ts)) as [[[ty k] r]|]; cbn [pmap option_map fst snd base_map]; [|reflexivity].
    rewrite is_tk_map, (is_tk2_map KEYWORD_WITH r). destruct (is_tk WHITESPACE r && is_tk2 KEYWORD_WITH r).
    - rewrite !tl_map, expect_map. destruct (expect WHITESPACE (tl (tl r))) as [[x r1]|]; cbn [pmap option_map fst snd]; [|reflexivity].
      rewrite expect_map. destruct (expect IDENTIFIER r1) as [[c r2]|]; cbn [pmap option_map fst snd]; [|reflexivity].
      rewrite skip_opt_map. reflexivity.
    - rewrite skip_opt_map. reflexivity.
  Qed.

  Lemma p_restr_more_map fuel : forall ts, p_restr_more fuel (map g ts) = pmap (map restr_map) (p_restr_more fuel ts).
  Proof.
    induction fuel as [|f IH]; intros ts; [reflexivity|]. cbn [p_restr_more]. rewrite is_tk_map. destruct (is_tk COMMA ts).
    - rewrite tl_map, skip_opt_map, p_restr_map. destruct (p_restr (skip_opt WHITESPACE (tl ts))) as [[r r1]|]; cbn [pmap option_map fst snd]; [|reflexivity].
      rewrite skip_opt_map, IH. destruct (p_restr_more f (skip_opt WHITESPACE r1)) as [[rs r2]|]; reflexivity.
    - rewrite expect_map. destruct (expect RPRACKET ts) as [[x r]|]; reflexivity.
  Qed.

  Lemma p_direct_map ts : p_direct (map g ts) = pmap (map restr_map) (p_direct ts).
  Proof.
    unfold p_direct. rewrite expect_map. destruct (expect LBRACKET ts) as [[x r]|]; cbn [pmap option_map fst snd]; [|reflexivity].
    rewrite skip_opt_map, p_restr_map. destruct (p_restr (skip_opt WHITESPACE r)) as [[r0 r1]|]; cbn [pmap option_map fst snd]; [|reflexivity].
    rewrite skip_opt_map, map_length, p_restr_more_map.
    destruct (p_restr_more (S (length r1)) (skip_opt WHITESPACE r1)) as [[rs r2]|]; reflexivity.
  Qed.

  Lemma p_rewrite_map ts : p_rewrite (map g ts) = pmap relem_map (p_rewrite ts).
  Proof.
    unfold p_rewrite. rewrite expect_p_map. destruct (expect_p is_ext_identifier_tk ts) as [[cu r]|]; cbn [pmap option_map fst snd]; [|reflexivity].
    rewrite is_tk_map, (is_tk2_map FROM r). destruct (is_tk WHITESPACE r && is_tk2 FROM r); [|reflexivity].
    rewrite !tl_map, expect_map. destruct (expect WHITESPACE (tl (tl r))) as [[x r1]|]; cbn [pmap option_map fst snd]; [|reflexivity].
    rewrite expect_p_map. destruct (expect_p is_ext_identifier_tk r1) as [[t r2]|]; reflexivity.
  Qed.

  (* the recursion one level of parentheses deeper commutes: hypothesis of the pieces, conclusion of the whole *)
  Definition rec_natural (rec : bool -> list tok -> P def_result) : Prop :=
    forall b ts, rec b (map g ts) = pmap def_map (rec b ts).

  Lemma p_operand_with_map rec ts : rec_natural rec -> p_operand_with rec (map g ts) = pmap relem_map (p_operand_with rec ts).
  Proof.
    intros Hrec. unfold p_operand_with. rewrite is_tk_map. destruct (is_tk LPAREN ts); [|apply p_rewrite_map].
    rewrite tl_map, skip_opt_map, Hrec. destruct (rec false (skip_opt WHITESPACE (tl ts))) as [[[[fi op] rest] r]|]; cbn [pmap option_map fst snd def_map]; [|reflexivity].
    rewrite skip_opt_map, expect_map. destruct (expect RPAREN (skip_opt WHITESPACE r)) as [[x r1]|]; reflexivity.
  Qed.

  Lemma p_partials_with_map rec op : rec_natural rec -> forall n ts,
    p_partials_with rec n op (map g ts) = pmap (map relem_map) (p_partials_with rec n op ts).
  Proof.
    intros Hrec. induction n as [|n IH]; intros ts; [reflexivity|]. cbn [p_partials_with]. rewrite peek_op_map.
    destruct (opk_eqb (peek_op ts) op); [|reflexivity].
    rewrite !tl_map, expect_map. destruct (expect WHITESPACE (tl (tl ts))) as [[x r]|]; cbn [pmap option_map fst snd]; [|reflexivity].
    rewrite (p_operand_with_map rec r Hrec). destruct (p_operand_with rec r) as [[e r1]|]; cbn [pmap option_map fst snd]; [|reflexivity].
    destruct op; try reflexivity; rewrite IH; destruct (p_partials_with rec n _ r1) as [[es r2]|]; reflexivity.
  Qed.

  (* p_def_body in two named parts *)
  Definition first_part (rec : bool -> list tok -> P def_result) (direct : bool) (ts : list tok) : P relem :=
    if is_tk LBRACKET ts then
      if direct then do (rs, ts) <- p_direct ts; Some (EDirect rs, ts) else None
    else if is_tk LPAREN ts then
      if direct then
        do (d, ts) <- rec true (skip_opt WHITESPACE (tl ts));
        do (_, ts) <- expect RPAREN (skip_opt WHITESPACE ts);
        let '(fi, op, rest) := d in Some (EGroup false fi op rest, ts)
      else p_operand_with rec ts
    else p_rewrite ts.
  Definition def_tail (rec : bool -> list tok -> P def_result) (fi : relem) (ts : list tok) : P def_result :=
    match peek_op ts with
    | ONone => Some ((fi, ONone, []), ts)
    | op => do (es, ts) <- p_partials_with rec (S (length ts)) op ts; Some ((fi, op, es), ts)
    end.
  Lemma p_def_body_parts rec direct ts :
    p_def_body rec direct ts = do (fi, ts) <- first_part rec direct ts; def_tail rec fi ts.
  Proof. reflexivity. Qed.

  Lemma first_part_map rec direct ts : rec_natural rec -> first_part rec direct (map g ts) = pmap relem_map (first_part rec direct ts).
  Proof.
    intros Hrec. unfold first_part. rewrite !is_tk_map. destruct (is_tk LBRACKET ts).
    - destruct direct; [|reflexivity]. rewrite p_direct_map. destruct (p_direct ts) as [[rs r]|]; reflexivity.
    - destruct (is_tk LPAREN ts); [|apply p_rewrite_map]. destruct direct; [|apply p_operand_with_map; exact Hrec].
      rewrite tl_map, skip_opt_map, Hrec. destruct (rec true (skip_opt WHITESPACE (tl ts))) as [[[[fi op] rest] r]|]; cbn [pmap option_map fst snd def_map]; [|reflexivity].
      rewrite skip_opt_map, expect_map. destruct (expect RPAREN (skip_opt WHITESPACE r)) as [[x r1]|]; reflexivity.
  Qed.

  Lemma def_tail_map rec fi ts : rec_natural rec -> def_tail rec (relem_map fi) (map g ts) = pmap def_map (def_tail rec fi ts).
  Proof.
    intros Hrec. unfold def_tail. rewrite peek_op_map. destruct (peek_op ts) eqn:Eop; try reflexivity;
      rewrite map_length, (p_partials_with_map rec _ Hrec); destruct (p_partials_with rec (S (length ts)) _ ts) as [[es r1]|]; reflexivity.
  Qed.

  Lemma p_def_body_map rec direct ts : rec_natural rec -> p_def_body rec direct (map g ts) = pmap def_map (p_def_body rec direct ts).
  Proof.
    intros Hrec. rewrite !p_def_body_parts, (first_part_map rec direct ts Hrec).
    destruct (first_part rec direct ts) as [[fi r]|]; cbn [pmap option_map fst snd]; [|reflexivity].
    apply def_tail_map. exact Hrec.
  Qed.

  Theorem p_def_natural fuel : rec_natural (p_def fuel).
  Proof.
    induction fuel as [|f IH]; intros b ts; [reflexivity|]. cbn [p_def]. apply p_def_body_map. exact IH.
  Qed.

  (* ---- the denotation reads the texts of name tokens only ---- *)
  Fixpoint names_elem (e : relem) : list tok :=
    match e with
    | EDirect rs => flat_map (fun r => rs_type r :: (match rs_kind r with RKRel t => [t] | _ => [] end) ++
                                       (match rs_cond r with Some c => [c] | None => [] end)) rs
    | ERewrite cu ts => cu :: match ts with Some t => [t] | None => [] end
    | EGroup _ first _ rest => names_elem first ++ flat_map names_elem rest
    end.

  Lemma sem_elem_map e : (forall t, In t (names_elem e) -> ttext (g t) = ttext t) -> sem_elem (relem_map e) = sem_elem e.
  Proof.
    induction e as [rs|cu ts|nd first op rest IHf IHr] using relem_ind'; intros H.
    - reflexivity.
    - destruct ts as [t|]; cbn [relem_map option_map sem_elem]; rewrite (H cu (or_introl eq_refl)); [|reflexivity].
      rewrite (H t); [reflexivity|]. right. left. reflexivity.
    - cbn [relem_map sem_elem]. rewrite IHf by (intros t Ht; apply H; cbn; apply in_or_app; left; exact Ht). f_equal. f_equal.
      rewrite map_map. apply map_ext_in. intros x Hx. rewrite Forall_forall in IHr. apply IHr; [exact Hx|].
      intros t Ht. apply H. cbn. apply in_or_app. right. apply in_flat_map. exists x. split; assumption.
  Qed.

  Lemma ref_of_restr_map r :
    (ttext (g (rs_type r)) = ttext (rs_type r)) ->
    (match rs_kind r with RKRel t => ttext (g t) = ttext t | _ => True end) ->
    (match rs_cond r with Some c => ttext (g c) = ttext c | None => True end) ->
    ref_of_restr (restr_map r) = ref_of_restr r.
  Proof.
    intros H1 H2 H3. unfold ref_of_restr, restr_map. cbn [rs_type rs_kind rs_cond]. rewrite H1.
    destruct (rs_kind r) as [| |t]; destruct (rs_cond r) as [c|]; cbn [option_map]; rewrite ?H2, ?H3; reflexivity.
  Qed.

  Lemma restrictions_elem_map e : (forall t, In t (names_elem e) -> ttext (g t) = ttext t) ->
    restrictions_elem (relem_map e) = restrictions_elem e.
  Proof.
    induction e as [rs|cu ts|nd first op rest IHf IHr] using relem_ind'; intros H; [|reflexivity|].
    - cbn [relem_map restrictions_elem]. f_equal. rewrite map_map. apply map_ext_in. intros r Hr. apply ref_of_restr_map.
      + apply H. cbn. apply in_flat_map. exists r. split; [exact Hr|left; reflexivity].
      + destruct (rs_kind r) as [| |t] eqn:Ek; try exact I. apply H. cbn. apply in_flat_map. exists r. split; [exact Hr|]. rewrite Ek. right. left. reflexivity.
      + destruct (rs_cond r) as [c|] eqn:Ec; try exact I. apply H. cbn. apply in_flat_map. exists r. split; [exact Hr|]. rewrite Ec. right.
        apply in_or_app. right. left. reflexivity.
    - cbn [relem_map restrictions_elem]. apply IHf. intros t Ht. apply H. cbn. apply in_or_app. left. exact Ht.
  Qed.
End Natural.

(* Proofs/DocPrint.v — what the printer model writes for a condition-free, non-modular model is the canonical text of the
   syntax tree [file_of] (types in the model's order, relations in name order, each definition the printer's normal form)
   followed by one line feed. *)
From Coq Require Import Lia Permutation.
From Verif Require Import Spec.DocDomain Base.Str Base.Outcome Model.Ast Model.Token Gen.Keywords Model.Lexer Model.Parser Model.Printer
  Spec.Sem Spec.Expressible Spec.Normalize Proofs.PrinterExpressible Proofs.ListenerSem Proofs.RoundTrip Proofs.Lossless Proofs.SortFacts
  Proofs.ParserComplete Proofs.LosslessTokens Proofs.LexInversion Proofs.LexRender Proofs.RoundTripChars Proofs.DeclRoundTrip Proofs.DocLex
  Proofs.DocParse Proofs.DocChars Proofs.PrepassTidy Proofs.DocTidy Proofs.DocPrepass.

Definition decl_of (td : typedef) (n : str) : reldecl :=
  {| rl_name := name_tok n; rl_def := rdef_of (refs_of td n) (u_of td n) |}.
Definition type_of (td : typedef) : typedecl :=
  {| ty_extend := false; ty_name := name_tok (td_name td); ty_rels := map (decl_of td) (sorted_names td) |}.
Definition file_types (m : model) : list typedecl := map type_of (m_types m).

(* a rewrite without direct assignment never looks at the type restrictions *)
Lemma count_children_zero cs : fold_right (fun c n => (count_direct c + n)%nat) 0%nat cs = 0%nat -> Forall (fun c => count_direct c = 0%nat) cs.
Proof. induction cs as [|c cs IH]; cbn; intros H; [constructor|]. constructor; [lia|apply IH; lia]. Qed.

Lemma tree_of_no_direct refs refs' u : carriable u = true -> count_direct u = 0%nat -> tree_of refs u = tree_of refs' u.
Proof.
  induction u as [| [|] | rel | ts cu | cs IH | cs IH | b s IHb IHs] using userset_ind'; intros Hc Hn; try discriminate Hc; try discriminate Hn; try reflexivity.
  - cbn [carriable] in Hc. destruct (carriable_children cs Hc) as [_ Hall]. cbn [count_direct] in Hn. pose proof (count_children_zero cs Hn) as Hz.
    rewrite !tree_of_union. f_equal. apply map_ext_in. intros c Hin.
    assert (Hin' : In c cs) by (apply (Permutation_in c (prioritize_perm cs)); exact Hin).
    rewrite Forall_forall in IH, Hall, Hz. apply IH; auto.
  - cbn [carriable] in Hc. destruct (carriable_children cs Hc) as [_ Hall]. cbn [count_direct] in Hn. pose proof (count_children_zero cs Hn) as Hz.
    rewrite !tree_of_inter. f_equal. apply map_ext_in. intros c Hin.
    assert (Hin' : In c cs) by (apply (Permutation_in c (prioritize_perm cs)); exact Hin).
    rewrite Forall_forall in IH, Hall, Hz. apply IH; auto.
  - cbn [carriable] in Hc. apply andb_prop in Hc. destruct Hc as [Hb Hs]. cbn [count_direct] in Hn. cbn [tree_of].
    rewrite (IHb Hb ltac:(lia)), (IHs Hs ltac:(lia)). reflexivity.
Qed.

Lemma rdef_of_no_direct refs refs' u : carriable u = true -> count_direct u = 0%nat -> rdef_of refs u = rdef_of refs' u.
Proof. intros Hc Hn. unfold rdef_of. rewrite (tree_of_no_direct refs refs' u Hc Hn). reflexivity. Qed.

(* the models covered: names are plain identifiers, every rewrite can be written in the DSL *)
Definition rel_ok (td : typedef) (n : str) : Prop :=
  plain_name n = true /\ carriable (u_of td n) = true /\ expressible (u_of td n) = true /\ plain_u (u_of td n) /\
  (count_direct (u_of td n) = 0%nat \/ refs_of td n <> []) /\ Forall plain_ref (refs_of td n).
Definition td_ok (td : typedef) : Prop :=
  plain_name (td_name td) = true /\ NoDup (keys (td_rels td)) /\ forall n, In n (keys (td_rels td)) -> rel_ok td n.
Definition model_ok (m : model) : Prop :=
  std_version (m_schema m) = true /\ m_conds m = [] /\ is_modular_model m = false /\ Forall td_ok (m_types m).

(* ---- one relation, the relations of a type ---- *)
Lemma print_relation_line td n : rel_ok td n ->
  print_relation (td_name td) n (u_of td n) (assoc n (td_meta_rels td)) false = Ok (decl_line_of (decl_of td n)).
Proof.
  intros (Hn & Hc & He & Hpu & Hne & Hpr).
  destruct (printed_relation_denotes_normal_form (refs_of td n) (u_of td n) Hc He (plain_refs_ok _ Hpr)) as (t0 & Hp & Ht0 & _).
  rewrite (print_relation_text _ _ _ _ t0 He Hp). subst t0. reflexivity.
Qed.

Lemma print_relations_lines td names : (forall n, In n names -> rel_ok td n) ->
  print_relations (td_name td) names (td_rels td) (td_meta_rels td) false = Ok (nlines (map (fun n => decl_line_of (decl_of td n)) names)).
Proof.
  induction names as [|n names IH]; intros H; [reflexivity|]. cbn [print_relations].
  fold (u_of td n). rewrite (print_relation_line td n (H n (or_introl eq_refl))), (IH (fun x Hx => H x (or_intror Hx))).
  reflexivity.
Qed.

Lemma sorted_names_in td n : In n (sorted_names td) <-> In n (keys (td_rels td)).
Proof.
  unfold sorted_names. split; intros H.
  - apply (Permutation_in n (Permutation_sym (stable_sort_perm str_compare (keys (td_rels td))))). exact H.
  - apply (Permutation_in n (stable_sort_perm str_compare (keys (td_rels td)))). exact H.
Qed.

Definition type_text (td : typedef) : str :=
  lit "type " ++ td_name td ++ match sorted_names td with [] => [] | ns => [10] ++ lit "  relations" ++ nlines (map (fun n => decl_line_of (decl_of td n)) ns) end.

Lemma print_type_text td : td_ok td -> print_type td false false = Ok (type_text td).
Proof.
  intros (_ & _ & Hrels). unfold print_type, type_text. unfold source_comment. rewrite Bool.orb_true_r, app_nil_r.
  destruct (td_rels td) as [|p rels] eqn:E.
  - unfold sorted_names. rewrite E. cbn. rewrite app_nil_r. reflexivity.
  - rewrite <- E in Hrels. rewrite <- E. fold (sorted_names td).
    rewrite print_relations_lines by (intros n Hn; apply Hrels; apply sorted_names_in; exact Hn).
    destruct (sorted_names td) as [|n ns] eqn:Es; [|reflexivity].
    exfalso. assert (Hin : In (fst p) (sorted_names td)) by (apply sorted_names_in; rewrite E; left; reflexivity). rewrite Es in Hin. exact Hin.
Qed.

Lemma print_types_text tds : Forall td_ok tds -> print_types tds false false = Ok (map (fun td => [10] ++ type_text td) tds).
Proof.
  induction 1 as [|td tds Ht _ IH]; [reflexivity|]. cbn [print_types map]. rewrite (print_type_text td Ht), IH. reflexivity.
Qed.

(* ---- the text of a type block is the text of its lines ---- *)
Lemma type_text_lines td : nlines (type_lines (type_of td)) = [10; 10] ++ type_text td.
Proof.
  unfold type_lines, type_of, type_text. cbn [ty_name ty_rels name_tok ttext]. unfold nlines. cbn [map concat].
  destruct (sorted_names td) as [|n ns]; [cbn; rewrite !app_nil_r; reflexivity|].
  cbn [map concat]. fold (nlines (map decl_line_of (map (decl_of td) ns))). rewrite map_map.
  cbn. rewrite <- ?app_assoc. reflexivity.
Qed.

Lemma types_text_lines tds : nlines (flat_map type_lines (map type_of tds)) = concat (map (fun td => [10; 10] ++ type_text td) tds).
Proof.
  induction tds as [|td tds IH]; [reflexivity|]. cbn [map flat_map concat]. rewrite nlines_app, type_text_lines, IH. reflexivity.
Qed.

Lemma join_blocks (xs : list str) :
  [10] ++ join [10] (map (fun x => [10] ++ x) xs) ++ (match map (fun x => [10] ++ x) xs with [] => [] | _ => [10] end)
  = concat (map (fun x => [10; 10] ++ x) xs) ++ [10].
Proof.
  induction xs as [|x xs IH]; [reflexivity|]. destruct xs as [|y xs].
  - cbn. rewrite app_nil_r. reflexivity.
  - cbn [map] in IH. cbv iota in IH.
    transitivity (([10; 10] ++ x) ++ ([10] ++ join [10] (([10] ++ y) :: map (fun x0 => [10] ++ x0) xs) ++ [10])).
    + cbn [map]. change (join [10] (([10] ++ x) :: ([10] ++ y) :: map (fun x0 => [10] ++ x0) xs))
        with (([10] ++ x) ++ [10] ++ join [10] (([10] ++ y) :: map (fun x0 => [10] ++ x0) xs)).
      cbn [app]. rewrite <- ?app_assoc. reflexivity.
    + rewrite IH. cbn [map concat]. rewrite <- ?app_assoc. reflexivity.
Qed.

(* ---- the syntax tree of a covered model meets every hypothesis of the reading side ---- *)
Lemma decl_of_ok td n : rel_ok td n -> decl_lex_ok (decl_of td n) /\ decl_ok (decl_of td n).
Proof.
  intros (Hn & Hc & He & Hpu & Hne & Hpr). unfold decl_of, decl_lex_ok, decl_ok. cbn [rl_name rl_def].
  destruct (printed_relation_denotes_normal_form (refs_of td n) (u_of td n) Hc He (plain_refs_ok _ Hpr)) as (t0 & _ & _ & Hwf & _).
  assert (HO : toks_ok (rd_first (rdef_of (refs_of td n) (u_of td n))) /\ toks_ok_all (rd_rest (rdef_of (refs_of td n) (u_of td n)))).
  { destruct Hne as [Hz|Hne]; [|apply rdef_of_toks_ok; assumption].
    rewrite (rdef_of_no_direct (refs_of td n) [ {| rr_type := []; rr_kind := RPlain; rr_cond := [] |} ] (u_of td n) Hc Hz).
    apply rdef_of_toks_ok; [discriminate|exact Hc]. }
  destruct HO as [O1 O2].
  split; [split; [apply name_ok_name_tok; exact Hn|apply rdef_of_lex_ok; assumption]|].
  split; [apply ident_name_tok|]. split; [exact Hwf|]. split; assumption.
Qed.

Lemma type_of_ok td : td_ok td -> type_lex_ok (type_of td) /\ type_ok (type_of td).
Proof.
  intros (Hn & _ & Hrels). unfold type_lex_ok, type_ok, type_of. cbn [ty_extend ty_name ty_rels].
  assert (H : Forall (fun r => decl_lex_ok r /\ decl_ok r) (map (decl_of td) (sorted_names td))).
  { apply Forall_forall. intros r Hr. apply in_map_iff in Hr. destruct Hr as [n [<- Hin]]. apply decl_of_ok. apply Hrels. apply sorted_names_in. exact Hin. }
  split; [split; [apply name_ok_name_tok; exact Hn|eapply Forall_impl; [|exact H]; intros r [A _]; exact A]|].
  split; [reflexivity|]. split; [apply ident_name_tok|eapply Forall_impl; [|exact H]; intros r [_ B]; exact B].
Qed.

Lemma file_types_ok m : Forall td_ok (m_types m) -> Forall type_lex_ok (file_types m) /\ Forall type_ok (file_types m).
Proof.
  unfold file_types. induction 1 as [|td tds Ht _ [IH1 IH2]]; [split; constructor|]. destruct (type_of_ok td Ht) as [A B].
  cbn [map]. split; constructor; assumption.
Qed.

Lemma filter_none {A} (p : A -> bool) l : Forall (fun x => p x = false) l -> filter p l = [].
Proof. induction 1 as [|x l Hx _ IH]; [reflexivity|]. cbn. rewrite Hx. exact IH. Qed.

Lemma file_types_distinct m : Forall td_ok (m_types m) -> distinct_decls (doc_file (m_schema m) (file_types m)).
Proof.
  intros H. unfold distinct_decls. cbn [doc_file f_header f_types f_conds header_modular map].
  assert (Hext : Forall (fun t => ty_extend t = false) (file_types m)) by (unfold file_types; apply Forall_forall; intros t Ht; apply in_map_iff in Ht; destruct Ht as [td [<- _]]; reflexivity).
  split; [|split; [constructor|split; [constructor|split; [intros _; exact Hext|split]]]].
  - unfold file_types. apply Forall_forall. intros t Ht. apply in_map_iff in Ht. destruct Ht as [td [<- Hin]].
    rewrite Forall_forall in H. destruct (H td Hin) as (_ & Hnd & _). unfold type_of. cbn [ty_rels]. rewrite map_map. cbn [decl_of rl_name name_tok ttext].
    rewrite map_id. apply (Permutation_NoDup (stable_sort_perm str_compare (keys (td_rels td)))). exact Hnd.
  - rewrite (filter_none _ _ Hext). constructor.
  - unfold file_types. apply Forall_forall. intros t Ht. apply in_map_iff in Ht. destruct Ht as [td [<- Hin]].
    rewrite Forall_forall in H. destruct (H td Hin) as (Hn & _). cbn. intros E. rewrite E in Hn. discriminate Hn.
Qed.

(* ---- THE PRINTED TEXT ---- *)
Theorem print_model_text m : model_ok m ->
  fst (print_model false m) = Ok (text_of (ctoks_doc (m_schema m) (file_types m)) ++ [10]).
Proof.
  intros (Hv & Hc & Hmod & Htds). destruct (file_types_ok m Htds) as [Hlex _].
  unfold print_model. rewrite Hmod, Hc. cbn [fst]. rewrite (print_types_text _ Htds). cbn [stable_sort fold_right print_conditions].
  rewrite app_nil_r, (doc_text_lines _ _ Hv Hlex). unfold doc_lines. rewrite join_cons.
  fold (nlines ((lit "  schema " ++ m_schema m) :: flat_map type_lines (file_types m))).
  unfold nlines at 1. cbn [map concat]. fold (nlines (flat_map type_lines (file_types m))). unfold file_types. rewrite types_text_lines.
  pose proof (join_blocks (map type_text (m_types m))) as J. rewrite !map_map in J.
  f_equal. rewrite <- !app_assoc. f_equal. f_equal. f_equal. f_equal. exact J.
Qed.

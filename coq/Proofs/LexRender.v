(* Proofs/LexRender.v — the text the printer writes for a relation definition lexes to the canonical tokens
   (Proofs/ParserComplete.toks_def): kinds exactly, texts exactly for names and the standard spelling for the
   rest, no lexer error — for every tree whose names are plain identifiers that no literal rule claims. *)
From Coq Require Import Lia.
From Verif Require Import Base.Str Base.Outcome Model.Ast Model.Token Gen.Keywords Model.Lexer Model.Parser Spec.Sem Spec.Normalize
  Proofs.ListenerSem Proofs.ParserComplete Proofs.LexInversion Proofs.LexEof.
From Verif Require Export Proofs.LexFit.

(* kind and text of a canonical token: punctuation and keywords carry no text there *)
Definition kt_of (t : tok) : kt := (tk t, match ttext t with [] => std_text (tk t) | s => s end).
Definition kts (ts : list tok) : list kt := map kt_of ts.
Definition text_of (ts : list tok) : str := concat (map snd (kts ts)).

(* a name as the canonical trees carry it (Spec/Normalize.name_tok: kind IDENTIFIER, no position), spelled as a plain
   identifier that no literal rule claims *)
Definition name_ok (t : tok) : Prop := t = name_tok (ttext t) /\ plain_name (ttext t) = true.
Definition restr_lex_ok (r : restr) : Prop :=
  name_ok (rs_type r) /\ (match rs_kind r with RKRel t => name_ok t | _ => True end) /\
  (match rs_cond r with Some c => name_ok c | None => True end).
Fixpoint lex_ok (e : relem) : Prop :=
  let all := fix all (es : list relem) : Prop := match es with [] => True | x :: r => lex_ok x /\ all r end in
  match e with
  | EDirect rs => Forall restr_lex_ok rs
  | ERewrite cu ts => name_ok cu /\ (match ts with Some t => name_ok t | None => True end)
  | EGroup _ first op rest => lex_ok first /\ all rest /\ (op = ONone -> rest = [])
  end.
Fixpoint lex_ok_all (es : list relem) : Prop := match es with [] => True | x :: r => lex_ok x /\ lex_ok_all r end.

Lemma lex_ok_group nd first op rest :
  lex_ok (EGroup nd first op rest) <-> lex_ok first /\ lex_ok_all rest /\ (op = ONone -> rest = []).
Proof.
  cbn [lex_ok]. assert (E : (fix all (es : list relem) : Prop := match es with [] => True | x :: r => lex_ok x /\ all r end) rest = lex_ok_all rest)
    by (induction rest as [|x r IH]; [reflexivity|cbn; rewrite IH; reflexivity]).
  rewrite E. tauto.
Qed.

Lemma kt_name t : name_ok t -> kt_of t = (IDENTIFIER, ttext t) /\ plain_name (ttext t) = true.
Proof.
  intros [Hk Hp]. assert (Hk' : tk t = IDENTIFIER) by (rewrite Hk; reflexivity).
  unfold kt_of. rewrite Hk'. destruct (ttext t) eqn:E; [discriminate Hp|]. split; [reflexivity|exact Hp].
Qed.

Lemma name_solid s rest : plain_name s = true -> solid_next (s ++ rest).
Proof.
  unfold plain_name. intros H. destruct s as [|c r]; [discriminate|]. apply andb_true_iff in H. destruct H as [H _].
  apply andb_true_iff in H. destruct H as [H _]. apply andb_true_iff in H. destruct H as [Hc _]. apply id_start_ge in Hc.
  cbn. unfold is_nlish, is_ws_char. rewrite !eqb_small by lia. reflexivity.
Qed.

Lemma text_of_cons t ts : text_of (t :: ts) = snd (kt_of t) ++ text_of ts.
Proof. reflexivity. Qed.
Lemma text_of_app a b : text_of (a ++ b) = text_of a ++ text_of b.
Proof. unfold text_of, kts. rewrite !map_app, concat_app. reflexivity. Qed.
Lemma text_of_name t : name_ok t -> text_of [t] = ttext t.
Proof. intros H. destruct (kt_name t H) as [E _]. unfold text_of, kts. cbn [map]. rewrite E. cbn. apply app_nil_r. Qed.
Lemma text_of_mk k : text_of [mk k] = std_text k.
Proof. unfold text_of, kts. cbn. apply app_nil_r. Qed.

Lemma kt_of_mk k : kt_of (mk k) = (k, std_text k).
Proof. reflexivity. Qed.

Lemma kts_app a b : kts (a ++ b) = kts a ++ kts b.
Proof. apply map_app. Qed.

(* a canonical name fits in front of a delimiter or at the end *)
Lemma rec_name' t rest : name_ok t -> delim_next rest -> fit (fst (kt_of t)) (snd (kt_of t)) rest.
Proof. intros H Hd. destruct (kt_name t H) as [E Hp]. rewrite E. cbn [fst snd]. apply fit_name; assumption. Qed.
Lemma rec_blank' rest : solid_next rest -> fit WHITESPACE (lit " ") rest.
Proof. apply fit_blank. Qed.
Lemma rec_kw k rest : In k [OR; AND; BUT_NOT; FROM; KEYWORD_WITH] -> blank_next rest -> fit k (std_text k) rest.
Proof. intros Hk. apply fit_kw. unfold kw_blank. cbn in Hk |- *. tauto. Qed.
Lemma rec_punct k rest : In k [COLON; STAR; HASH; COMMA; LBRACKET; RPRACKET; LPAREN; RPAREN] -> fit k (std_text k) rest.
Proof. apply fit_punct. Qed.

(* ---- a type restriction ---- *)
Lemma restr_text_solid r rest : restr_lex_ok r -> solid_next (text_of (toks_restr r) ++ rest).
Proof.
  intros (Ht & _ & _). unfold toks_restr. rewrite text_of_cons. destruct (kt_name _ Ht) as [E Hp]. rewrite E. cbn [snd].
  rewrite <- app_assoc. apply name_solid. exact Hp.
Qed.

Lemma recs_restr r rest : restr_lex_ok r -> delim_next rest -> fits (kts (toks_restr r)) rest.
Proof.
  intros (Ht & Hk & Hc) Hd. unfold toks_restr.
  (* the condition part *)
  assert (Hcond : fits (kts (match rs_cond r with Some c => [mk WHITESPACE; mk KEYWORD_WITH; mk WHITESPACE; c] | None => [] end)) rest /\
                  delim_next (text_of (match rs_cond r with Some c => [mk WHITESPACE; mk KEYWORD_WITH; mk WHITESPACE; c] | None => [] end) ++ rest)).
  { destruct (rs_cond r) as [c|]; [|split; [exact I|exact Hd]]. split; [|reflexivity].
    destruct (kt_name c Hc) as [Ec Hpc].
    cbn [kts map]. rewrite !kt_of_mk, Ec. apply fits_cons; [|apply fits_cons; [|apply fits_cons; [|apply fits_one]]]; cbn [fst snd std_text map concat app].
    - apply rec_blank'. reflexivity.
    - apply (rec_kw KEYWORD_WITH); [cbn; tauto|reflexivity].
    - apply rec_blank'. rewrite app_nil_r. apply name_solid. exact Hpc.
    - apply fit_name; assumption. }
  destruct Hcond as [Rc Dc].
  set (cp := match rs_cond r with Some c => [mk WHITESPACE; mk KEYWORD_WITH; mk WHITESPACE; c] | None => [] end) in *.
  change (kts (rs_type r :: (match rs_kind r with RKWild => [mk COLON; mk STAR] | RKRel t => [mk HASH; t] | RKPlain => [] end) ++ cp))
    with (kt_of (rs_type r) :: kts ((match rs_kind r with RKWild => [mk COLON; mk STAR] | RKRel t => [mk HASH; t] | RKPlain => [] end) ++ cp)).
  fold (text_of cp) in Dc.
  destruct (rs_kind r) as [| |t].
  - cbn [app]. apply fits_cons; [|exact Rc]. fold (text_of cp). apply rec_name'; assumption.
  - rewrite kts_app. apply fits_cons.
    + apply rec_name'; [exact Ht|]. reflexivity.
    + apply fits_app. split; [|exact Rc]. fold (text_of cp).
      apply fits_cons; [apply (rec_punct COLON); cbn; tauto|apply fits_one; apply (rec_punct STAR); cbn; tauto].
  - rewrite kts_app. apply fits_cons.
    + apply rec_name'; [exact Ht|]. reflexivity.
    + apply fits_app. split; [|exact Rc]. fold (text_of cp).
      apply fits_cons; [apply (rec_punct HASH); cbn; tauto|apply fits_one; apply rec_name'; assumption].
Qed.

(* ---- a direct assignment ---- *)
Lemma recs_restrs_more rs : forall rest, Forall restr_lex_ok rs ->
  fits (kts (toks_restrs_more rs)) rest /\ delim_next (text_of (toks_restrs_more rs) ++ rest).
Proof.
  induction rs as [|r rs IH]; intros rest H.
  - cbn [toks_restrs_more kts map]. rewrite kt_of_mk. split; [apply fits_one; apply (rec_punct RPRACKET); cbn; tauto|reflexivity].
  - inversion H as [|? ? Hr Hrs]; subst. destruct (IH rest Hrs) as [R D]. cbn [toks_restrs_more]. split; [|reflexivity].
    change (mk COMMA :: mk WHITESPACE :: toks_restr r ++ toks_restrs_more rs) with ([mk COMMA; mk WHITESPACE] ++ toks_restr r ++ toks_restrs_more rs).
    rewrite !kts_app. apply fits_app. split.
    + cbn [kts map]. rewrite !kt_of_mk. fold (kts (toks_restr r ++ toks_restrs_more rs)). fold (text_of (toks_restr r ++ toks_restrs_more rs)).
      apply fits_cons; [apply (rec_punct COMMA); cbn; tauto|apply fits_one]. cbn [fst snd std_text].
      apply rec_blank'. rewrite <- kts_app. fold (text_of (toks_restr r ++ toks_restrs_more rs)). rewrite text_of_app, <- app_assoc. apply restr_text_solid. exact Hr.
    + apply fits_app. split; [|exact R]. fold (text_of (toks_restrs_more rs)). apply recs_restr; assumption.
Qed.

Lemma recs_direct rs rest : Forall restr_lex_ok rs -> fits (kts (toks_direct rs)) rest /\ solid_next (text_of (toks_direct rs) ++ rest).
Proof.
  intros H. destruct rs as [|r rs]; cbn [toks_direct].
  - split; [|reflexivity]. cbn [kts map]. rewrite !kt_of_mk. apply fits_cons; [apply (rec_punct LBRACKET); cbn; tauto|apply fits_one; apply (rec_punct RPRACKET); cbn; tauto].
  - inversion H as [|? ? Hr Hrs]; subst. destruct (recs_restrs_more rs rest Hrs) as [R D]. split; [|reflexivity].
    change (mk LBRACKET :: toks_restr r ++ toks_restrs_more rs) with ([mk LBRACKET] ++ toks_restr r ++ toks_restrs_more rs).
    rewrite !kts_app. apply fits_app. split.
    + cbn [kts map]. rewrite kt_of_mk. apply fits_one. apply (rec_punct LBRACKET); cbn; tauto.
    + apply fits_app. split; [|exact R]. fold (text_of (toks_restrs_more rs)). apply recs_restr; assumption.
Qed.

(* ---- operands ---- *)
Definition elem_lexes (e : relem) : Prop :=
  lex_ok e -> forall rest, delim_next rest -> fits (kts (toks_elem e)) rest /\ solid_next (text_of (toks_elem e) ++ rest).

Lemma optok_kw op : op <> ONone -> In (optok op) [OR; AND; BUT_NOT; FROM; KEYWORD_WITH].
Proof. destruct op; cbn; tauto. Qed.

Lemma recs_partials op es : Forall elem_lexes es -> lex_ok_all es -> (op = ONone -> es = []) -> forall rest, delim_next rest ->
  fits (kts (toks_partials op es)) rest /\ delim_next (text_of (toks_partials op es) ++ rest).
Proof.
  induction 1 as [|x es Hx _ IH]; intros Hok Hop rest Hd; [split; [exact I|exact Hd]|].
  cbn [lex_ok_all] in Hok. destruct Hok as [Hokx Hokr]. assert (Hne : op <> ONone) by (intros E; specialize (Hop E); discriminate).
  destruct (IH Hokr ltac:(intros E; contradiction) rest Hd) as [R D]. destruct (Hx Hokx _ D) as [Rx Sx].
  cbn [toks_partials]. split; [|reflexivity].
  change (mk WHITESPACE :: mk (optok op) :: mk WHITESPACE :: toks_elem x ++ toks_partials op es)
    with ([mk WHITESPACE; mk (optok op); mk WHITESPACE] ++ toks_elem x ++ toks_partials op es).
  rewrite !kts_app. apply fits_app. split.
  - cbn [kts map]. rewrite !kt_of_mk. rewrite <- kts_app. fold (text_of (toks_elem x ++ toks_partials op es)).
    apply fits_cons; [|apply fits_cons; [|apply fits_one]]; cbn [fst snd map concat app].
    + apply rec_blank'. destruct op; try contradiction; reflexivity.
    + apply rec_kw; [apply optok_kw; exact Hne|reflexivity].
    + apply rec_blank'. rewrite text_of_app, <- app_assoc. exact Sx.
  - apply fits_app. split; [|exact R]. fold (text_of (toks_partials op es)). exact Rx.
Qed.

Theorem elem_lexes_all e : elem_lexes e.
Proof.
  induction e as [rs|cu ts|nd first op rest IHf IHr] using relem_ind'; intros Hok tail Hd.
  - cbn [toks_elem]. apply recs_direct. exact Hok.
  - cbn [lex_ok] in Hok. destruct Hok as [Hcu Hts]. destruct ts as [t|]; cbn [toks_elem].
    + destruct (kt_name cu Hcu) as [Ecu Hpcu]. destruct (kt_name t Hts) as [Et Hpt]. split.
      * cbn [kts map]. rewrite !kt_of_mk, Ecu, Et.
        apply fits_cons; [|apply fits_cons; [|apply fits_cons; [|apply fits_cons; [|apply fits_one]]]]; cbn [fst snd std_text map concat app].
        -- apply fit_name; [exact Hpcu|reflexivity].
        -- apply rec_blank'. reflexivity.
        -- apply (rec_kw FROM); [cbn; tauto|reflexivity].
        -- apply rec_blank'. rewrite app_nil_r. apply name_solid. exact Hpt.
        -- apply fit_name; assumption.
      * rewrite text_of_cons, Ecu. cbn [snd]. rewrite <- app_assoc. apply name_solid. exact Hpcu.
    + destruct (kt_name cu Hcu) as [Ecu Hpcu]. split.
      * cbn [kts map]. rewrite Ecu. apply fits_one. apply fit_name; assumption.
      * rewrite text_of_cons, Ecu. cbn [snd]. rewrite <- app_assoc. apply name_solid. exact Hpcu.
  - destruct (proj1 (lex_ok_group _ _ _ _) Hok) as (Hf & Hr & Hop). rewrite toks_elem_group. split; [|reflexivity].
    unfold toks_def. change (mk LPAREN :: (toks_elem first ++ toks_partials op rest) ++ [mk RPAREN])
      with ([mk LPAREN] ++ (toks_elem first ++ toks_partials op rest) ++ [mk RPAREN]).
    rewrite !kts_app. apply fits_app. split; [cbn [kts map]; rewrite kt_of_mk; apply fits_one; apply (rec_punct LPAREN); cbn; tauto|].
    apply fits_app. split; [|cbn [kts map]; rewrite kt_of_mk; apply fits_one; apply (rec_punct RPAREN); cbn; tauto].
    cbn [kts map concat app]. rewrite kt_of_mk. cbn [snd std_text app].
    destruct (recs_partials op rest IHr Hr Hop (lit ")" ++ tail) eq_refl) as [Rp Dp].
    apply fits_app. split; [|exact Rp]. fold (text_of (toks_partials op rest)). apply IHf; assumption.
Qed.

(* ---- a whole relation definition ---- *)
Definition rdef_lex_ok (d : rdef) : Prop :=
  lex_ok (rd_first d) /\ lex_ok_all (rd_rest d) /\ (rd_op d = ONone -> rd_rest d = []).

Theorem rdef_lexes d rest : rdef_lex_ok d -> delim_next rest ->
  fits (kts (toks_def (rd_first d) (rd_op d) (rd_rest d))) rest.
Proof.
  intros (Hf & Hr & Hop) Hd. unfold toks_def. rewrite kts_app. apply fits_app.
  assert (Hall : Forall elem_lexes (rd_rest d)) by (apply Forall_forall; intros; apply elem_lexes_all).
  destruct (recs_partials (rd_op d) (rd_rest d) Hall Hr Hop rest Hd) as [Rp Dp]. split; [|exact Rp].
  fold (text_of (toks_partials (rd_op d) (rd_rest d))). apply elem_lexes_all; assumption.
Qed.

(* ---------------------------------------------------------------------------------------- *)
(* the concatenated token texts are the printed text                                         *)
(* ---------------------------------------------------------------------------------------- *)
Lemma join_cons sep x l : join sep (x :: l) = x ++ concat (map (fun y => sep ++ y) l).
Proof.
  revert x. induction l as [|y l IH]; intros x; [cbn; rewrite app_nil_r; reflexivity|].
  change (join sep (x :: y :: l)) with (x ++ sep ++ join sep (y :: l)). rewrite IH. cbn [map concat]. rewrite <- app_assoc. reflexivity.
Qed.

Lemma text_restr r : restr_lex_ok r -> text_of (toks_restr r) = render_restr r.
Proof.
  intros (Ht & Hk & Hc). unfold toks_restr, render_restr. rewrite text_of_cons. destruct (kt_name _ Ht) as [E _]. rewrite E. cbn [snd].
  f_equal. rewrite text_of_app. f_equal.
  - destruct (rs_kind r) as [| |t]; [reflexivity|reflexivity|]. destruct (kt_name _ Hk) as [E' _].
    unfold text_of, kts. cbn [map]. rewrite kt_of_mk, E'. cbn. rewrite app_nil_r. reflexivity.
  - destruct (rs_cond r) as [c|]; [|reflexivity]. destruct (kt_name _ Hc) as [E' _].
    unfold text_of, kts. cbn [map]. rewrite !kt_of_mk, E'. cbn. rewrite app_nil_r. reflexivity.
Qed.

Lemma text_more rs : Forall restr_lex_ok rs ->
  text_of (toks_restrs_more rs) = concat (map (fun y => lit ", " ++ y) (map render_restr rs)) ++ lit "]".
Proof.
  induction 1 as [|r rs Hr _ IH]; [reflexivity|]. cbn [toks_restrs_more map concat].
  change (mk COMMA :: mk WHITESPACE :: toks_restr r ++ toks_restrs_more rs) with ([mk COMMA; mk WHITESPACE] ++ toks_restr r ++ toks_restrs_more rs).
  rewrite !text_of_app, IH, (text_restr r Hr). cbn. rewrite <- !app_assoc. reflexivity.
Qed.

Lemma text_direct rs : Forall restr_lex_ok rs -> text_of (toks_direct rs) = lit "[" ++ join (lit ", ") (map render_restr rs) ++ lit "]".
Proof.
  intros H. destruct rs as [|r rs]; [reflexivity|]. inversion H as [|? ? Hr Hrs]; subst. cbn [toks_direct map].
  change (mk LBRACKET :: toks_restr r ++ toks_restrs_more rs) with ([mk LBRACKET] ++ toks_restr r ++ toks_restrs_more rs).
  rewrite !text_of_app, (text_restr r Hr), (text_more rs Hrs), join_cons, <- !app_assoc. reflexivity.
Qed.

Lemma op_text_std op : op <> ONone -> op_text op = lit " " ++ std_text (optok op) ++ lit " ".
Proof. destruct op; try contradiction; reflexivity. Qed.

Definition elem_text (e : relem) : Prop := lex_ok e -> text_of (toks_elem e) = render_elem e.

Lemma text_partials op es : Forall elem_text es -> lex_ok_all es -> (op = ONone -> es = []) ->
  text_of (toks_partials op es) = concat (map (fun y => op_text op ++ y) (map render_elem es)).
Proof.
  induction 1 as [|x es Hx _ IH]; intros Hok Hop; [reflexivity|]. cbn [lex_ok_all] in Hok. destruct Hok as [Hokx Hokr].
  assert (Hne : op <> ONone) by (intros E; specialize (Hop E); discriminate).
  cbn [toks_partials map concat].
  change (mk WHITESPACE :: mk (optok op) :: mk WHITESPACE :: toks_elem x ++ toks_partials op es)
    with ([mk WHITESPACE; mk (optok op); mk WHITESPACE] ++ toks_elem x ++ toks_partials op es).
  rewrite !text_of_app, (Hx Hokx), (IH Hokr ltac:(intros E; contradiction)), (op_text_std op Hne).
  unfold text_of at 1, kts. cbn [map]. rewrite !kt_of_mk. cbn [snd concat map]. rewrite app_nil_r, <- !app_assoc. reflexivity.
Qed.

Theorem elem_text_all e : elem_text e.
Proof.
  induction e as [rs|cu ts|nd first op rest IHf IHr] using relem_ind'; intros Hok.
  - cbn [toks_elem render_elem]. apply text_direct. exact Hok.
  - cbn [lex_ok] in Hok. destruct Hok as [Hcu Hts]. destruct (kt_name cu Hcu) as [Ecu _]. destruct ts as [t|]; cbn [toks_elem render_elem].
    + destruct (kt_name t Hts) as [Et _]. unfold text_of, kts. cbn [map]. rewrite !kt_of_mk, Ecu, Et. cbn. rewrite app_nil_r. reflexivity.
    + unfold text_of, kts. cbn [map]. rewrite Ecu. cbn. apply app_nil_r.
  - destruct (proj1 (lex_ok_group _ _ _ _) Hok) as (Hf & Hr & Hop). rewrite toks_elem_group. cbn [render_elem]. unfold toks_def.
    change (mk LPAREN :: (toks_elem first ++ toks_partials op rest) ++ [mk RPAREN])
      with ([mk LPAREN] ++ (toks_elem first ++ toks_partials op rest) ++ [mk RPAREN]).
    rewrite !text_of_app, (IHf Hf), (text_partials op rest IHr Hr Hop), join_cons. rewrite !text_of_mk. cbn [std_text]. rewrite <- !app_assoc. reflexivity.
Qed.

Theorem rdef_text d : rdef_lex_ok d -> text_of (toks_def (rd_first d) (rd_op d) (rd_rest d)) = render_rdef d.
Proof.
  intros (Hf & Hr & Hop). unfold toks_def, render_rdef. rewrite text_of_app, (elem_text_all _ Hf), join_cons.
  rewrite (text_partials (rd_op d) (rd_rest d)); [reflexivity| |exact Hr|exact Hop].
  apply Forall_forall. intros; apply elem_text_all.
Qed.

(* ---------------------------------------------------------------------------------------- *)
(* THE LEXER INVERTS THE PRINTER on relation definitions                                     *)
(* ---------------------------------------------------------------------------------------- *)
Lemma recs_length ts rest : recs ts rest -> (length ts <= length (concat (map snd ts)))%nat.
Proof.
  induction ts as [|[k t] ts IH]; cbn [recs map snd concat length]; [lia|]. intros [(_ & Hne & _) H]. specialize (IH H).
  rewrite app_length. destruct t; [contradiction|cbn; lia].
Qed.

Theorem printed_definition_lexes d rest :
  rdef_lex_ok d -> delim_next rest ->
  let s := render_rdef d ++ rest in
  let ts := kts (toks_def (rd_first d) (rd_op d) (rd_rest d)) in
  map (fun t => (tk t, ttext t)) (fst (lex_all s)) = ts ++ fst (lexk (S (length s) - length ts) rest 0) /\
  length (snd (lex_all s)) = snd (lexk (S (length s) - length ts) rest 0).
Proof.
  intros Hok Hd s ts. pose proof (fits_recs _ _ (rdef_lexes d rest Hok Hd)) as R. fold ts in R.
  assert (Etxt : concat (map snd ts) = render_rdef d) by (apply rdef_text; exact Hok).
  pose proof (recs_length ts rest R) as Hlen. rewrite Etxt in Hlen.
  unfold lex_all. destruct (lex_loop_lexk (S (length s)) s 0 1 0) as [A B]. rewrite A, B.
  assert (Hf : (length ts <= S (length s))%nat) by (unfold s; rewrite app_length; lia).
  pose proof (lexk_tokens ts rest (S (length s)) R Hf) as L. rewrite Nat.add_0_r, Etxt in L. fold s in L. rewrite L. split; reflexivity.
Qed.

(* the line as it stands in a document: followed by a line feed *)
Corollary printed_line_lexes d :
  rdef_lex_ok d ->
  map (fun t => (tk t, ttext t)) (fst (lex_all (render_rdef d ++ [10]))) =
    kts (toks_def (rd_first d) (rd_op d) (rd_rest d)) ++ [(NEWLINE, [10])] /\
  snd (lex_all (render_rdef d ++ [10])) = [].
Proof.
  intros Hok. destruct (printed_definition_lexes d [10] Hok eq_refl) as [A B]. cbv zeta in A, B.
  pose proof (recs_length _ [10] (fits_recs _ _ (rdef_lexes d [10] Hok eq_refl))) as Hlen. pose proof (rdef_text d Hok) as Et. unfold text_of in Et. rewrite Et in Hlen.
  rewrite app_length in A, B. cbn [length] in A, B.
  replace (S (length (render_rdef d) + 1) - length (kts (toks_def (rd_first d) (rd_op d) (rd_rest d))))%nat
    with (S (S (length (render_rdef d) - length (kts (toks_def (rd_first d) (rd_op d) (rd_rest d))))))%nat in A, B by lia.
  split; [exact A|]. destruct (snd (lex_all (render_rdef d ++ [10]))); [reflexivity|discriminate B].
Qed.

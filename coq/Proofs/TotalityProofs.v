(* Proofs/TotalityProofs.v — the modelled control flow never reaches a Go panic (C08): the printer on any
   protobuf shape, the listener on any grammatical tree, hence ParseDSL on any text. *)
From Verif Require Import Base.Str Base.Outcome Model.Ast Model.Token Model.Lexer Model.Parser Model.Listener
  Model.Printer Model.Transform Spec.Sem Proofs.ListenerSem Proofs.ListenerFile Proofs.ParserShape.

(* ---- printer ---- *)
Lemma print_relation_no_panic ty rel u meta src : is_panic (print_relation ty rel u meta src) = false.
Proof. unfold print_relation. destruct (print_top u _) as [[t n]|]; [|reflexivity]. destruct (_ || _); reflexivity. Qed.

Lemma print_relations_no_panic ty names rels meta src : is_panic (print_relations ty names rels meta src) = false.
Proof.
  induction names as [|n names IH]; simpl; [reflexivity|].
  pose proof (print_relation_no_panic ty n (match assoc n rels with Some u => u | None => UUnset end) (assoc n meta) src) as H.
  destruct (print_relation _ _ _ _ _); simpl in *; try reflexivity; try discriminate.
  destruct (print_relations ty names rels meta src); simpl in *; auto.
Qed.

Lemma print_type_no_panic t modular src : is_panic (print_type t modular src) = false.
Proof.
  unfold print_type. destruct (td_rels t); [reflexivity|].
  match goal with |- context [print_relations ?a ?b ?c ?d ?e] => pose proof (print_relations_no_panic a b c d e) as H; destruct (print_relations a b c d e) end; simpl in *; auto.
Qed.

Lemma print_types_no_panic ts modular src : is_panic (print_types ts modular src) = false.
Proof.
  induction ts as [|t ts IH]; simpl; [reflexivity|].
  pose proof (print_type_no_panic t modular src) as H. destruct (print_type t modular src); simpl in *; try reflexivity; try discriminate.
  destruct (print_types ts modular src); simpl in *; auto.
Qed.

Lemma print_params_no_panic c ps : is_panic (print_params c ps) = false.
Proof.
  induction ps as [|[name [n gen]] ps IH]; simpl; [reflexivity|].
  destruct (_ || _).
  - destruct gen as [|[g gs] r]; [reflexivity|]. destruct (print_params c ps); simpl in *; auto.
  - destruct (print_params c ps); simpl in *; auto.
Qed.

Lemma print_condition_no_panic k c src : is_panic (print_condition k c src) = false.
Proof.
  unfold print_condition. destruct (negb _); [reflexivity|].
  pose proof (print_params_no_panic (c_name c) (stable_sort pair_cmp (c_params c))) as H.
  destruct (print_params _ _); simpl in *; auto.
Qed.

Lemma print_conditions_no_panic cs src : is_panic (print_conditions cs src) = false.
Proof.
  induction cs as [|[k c] cs IH]; simpl; [reflexivity|].
  pose proof (print_condition_no_panic k c src) as H. destruct (print_condition k c src); simpl in *; try reflexivity; try discriminate.
  destruct (print_conditions cs src); simpl in *; auto.
Qed.

(* C08_printer_total: TransformJSONProtoToDSL never panics, for any protobuf shape (nil usersets, empty
   operators, missing metadata, list parameter without element type, unknown type numbers) *)
Theorem print_model_no_panic src m : is_panic (fst (print_model src m)) = false.
Proof.
  unfold print_model. cbn [fst].
  match goal with |- context [print_types ?a ?b ?c] => pose proof (print_types_no_panic a b c) as H; destruct (print_types a b c) end; simpl in *; try reflexivity; try discriminate.
  match goal with |- context [print_conditions ?a ?b] => pose proof (print_conditions_no_panic a b) as H2; destruct (print_conditions a b) end; simpl in *; auto.
Qed.

(* ---- listener on grammatical trees ---- *)
Lemma walk_reldecls_no_panic modular ext module_ ty rs :
  Forall (fun r => wf_rdef (rl_def r) = true) rs ->
  forall rels meta errs, is_panic (walk_reldecls modular ext module_ ty rs rels meta errs) = false.
Proof.
  induction 1 as [|r rs Hr _ IH]; intros rels meta errs; cbn [walk_reldecls]; [reflexivity|].
  destruct (walk_rdef_sem (rl_def r) Hr) as [s [Ew _]]. rewrite Ew. cbn [obind].
  destruct (parse_expression _ _); apply IH.
Qed.

Lemma walk_typedecl_no_panic t s :
  Forall (fun r => wf_rdef (rl_def r) = true) (ty_rels t) -> (ls_modular s = true -> ls_ext_alloc s = true) ->
  match walk_typedecl t s with
  | Ok s' => ls_modular s' = ls_modular s /\ ls_ext_alloc s' = ls_ext_alloc s
  | Err _ => True
  | Panic _ => False
  end.
Proof.
  intros Hwf Ha. unfold walk_typedecl.
  set (s0 := if ty_extend t && negb (ls_modular s) then _ else s).
  assert (Hs0 : ls_modular s0 = ls_modular s /\ ls_ext_alloc s0 = ls_ext_alloc s) by (unfold s0; destruct (_ && _); split; reflexivity).
  destruct Hs0 as [Hm0 Ha0].
  pose proof (walk_reldecls_no_panic (ls_modular s0) (ty_extend t) (ls_module s0) (ttext (ty_name t)) (ty_rels t) Hwf [] [] []) as Hnp.
  destruct (walk_reldecls _ _ _ _ _ _ _ _) as [[[rels meta] errs]| |]; cbn [obind]; try exact I; [|discriminate].
  destruct (ttext (ty_name t)) as [|c0 nm]; [split; assumption|].
  destruct (ty_extend t && ls_modular s0) eqn:Ee.
  - cbn [ls_exts]. destruct (assoc (c0 :: nm) (ls_exts s0)); [split; assumption|].
    cbn [ls_ext_alloc]. apply andb_prop in Ee. destruct Ee as [_ Em].
    assert (Halloc : ls_ext_alloc s0 = true) by (rewrite Ha0; apply Ha; rewrite <- Hm0; exact Em).
    rewrite Halloc. cbn [ls_modular ls_ext_alloc]. split; [exact Hm0|rewrite <- Ha0, Halloc; reflexivity].
  - split; assumption.
Qed.

Lemma walk_typedecls_no_panic ts : forall s,
  Forall (fun t => Forall (fun r => wf_rdef (rl_def r) = true) (ty_rels t)) ts ->
  (ls_modular s = true -> ls_ext_alloc s = true) -> is_panic (walk_typedecls ts s) = false.
Proof.
  induction ts as [|t ts IH]; intros s Hwf Ha; cbn [walk_typedecls]; [reflexivity|].
  inversion Hwf as [|? ? Ht Hts]; subst.
  pose proof (walk_typedecl_no_panic t s Ht Ha) as H.
  destruct (walk_typedecl t s) as [s'| |]; cbn [obind]; try reflexivity; [|contradiction].
  destruct H as [Hm Hal]. apply IH; auto. rewrite Hm, Hal. exact Ha.
Qed.

(* C08_listener_total (complete trees): the walk of any grammatical tree never reaches the two panic sites
   (empty rewrite stack, nil extension map) *)
Theorem walk_no_panic f : wf_file f -> is_panic (walk f) = false.
Proof.
  intros Hwf. unfold walk.
  pose proof (walk_typedecls_no_panic (f_types f) (init_lstate (f_header f)) Hwf) as H.
  assert (Hinit : ls_modular (init_lstate (f_header f)) = true -> ls_ext_alloc (init_lstate (f_header f)) = true)
    by (destruct (f_header f); simpl; intros E; [discriminate|reflexivity]).
  specialize (H Hinit). destruct (walk_typedecls _ _); cbn [obind]; try reflexivity. exact H.
Qed.

(* hence ParseDSL never panics, on any text: every tree the parser model returns is grammatical *)
Theorem parse_walk_no_panic ts : match parse_walk ts with DPanic _ => False | _ => True end.
Proof.
  unfold parse_walk. destruct (parse ts) as [f|] eqn:Ep; [|exact I].
  pose proof (walk_no_panic f (parse_wf ts f Ep)) as H.
  destruct (walk f) as [s| |]; try exact I; [destruct (ls_errs s); exact I|discriminate].
Qed.

Theorem dsl_to_model_no_panic d : match dsl_to_model d with DPanic _ => False | _ => True end.
Proof.
  unfold dsl_to_model. destruct (lex (prepass d)) as [ts es]. destruct es; [apply parse_walk_no_panic|exact I].
Qed.

(* C08_errors_void: a lexer, parser or listener error never comes with a model *)
Theorem dsl_errors_void d m exts md : dsl_to_model d = DOk m exts md ->
  snd (lex (prepass d)) = [] /\ exists f s, parse (fst (lex (prepass d))) = Some f /\ walk f = Ok s /\ ls_errs s = [].
Proof.
  unfold dsl_to_model. destruct (lex (prepass d)) as [ts es]. cbn [fst snd]. destruct es; [|discriminate].
  unfold parse_walk. destruct (parse ts) as [f|]; [|discriminate]. destruct (walk f) as [s| |] eqn:Ew; try discriminate.
  destruct (ls_errs s) eqn:Ee; [|discriminate]. intros _. split; [reflexivity|]. exists f, s. repeat split; auto.
Qed.

(* Proofs/ListenerSem.v — the listener's rewrite-stack discipline computes the denotation of the
   parse tree, for every grammatical tree: any nesting depth, operand count and operator mix (C03). *)
From Verif Require Import Base.Str Base.Outcome Model.Ast Model.Token Model.Parser Model.Listener Spec.Sem.

(* induction principle through the operand lists *)
Section relem_ind'.
  Variable P : relem -> Prop.
  Hypothesis Hdirect : forall rs, P (EDirect rs).
  Hypothesis Hrewrite : forall cu ts, P (ERewrite cu ts).
  Hypothesis Hgroup : forall nd first op rest, P first -> Forall P rest -> P (EGroup nd first op rest).
  Fixpoint relem_ind' (e : relem) : P e :=
    match e with
    | EDirect rs => Hdirect rs
    | ERewrite cu ts => Hrewrite cu ts
    | EGroup nd first op rest =>
        Hgroup nd first op rest (relem_ind' first)
               ((fix go (l : list relem) : Forall P l :=
                   match l with
                   | [] => Forall_nil P
                   | x :: r => Forall_cons x (relem_ind' x) (go r)
                   end) rest)
    end.
End relem_ind'.

Arguments parse_expression : simpl never.

Definition st (rw : list userset) (op : opk) (ti : list relation_ref) (stk : list (list userset * opk)) : rstate :=
  {| rewrites := rw; operator := op; typeinfo := ti; stack := stk |}.

Lemma rstate_eta s : s = st (rewrites s) (operator s) (typeinfo s) (stack s).
Proof. destruct s; reflexivity. Qed.

(* the inner loop of walk_elem is walk_elems *)
Lemma walk_group_unfold nd first op rest s :
  walk_elem (EGroup nd first op rest) s =
  (let s0 := if nd then st [] (operator s) (typeinfo s) (stack s ++ [(rewrites s, operator s)]) else s in
   obind (walk_elem first s0) (fun s1 =>
   let s2 := match op with ONone => s1 | _ => st (rewrites s1) op (typeinfo s1) (stack s1) end in
   obind (walk_elems rest s2) (fun s3 =>
   let def := parse_expression (rewrites s3) (operator s3) in
   if nd then
     match rev (stack s3) with
     | [] => Panic (lit "index out of range: rewriteStack")
     | (prw, pop) :: rst =>
         match def with
         | Some d => Ok (st (prw ++ [d]) pop (typeinfo s3) (rev rst))
         | None => Ok (st (rewrites s3) (operator s3) (typeinfo s3) (rev rst))
         end
     end
   else match def with
        | Some d => Ok (r_with_rewrites s3 [d])
        | None => Ok s3
        end))).
Proof. reflexivity. Qed.

(* walking a list of well-formed operands appends their denotations and leaves the rest alone *)
Definition operand_spec (e : relem) : Prop :=
  wf_operand e = true ->
  forall s, walk_elem e s = Ok (st (rewrites s ++ [sem_elem e]) (operator s) (typeinfo s) (stack s)).

Lemma walk_elems_operands rest :
  Forall operand_spec rest -> forallb wf_operand rest = true ->
  forall s, walk_elems rest s = Ok (st (rewrites s ++ map sem_elem rest) (operator s) (typeinfo s) (stack s)).
Proof.
  induction 1 as [|e rest He _ IH]; intros Hwf s.
  - simpl. rewrite app_nil_r. f_equal. apply rstate_eta.
  - simpl in Hwf. apply andb_prop in Hwf. destruct Hwf as [Hwe Hwr].
    change (walk_elems (e :: rest) s) with (obind (walk_elem e s) (walk_elems rest)).
    rewrite (He Hwe s). simpl. rewrite (IH Hwr). simpl. rewrite <- app_assoc. reflexivity.
Qed.

(* with a non-empty operand list the pending operator is the group's own; with an empty one the
   single rewrite is returned whatever operator is pending *)
Lemma parse_expression_group op (x : userset) (ys : list userset) opc rest :
  partials_ok op rest = true -> length ys = length rest ->
  opc = (match op with ONone => opc | _ => op end) ->
  parse_expression (x :: ys) opc = Some (combine op (x :: ys)).
Proof.
  intros Hp Hl Hop. destruct op, rest as [|r [|r' rest]], ys as [|y [|y' ys]]; simpl in *; try discriminate; try reflexivity;
    rewrite Hop; reflexivity.
Qed.

Theorem walk_operand e : operand_spec e.
Proof.
  induction e as [rs | cu ts | nd first op rest IHf IHr] using relem_ind'; intros Hwf s; try discriminate Hwf.
  - destruct ts; reflexivity.
  - destruct nd; [|discriminate Hwf]. simpl in Hwf.
    apply andb_prop in Hwf. destruct Hwf as [Hwf Hrest]. apply andb_prop in Hwf. destruct Hwf as [Hfirst Hpart].
    rewrite walk_group_unfold. cbv zeta.
    rewrite (IHf Hfirst). simpl obind.
    set (s2 := match op with ONone => _ | _ => _ end).
    assert (Es2 : s2 = st [sem_elem first] (match op with ONone => operator s | _ => op end) (typeinfo s) (stack s ++ [(rewrites s, operator s)])).
    { unfold s2. destruct op; reflexivity. }
    rewrite Es2. rewrite (walk_elems_operands rest IHr Hrest).
    cbn [obind rewrites operator typeinfo stack st app].
    rewrite (parse_expression_group op (sem_elem first) (map sem_elem rest) _ rest Hpart (map_length _ _)).
    + rewrite rev_app_distr. simpl. rewrite rev_involutive. reflexivity.
    + destruct op; reflexivity.
Qed.

(* leading position: the walk starts with no rewrites pending *)
Definition leading_spec (e : relem) : Prop :=
  wf_leading e = true ->
  forall s, rewrites s = [] ->
  exists op', walk_elem e s =
              Ok (st [sem_elem e] op' (match restrictions_elem e with Some r => r | None => typeinfo s end) (stack s)).

Theorem walk_leading e : leading_spec e.
Proof.
  induction e as [rs | cu ts | nd first op rest IHf IHr] using relem_ind'; intros Hwf s Hs.
  - simpl. rewrite Hs. eexists; reflexivity.
  - simpl. rewrite Hs. destruct ts; eexists; reflexivity.
  - destruct nd; [discriminate Hwf|]. simpl in Hwf.
    apply andb_prop in Hwf. destruct Hwf as [Hwf Hrest]. apply andb_prop in Hwf. destruct Hwf as [Hfirst Hpart].
    rewrite walk_group_unfold. cbv zeta.
    destruct (IHf Hfirst s Hs) as [op1 E1]. rewrite E1. simpl obind.
    set (ti := match restrictions_elem first with Some r => r | None => typeinfo s end).
    set (s2 := match op with ONone => _ | _ => _ end).
    assert (Es2 : s2 = st [sem_elem first] (match op with ONone => op1 | _ => op end) ti (stack s)).
    { unfold s2. destruct op; reflexivity. }
    rewrite Es2.
    assert (IHr' : Forall operand_spec rest) by (apply Forall_forall; intros x _; apply walk_operand).
    rewrite (walk_elems_operands rest IHr' Hrest).
    cbn [obind rewrites operator typeinfo stack st app].
    rewrite (parse_expression_group op (sem_elem first) (map sem_elem rest) _ rest Hpart (map_length _ _)).
    + eexists. reflexivity.
    + destruct op; reflexivity.
Qed.

(* a whole relation definition *)
Theorem walk_rdef_sem d :
  wf_rdef d = true ->
  exists s, walk_rdef d = Ok s /\
            parse_expression (rewrites s) (operator s) = Some (sem_rdef d) /\
            typeinfo s = (match restrictions_elem (rd_first d) with Some r => r | None => [] end) /\
            stack s = [].
Proof.
  unfold wf_rdef. intros Hwf. apply andb_prop in Hwf. destruct Hwf as [Hwf Hrest]. apply andb_prop in Hwf. destruct Hwf as [Hfirst Hpart].
  unfold walk_rdef.
  destruct (walk_leading (rd_first d) Hfirst init_rstate eq_refl) as [op1 E1]. rewrite E1. simpl obind.
  set (ti := match restrictions_elem (rd_first d) with Some r => r | None => typeinfo init_rstate end).
  set (s2 := match rd_op d with ONone => _ | _ => _ end).
  assert (Es2 : s2 = st [sem_elem (rd_first d)] (match rd_op d with ONone => op1 | _ => rd_op d end) ti []).
  { unfold s2. destruct (rd_op d); reflexivity. }
  rewrite Es2.
  assert (IHr' : Forall operand_spec (rd_rest d)) by (apply Forall_forall; intros x _; apply walk_operand).
  rewrite (walk_elems_operands (rd_rest d) IHr' Hrest).
  eexists. split; [reflexivity|]. simpl. split; [|split; reflexivity].
  unfold sem_rdef.
  apply (parse_expression_group (rd_op d) (sem_elem (rd_first d)) (map sem_elem (rd_rest d)) _ (rd_rest d) Hpart (map_length _ _)).
  destruct (rd_op d); reflexivity.
Qed.

(* Proofs/LexEof.v — a plain name at the very END of the input is recognised as one IDENTIFIER token
   (Proofs/LexInversion.rec_name is the same statement in front of a delimiter). *)
From Coq Require Import Lia.
From Verif Require Import Base.Str Model.Token Gen.Keywords Model.Lexer Proofs.LexInversion.

Lemma run_len_all p a : forallb p a = true -> run_len p a = length a.
Proof.
  induction a as [|x a IH]; cbn; intros Ha; [reflexivity|]. apply andb_true_iff in Ha. destruct Ha as [Hx Ha]. rewrite Hx, IH by assumption. reflexivity.
Qed.

Lemma prefix_cases_eof l s : is_prefix l s = true -> (length l < length s)%nat \/ l = s.
Proof.
  revert s. induction l as [|c l IH]; intros s H.
  - destruct s; [right; reflexivity|left; cbn; lia].
  - destruct s as [|c' s]; cbn [is_prefix] in H; [discriminate|].
    apply andb_true_iff in H. destruct H as [Hc H]. apply N.eqb_eq in Hc. subst c'. destruct (IH s H) as [A|A].
    + left. cbn. lia.
    + right. f_equal. exact A.
Qed.

Lemma name_tail_hd_eof r : forallb is_id_char r = true -> match r with y :: _ => nq y | [] => True end.
Proof. intros Hr. destruct r as [|y r']; [exact I|]. cbn in Hr. apply andb_true_iff in Hr. apply nq_id. tauto. Qed.

Lemma ext_tail_le_eof : forall f a, forallb is_id_char a = true -> (ext_tail f a <= length a)%nat.
Proof.
  induction f as [|f IH]; intros a Ha; [cbn; lia|]. destruct a as [|x a]; cbn [ext_tail length]; [lia|].
  cbn in Ha. apply andb_true_iff in Ha. destruct Ha as [Hx Ha]. destruct (is_alnum_ x).
  - specialize (IH a Ha). lia.
  - destruct (is_ext_sep x); [|lia]. destruct a as [|y a']; [lia|].
    cbn in Ha. apply andb_true_iff in Ha. destruct Ha as [_ Ha']. destruct (is_alnum_ y); [|lia].
    specialize (IH a' Ha'). cbn [length]. lia.
Qed.

Lemma rec_name_eof s : plain_name s = true -> rec_at IDENTIFIER s [].
Proof.
  intros Hp. unfold plain_name in Hp. apply andb_true_iff in Hp. destruct Hp as [Hp Hbut]. apply andb_true_iff in Hp. destruct Hp as [Hid Hlit].
  destruct s as [|c r]; [discriminate|]. apply andb_true_iff in Hid. destruct Hid as [Hc Hr].
  split; [|split; [discriminate|reflexivity]]. rewrite app_nil_r.
  pose proof (id_start_ge c Hc) as Hge.
  rewrite default_rules_parts.
  change recognisers with (firstn 7 recognisers ++ (IDENTIFIER, rec_identifier) :: skipn 8 recognisers). rewrite app_assoc.
  apply best_rule_wins.
  - cbn [rec_identifier]. rewrite Hc, (run_len_all _ _ Hr). reflexivity.
  - cbn. lia.
  - apply Forall_app. split.
    + apply (literals_bound _ (fun n => (n < length (c :: r))%nat)).
      * intros l Hl. unfold rec_literal. destruct (is_prefix l (c :: r)) eqn:Epre; [|cbn; lia].
        destruct (prefix_cases_eof l (c :: r) Epre) as [A|A]; [exact A|].
        exfalso. subst l. apply negb_true_iff in Hlit. assert (X : existsb (str_eqb (c :: r)) all_literal_spellings = true)
          by (apply existsb_exists; exists (c :: r); split; [exact Hl|apply str_eqb_refl]). congruence.
      * unfold rec_schema_version. cbn [run_len].
        assert (Hdg : is_digit c = false) by (unfold is_digit; apply andb_false_iff; right; apply N.leb_gt; lia).
        rewrite Hdg. cbn. lia.
    + assert (Hdg : is_digit c = false) by (unfold is_digit; apply andb_false_iff; right; apply N.leb_gt; lia).
      assert (Hws : is_ws_char c = false) by (unfold is_ws_char; rewrite !eqb_small by lia; reflexivity).
      assert (Hnqc : nq c) by (split; apply eqb_small; lia).
      pose proof (name_tail_hd_eof r Hr) as Htl.
      cbn [firstn recognisers]. repeat apply Forall_cons; try apply Forall_nil; cbn [snd length].
      * unfold rec_whitespace. cbn [run_len]. rewrite Hws. lia.
      * unfold rec_cel_comment. destruct r; [lia|]. rewrite (eqb_small c 47) by lia. cbn. lia.
      * unfold rec_num_float. cbn [run_len]. rewrite Hdg. cbn [skipn Nat.eqb Nat.add]. rewrite (eqb_small c 46) by lia. cbn. lia.
      * unfold rec_num_int, hex_prefix. cbn [run_len]. rewrite Hdg. destruct r; [cbn; lia|]. rewrite (eqb_small c 48) by lia. cbn. lia.
      * unfold rec_num_uint, hex_prefix, u_after. cbn [run_len]. rewrite Hdg. destruct r; [cbn; lia|]. rewrite (eqb_small c 48) by lia. cbn. lia.
      * rewrite rec_string_zero; [cbn; lia|exact Hnqc|intros _; exact Htl].
      * unfold rec_bytes. destruct ((c =? 98) || (c =? 66)); [|lia].
        destruct r as [|y t]; [cbn; lia|]. rewrite rec_string_zero; [cbn; lia|exact Htl|].
        intros Hy. cbn in Hr. apply andb_true_iff in Hr. destruct Hr as [_ Hr']. exact (name_tail_hd_eof t Hr').
  - cbn [skipn recognisers]. repeat apply Forall_cons; try apply Forall_nil; cbn [snd length].
    + unfold rec_ext_identifier. rewrite Hc. pose proof (ext_tail_le_eof (length r) r Hr). lia.
    + unfold rec_newline. cbn [run_len]. assert (Hnl : is_nlish c = false) by (unfold is_nlish, is_ws_char; rewrite !eqb_small by lia; reflexivity).
      rewrite Hnl. cbn. lia.
Qed.

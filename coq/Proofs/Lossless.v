(* Proofs/Lossless.v — what the printer writes for an expressible relation IS the canonical rendering of a
   grammatical parse tree whose denotation is the normalised rewrite (C01/C02, second half, up to the
   inversion  parse (lex (render t)) = t  which the correspondence checks observe). *)
From Coq Require Import Permutation.
From Verif Require Import Base.Str Base.Outcome Model.Ast Model.Token Model.Parser Model.Listener Model.Printer
  Spec.Sem Spec.Expressible Spec.Normalize Proofs.PrinterExpressible Proofs.ListenerSem Proofs.RoundTrip.

(* ---- prioritize_by commutes with a decoration of the elements ---- *)
Section Decor.
  Context {A B : Type} (f : A -> bool) (g : A -> B).
  Let h (c : A) : bool * B := (f c, g c).

  Lemma split_at_first_decor cs before :
    split_at_first fst (map h cs) (map h before) =
    match split_at_first f cs before with
    | Some (b, t, a) => Some (map h b, h t, map h a)
    | None => None
    end.
  Proof.
    revert before. induction cs as [|c cs IH]; intros before; simpl; [reflexivity|].
    destruct (f c); [rewrite map_rev; reflexivity|].
    apply (IH (c :: before)).
  Qed.

  Lemma prioritize_by_decor cs :
    map snd (prioritize_by fst (map h cs)) = map g (prioritize_by f cs).
  Proof.
    unfold prioritize_by. change (@nil (bool * B)) with (map h []) at 1. rewrite (split_at_first_decor cs []).
    destruct (split_at_first f cs []) as [[[b t] a]|].
    - simpl. rewrite !map_app, !map_map. reflexivity.
    - rewrite map_map. reflexivity.
  Qed.
End Decor.

(* the local [kids] helpers are maps *)
Lemma normalize_union cs : normalize (UUnion cs) = collapse UUnion (map normalize (prioritize cs)).
Proof.
  cbn [normalize]. f_equal. unfold prioritize. rewrite <- (prioritize_by_decor is_this normalize cs). reflexivity.
Qed.
Lemma normalize_inter cs : normalize (UInter cs) = collapse UInter (map normalize (prioritize cs)).
Proof.
  cbn [normalize]. f_equal. unfold prioritize. rewrite <- (prioritize_by_decor is_this normalize cs). reflexivity.
Qed.
Lemma tree_of_union refs cs : tree_of refs (UUnion cs) = group_of OOr (map (tree_of refs) (prioritize cs)).
Proof.
  cbn [tree_of]. f_equal. unfold prioritize. rewrite <- (prioritize_by_decor is_this (tree_of refs) cs). reflexivity.
Qed.
Lemma tree_of_inter refs cs : tree_of refs (UInter cs) = group_of OAnd (map (tree_of refs) (prioritize cs)).
Proof.
  cbn [tree_of]. f_equal. unfold prioritize. rewrite <- (prioritize_by_decor is_this (tree_of refs) cs). reflexivity.
Qed.
Lemma print_sub_union' rs cs :
  print_sub rs (UUnion cs) =
  match collect (map (print_sub rs) (prioritize cs)) with
  | Some (l, n) => Some (lit "(" ++ join (lit " or ") l ++ lit ")", n)
  | None => None
  end.
Proof. rewrite print_sub_union. unfold kid, prioritize. rewrite (prioritize_by_decor is_this (print_sub rs) cs). reflexivity. Qed.
Lemma print_sub_inter' rs cs :
  print_sub rs (UInter cs) =
  match collect (map (print_sub rs) (prioritize cs)) with
  | Some (l, n) => Some (lit "(" ++ join (lit " and ") l ++ lit ")", n)
  | None => None
  end.
Proof. rewrite print_sub_inter. unfold kid, prioritize. rewrite (prioritize_by_decor is_this (print_sub rs) cs). reflexivity. Qed.

Lemma prioritize_perm cs : Permutation (prioritize cs) cs.
Proof. apply prioritize_by_perm. Qed.

Lemma Forall_prioritize (P : userset -> Prop) cs : Forall P cs -> Forall P (prioritize cs).
Proof. intros H. eapply Forall_perm; [apply Permutation_sym, prioritize_perm|exact H]. Qed.

(* ---- 1. the printed text is the rendering of the tree ---- *)
Lemma render_restr_of_ref r :
  (forall x, rr_kind r = RRel x -> x <> []) -> render_restr (restr_of_ref r) = print_restriction r.
Proof.
  intros Hx. unfold render_restr, print_restriction, restr_of_ref. cbn [rs_type rs_kind rs_cond ttext name_tok].
  destruct (rr_kind r) as [|x|] eqn:K; cbn [ttext name_tok].
  - simpl. destruct (is_empty (rr_cond r)); reflexivity.
  - assert (Hne : x <> []) by (apply Hx; reflexivity).
    destruct x as [|a x]; [contradiction|]. simpl. destruct (is_empty (rr_cond r)); reflexivity.
  - simpl. destruct (is_empty (rr_cond r)); reflexivity.
Qed.

Lemma map_ext_Forall {A B} (f g : A -> B) l : Forall (fun x => f x = g x) l -> map f l = map g l.
Proof. induction 1 as [|x l Hx _ IH]; simpl; [reflexivity|]. rewrite Hx, IH. reflexivity. Qed.

Definition refs_ok (refs : list relation_ref) : Prop :=
  Forall (fun r => forall x, rr_kind r = RRel x -> x <> []) refs.

Lemma render_direct refs : refs_ok refs -> render_elem (EDirect (map restr_of_ref refs)) = print_this refs.
Proof.
  intros H. unfold print_this. cbn [render_elem]. do 2 f_equal. rewrite map_map. f_equal.
  apply map_ext_Forall. apply Forall_forall. unfold refs_ok in H. rewrite Forall_forall in H. intros r Hin. apply render_restr_of_ref. apply H. exact Hin.
Qed.

Lemma collect_map {A} (F : A -> option (str * nat)) (G : A -> str) xs l n :
  Forall (fun x => forall t k, F x = Some (t, k) -> t = G x) xs ->
  collect (map F xs) = Some (l, n) -> l = map G xs.
Proof.
  revert l n. induction xs as [|x xs IH]; intros l n Hall H; simpl in H.
  - inversion H; reflexivity.
  - inversion Hall as [|? ? Hx Hxs]; subst.
    destruct (F x) as [[t k]|] eqn:E; [|discriminate].
    destruct (collect (map F xs)) as [[l' n']|] eqn:E'; [|discriminate].
    inversion H; subst. simpl. rewrite (Hx t k eq_refl), (IH l' n' Hxs eq_refl). reflexivity.
Qed.

Lemma render_group op xs :
  op <> ONone ->
  render_elem (group_of op xs) = lit "(" ++ join (op_text op) (map render_elem xs) ++ lit ")".
Proof.
  intros Hop. destruct xs as [|x [|y r]]; cbn [group_of render_elem map]; try reflexivity.
Qed.

Theorem printed_is_rendered refs u t n :
  refs_ok refs -> print_sub refs u = Some (t, n) -> t = render_elem (tree_of refs u).
Proof.
  intros Hrefs. revert t n.
  induction u as [| [|] | rel | ts cu | cs IH | cs IH | b s IHb IHs] using userset_ind'; intros t n H; try discriminate H.
  - simpl in H. inversion H; subst. cbn [tree_of]. rewrite render_direct; auto.
  - simpl in H. inversion H; subst. reflexivity.
  - simpl in H. inversion H; subst. reflexivity.
  - rewrite print_sub_union' in H. rewrite tree_of_union.
    destruct (collect (map (print_sub refs) (prioritize cs))) as [[l k]|] eqn:E; [|discriminate].
    inversion H; subst. rewrite render_group by discriminate. rewrite map_map.
    rewrite (collect_map (print_sub refs) (fun c => render_elem (tree_of refs c)) (prioritize cs) l n); [reflexivity| |exact E].
    apply Forall_prioritize. exact IH.
  - rewrite print_sub_inter' in H. rewrite tree_of_inter.
    destruct (collect (map (print_sub refs) (prioritize cs))) as [[l k]|] eqn:E; [|discriminate].
    inversion H; subst. rewrite render_group by discriminate. rewrite map_map.
    rewrite (collect_map (print_sub refs) (fun c => render_elem (tree_of refs c)) (prioritize cs) l n); [reflexivity| |exact E].
    apply Forall_prioritize. exact IH.
  - simpl in H. destruct (print_sub refs b) as [[tb nb]|] eqn:Eb; [|discriminate].
    destruct (print_sub refs s) as [[tsx ns]|] eqn:Es; [|discriminate].
    inversion H; subst. cbn [tree_of render_elem map join op_text].
    rewrite <- (IHb tb nb eq_refl), <- (IHs tsx ns eq_refl). simpl. rewrite <- !app_assoc. reflexivity.
Qed.

(* ---- 2. the tree denotes the normalised rewrite ---- *)
Lemma sem_group op mk xs :
  (op = OOr /\ mk = UUnion) \/ (op = OAnd /\ mk = UInter) ->
  xs <> [] ->
  sem_elem (group_of op xs) = collapse mk (map sem_elem xs).
Proof.
  intros Hop Hne. destruct xs as [|x [|y r]]; [contradiction| |].
  - reflexivity.
  - cbn [group_of sem_elem]. destruct Hop as [[-> ->]|[-> ->]]; reflexivity.
Qed.

Lemma carriable_children cs : match cs with [] => false | _ => forallb carriable cs end = true ->
  cs <> [] /\ Forall (fun c => carriable c = true) cs.
Proof.
  destruct cs as [|c cs]; [discriminate|]. intros H. split; [discriminate|].
  apply Forall_forall. rewrite forallb_forall in H. exact H.
Qed.

Lemma prioritize_nonempty cs : cs <> [] -> prioritize cs <> [].
Proof. intros H E. apply H. apply (prioritize_by_nil is_this). exact E. Qed.


Theorem tree_denotes_normalize refs u : carriable u = true -> sem_elem (tree_of refs u) = normalize u.
Proof.
  induction u as [| [|] | rel | ts cu | cs IH | cs IH | b s IHb IHs] using userset_ind'; intros Hc; try discriminate Hc; try reflexivity.
  - cbn [carriable] in Hc. destruct (carriable_children cs Hc) as [Hne Hall].
    rewrite tree_of_union, normalize_union.
    rewrite (sem_group OOr UUnion) by (auto; intros E; apply map_eq_nil in E; revert E; apply prioritize_nonempty; exact Hne).
    rewrite map_map. f_equal. apply map_ext_Forall. apply Forall_prioritize.
    rewrite Forall_forall in IH, Hall |- *. intros c Hin. apply IH; auto.
  - cbn [carriable] in Hc. destruct (carriable_children cs Hc) as [Hne Hall].
    rewrite tree_of_inter, normalize_inter.
    rewrite (sem_group OAnd UInter) by (auto; intros E; apply map_eq_nil in E; revert E; apply prioritize_nonempty; exact Hne).
    rewrite map_map. f_equal. apply map_ext_Forall. apply Forall_prioritize.
    rewrite Forall_forall in IH, Hall |- *. intros c Hin. apply IH; auto.
  - cbn [carriable] in Hc. apply andb_prop in Hc. destruct Hc as [Hb Hs].
    cbn [tree_of sem_elem map combine normalize]. rewrite (IHb Hb), (IHs Hs). reflexivity.
Qed.

Lemma sem_promote e : sem_elem (promote e) = sem_elem e.
Proof.
  induction e as [rs|cu t|nd first IH op rest]; try reflexivity.
  cbn [promote sem_elem]. rewrite IH. reflexivity.
Qed.
Lemma render_promote e : render_elem (promote e) = render_elem e.
Proof.
  induction e as [rs|cu t|nd first IH op rest]; try reflexivity.
  cbn [promote render_elem]. rewrite IH. reflexivity.
Qed.

(* ---- 3. the tree is grammatical ---- *)
Lemma split_at_first_none {A} (f : A -> bool) cs before :
  existsb f cs = false -> split_at_first f cs before = None.
Proof.
  revert before. induction cs as [|c cs IH]; intros before H; simpl in *; [reflexivity|].
  destruct (f c); [discriminate|]. apply IH. exact H.
Qed.
Lemma split_at_first_some {A} (f : A -> bool) cs before :
  existsb f cs = true -> exists b t a, split_at_first f cs before = Some (b, t, a) /\ f t = true.
Proof.
  revert before. induction cs as [|c cs IH]; intros before H; simpl in *; [discriminate|].
  destruct (f c) eqn:E; [do 3 eexists; split; [reflexivity|exact E]|]. apply IH. exact H.
Qed.

Lemma prioritize_none cs : existsb is_this cs = false -> prioritize cs = cs.
Proof. intros H. unfold prioritize, prioritize_by. rewrite split_at_first_none by exact H. reflexivity. Qed.
Lemma prioritize_some cs : existsb is_this cs = true ->
  exists t rest, prioritize cs = t :: rest /\ is_this t = true.
Proof.
  intros H. unfold prioritize, prioritize_by. destruct (split_at_first_some is_this cs [] H) as (b & t & a & E & Ht).
  rewrite E. eauto.
Qed.

Lemma sum_direct_perm l l' : Permutation l l' -> sum_direct l = sum_direct l'.
Proof. unfold sum_direct. induction 1; simpl; lia. Qed.
Lemma sum_direct_zero l : sum_direct l = 0%nat -> Forall (fun c => count_direct c = 0%nat) l.
Proof.
  induction l as [|c l IH]; intros H; constructor; unfold sum_direct in *; simpl in H; [lia|apply IH; lia].
Qed.
Lemma count_union_sum cs : count_direct (UUnion cs) = sum_direct cs. Proof. reflexivity. Qed.
Lemma count_inter_sum cs : count_direct (UInter cs) = sum_direct cs. Proof. reflexivity. Qed.

Lemma existsb_direct_this cs : existsb is_direct cs = existsb is_this cs.
Proof. induction cs as [|c cs IH]; simpl; [reflexivity|]. rewrite <- (is_this_is_direct c), IH. reflexivity. Qed.

Lemma first_pos_count u : first_pos u = true -> (1 <= count_direct u)%nat.
Proof.
  induction u as [| [|] | rel | ts cu | cs IH | cs IH | b s IHb IHs] using userset_ind'; intros H; try discriminate H.
  - simpl; lia.
  - rewrite count_union_sum. cbn [first_pos] in H. apply orb_prop in H. destruct H as [H|H].
    + clear IH. induction cs as [|c cs IHc]; simpl in H; [discriminate|]. unfold sum_direct in *; simpl.
      apply orb_prop in H. destruct H as [H|H]; [|specialize (IHc H); lia].
      destruct c as [| [|] | | | | |]; try discriminate H. simpl. lia.
    + destruct cs as [|c cs]; [discriminate|]. inversion IH as [|? ? Hc _]; subst. specialize (Hc H).
      unfold sum_direct; simpl. lia.
  - rewrite count_inter_sum. cbn [first_pos] in H. apply orb_prop in H. destruct H as [H|H].
    + clear IH. induction cs as [|c cs IHc]; simpl in H; [discriminate|]. unfold sum_direct in *; simpl.
      apply orb_prop in H. destruct H as [H|H]; [|specialize (IHc H); lia].
      destruct c as [| [|] | | | | |]; try discriminate H. simpl. lia.
    + destruct cs as [|c cs]; [discriminate|]. inversion IH as [|? ? Hc _]; subst. specialize (Hc H).
      unfold sum_direct; simpl. lia.
  - cbn [first_pos] in H. specialize (IHb H). simpl. lia.
Qed.

Lemma wf_operand_group op xs :
  op = OOr \/ op = OAnd -> xs <> [] -> forallb wf_operand xs = true -> wf_operand (group_of op xs) = true.
Proof.
  intros Hop Hne H. destruct xs as [|x [|y r]]; [contradiction| |].
  - simpl in *. apply andb_prop in H. destruct H as [-> _]. reflexivity.
  - cbn [group_of wf_operand]. change (forallb wf_operand (x :: y :: r)) with (wf_operand x && forallb wf_operand (y :: r)) in H.
    apply andb_prop in H. destruct H as [-> ->]. destruct Hop as [-> | ->]; reflexivity.
Qed.

Lemma forallb_map_Forall {A B} (f : B -> bool) (g : A -> B) l : Forall (fun x => f (g x) = true) l -> forallb f (map g l) = true.
Proof. induction 1 as [|x l Hx _ IH]; simpl; [reflexivity|]. rewrite Hx, IH. reflexivity. Qed.

Theorem operand_tree_wf refs u :
  carriable u = true -> count_direct u = 0%nat -> wf_operand (tree_of refs u) = true.
Proof.
  induction u as [| [|] | rel | ts cu | cs IH | cs IH | b s IHb IHs] using userset_ind'; intros Hc H0; try discriminate Hc; try discriminate H0; try reflexivity.
  - cbn [carriable] in Hc. destruct (carriable_children cs Hc) as [Hne Hall]. rewrite count_union_sum in H0.
    rewrite tree_of_union. apply wf_operand_group; auto.
    + intros E. apply map_eq_nil in E. revert E. apply prioritize_nonempty. exact Hne.
    + apply forallb_map_Forall. apply Forall_prioritize. apply sum_direct_zero in H0.
      rewrite Forall_forall in IH, Hall, H0 |- *. intros c Hin. apply IH; auto.
  - cbn [carriable] in Hc. destruct (carriable_children cs Hc) as [Hne Hall]. rewrite count_inter_sum in H0.
    rewrite tree_of_inter. apply wf_operand_group; auto.
    + intros E. apply map_eq_nil in E. revert E. apply prioritize_nonempty. exact Hne.
    + apply forallb_map_Forall. apply Forall_prioritize. apply sum_direct_zero in H0.
      rewrite Forall_forall in IH, Hall, H0 |- *. intros c Hin. apply IH; auto.
  - cbn [carriable] in Hc. apply andb_prop in Hc. destruct Hc as [Hb Hs]. cbn [count_direct] in H0.
    cbn [tree_of wf_operand partials_ok forallb]. rewrite IHb, IHs by (auto; lia). reflexivity.
Qed.

Lemma operand_leading e : wf_operand e = true -> wf_leading (promote e) = true.
Proof.
  induction e as [rs|cu t|nd first IH op rest]; intros H; try discriminate H; try reflexivity.
  destruct nd; [|discriminate H]. cbn [wf_operand] in H. apply andb_prop in H. destruct H as [H Hr].
  apply andb_prop in H. destruct H as [Hf Hp]. cbn [promote wf_leading]. rewrite (IH Hf), Hp, Hr. reflexivity.
Qed.

Lemma wf_leading_group op x xs :
  op = OOr \/ op = OAnd -> wf_leading (promote x) = true -> forallb wf_operand xs = true ->
  wf_leading (promote (group_of op (x :: xs))) = true.
Proof.
  intros Hop Hx Hxs. destruct xs as [|y r].
  - cbn [group_of promote wf_leading]. rewrite Hx. reflexivity.
  - cbn [group_of promote wf_leading]. rewrite Hx, Hxs. destruct Hop as [-> | ->]; reflexivity.
Qed.

Lemma is_this_inv t : is_this t = true -> t = UThis ThisEmpty.
Proof. destruct t as [| [|] | | | | |]; try discriminate; reflexivity. Qed.

(* the operator cases of the leading-tree theorem, once for both operators *)
Lemma leading_children refs cs :
  Forall (fun c => carriable c = true -> count_direct c = 1%nat -> first_pos c = true -> wf_leading (promote (tree_of refs c)) = true) cs ->
  cs <> [] -> Forall (fun c => carriable c = true) cs -> sum_direct cs = 1%nat ->
  existsb is_direct cs || match cs with c :: _ => first_pos c | [] => false end = true ->
  exists x xs, map (tree_of refs) (prioritize cs) = x :: xs /\ wf_leading (promote x) = true /\ forallb wf_operand xs = true.
Proof.
  intros IH Hne Hall Hsum Hfp.
  destruct (existsb is_this cs) eqn:Ex.
  - destruct (prioritize_some cs Ex) as (t & rest & Ep & Ht). apply is_this_inv in Ht. subst t.
    rewrite Ep. exists (tree_of refs (UThis ThisEmpty)), (map (tree_of refs) rest). split; [reflexivity|]. split; [reflexivity|].
    assert (P := prioritize_perm cs). rewrite Ep in P.
    assert (Hs : sum_direct rest = 0%nat).
    { rewrite <- (sum_direct_perm _ _ P) in Hsum. unfold sum_direct in *. simpl in Hsum. lia. }
    assert (Hall' : Forall (fun c => carriable c = true) (UThis ThisEmpty :: rest)) by (eapply Forall_perm; [apply Permutation_sym; exact P|exact Hall]).
    inversion Hall' as [|? ? _ Hr]; subst.
    apply forallb_map_Forall. apply sum_direct_zero in Hs. rewrite Forall_forall in Hr, Hs |- *.
    intros c Hin. apply operand_tree_wf; auto.
  - rewrite (prioritize_none cs Ex). rewrite existsb_direct_this, Ex in Hfp. simpl in Hfp.
    destruct cs as [|c r]; [contradiction|].
    inversion IH as [|? ? Hc _]; subst. inversion Hall as [|? ? Kc Kr]; subst.
    assert (G := first_pos_count c Hfp). unfold sum_direct in Hsum; simpl in Hsum. fold (sum_direct r) in Hsum.
    exists (tree_of refs c), (map (tree_of refs) r). split; [reflexivity|]. split.
    + apply Hc; auto. lia.
    + apply forallb_map_Forall. assert (Hs : sum_direct r = 0%nat) by lia. apply sum_direct_zero in Hs.
      rewrite Forall_forall in Kr, Hs |- *. intros x Hin. apply operand_tree_wf; auto.
Qed.

Theorem leading_tree_wf1 refs u :
  carriable u = true -> count_direct u = 1%nat -> first_pos u = true -> wf_leading (promote (tree_of refs u)) = true.
Proof.
  induction u as [| [|] | rel | ts cu | cs IH | cs IH | b s IHb IHs] using userset_ind'; intros Hc H1 Hf; try discriminate Hc; try discriminate H1; try reflexivity.
  - cbn [carriable] in Hc. destruct (carriable_children cs Hc) as [Hne Hall]. rewrite count_union_sum in H1.
    destruct (leading_children refs cs IH Hne Hall H1 Hf) as (x & xs & E & Hx & Hxs).
    rewrite tree_of_union, E. apply wf_leading_group; auto.
  - cbn [carriable] in Hc. destruct (carriable_children cs Hc) as [Hne Hall]. rewrite count_inter_sum in H1.
    destruct (leading_children refs cs IH Hne Hall H1 Hf) as (x & xs & E & Hx & Hxs).
    rewrite tree_of_inter, E. apply wf_leading_group; auto.
  - cbn [carriable] in Hc. apply andb_prop in Hc. destruct Hc as [Hb Hs]. cbn [count_direct] in H1. cbn [first_pos] in Hf.
    assert (G := first_pos_count b Hf).
    cbn [tree_of promote wf_leading partials_ok forallb]. rewrite IHb by (auto; lia).
    rewrite (operand_tree_wf refs s Hs) by lia. reflexivity.
Qed.

Theorem leading_tree_wf refs u :
  carriable u = true -> expressible u = true -> wf_leading (promote (tree_of refs u)) = true.
Proof.
  intros Hc He. unfold expressible in He. apply orb_prop in He. destruct He as [H0|H1].
  - apply Nat.eqb_eq in H0. apply operand_leading. apply operand_tree_wf; auto.
  - apply andb_prop in H1. destruct H1 as [H1 Hf]. apply Nat.eqb_eq in H1. apply leading_tree_wf1; auto.
Qed.

(* ---- 4. the restrictions written are the relation's type restrictions ---- *)
Lemma ref_of_restr_of_ref r : ref_of_restr (restr_of_ref r) = r.
Proof.
  destruct r as [ty k c]. unfold ref_of_restr, restr_of_ref. cbn [rs_type rs_kind rs_cond rr_type rr_kind rr_cond ttext name_tok].
  f_equal.
  - destruct k; reflexivity.
  - destruct c; reflexivity.
Qed.

Lemma restrictions_promote e : restrictions_elem (promote e) = restrictions_elem e.
Proof. induction e as [rs|cu t|nd first IH op rest]; try reflexivity. cbn [promote restrictions_elem]. exact IH. Qed.

Lemma operand_no_restrictions e : wf_operand e = true -> restrictions_elem e = None.
Proof.
  induction e as [rs|cu t|nd first IH op rest]; intros H; try discriminate H; try reflexivity.
  destruct nd; [|discriminate H]. cbn [wf_operand] in H. apply andb_prop in H. destruct H as [H _].
  apply andb_prop in H. destruct H as [Hf _]. cbn [restrictions_elem]. auto.
Qed.

Lemma restrictions_group op x xs : restrictions_elem (group_of op (x :: xs)) = restrictions_elem x.
Proof. destruct xs; reflexivity. Qed.

Theorem tree_restrictions refs u :
  carriable u = true -> count_direct u = 1%nat -> first_pos u = true -> restrictions_elem (tree_of refs u) = Some refs.
Proof.
  induction u as [| [|] | rel | ts cu | cs IH | cs IH | b s IHb IHs] using userset_ind'; intros Hc H1 Hf; try discriminate Hc; try discriminate H1.
  - cbn [tree_of restrictions_elem]. rewrite map_map. f_equal. rewrite <- (map_id refs) at 2. apply map_ext. apply ref_of_restr_of_ref.
  - cbn [carriable] in Hc. destruct (carriable_children cs Hc) as [Hne Hall]. rewrite count_union_sum in H1. rewrite tree_of_union.
    destruct (existsb is_this cs) eqn:Ex.
    + destruct (prioritize_some cs Ex) as (t & rest & Ep & Ht). apply is_this_inv in Ht. subst t. rewrite Ep.
      cbn [map]. rewrite restrictions_group. cbn [tree_of restrictions_elem]. rewrite map_map. f_equal.
      rewrite <- (map_id refs) at 2. apply map_ext. apply ref_of_restr_of_ref.
    + rewrite (prioritize_none cs Ex). cbn [first_pos] in Hf. rewrite existsb_direct_this, Ex in Hf. simpl in Hf.
      destruct cs as [|c r]; [contradiction|]. inversion IH as [|? ? Hc' _]; subst. inversion Hall as [|? ? Kc _]; subst.
      assert (G := first_pos_count c Hf). unfold sum_direct in H1; simpl in H1. fold (sum_direct r) in H1.
      cbn [map]. rewrite restrictions_group. apply Hc'; auto. lia.
  - cbn [carriable] in Hc. destruct (carriable_children cs Hc) as [Hne Hall]. rewrite count_inter_sum in H1. rewrite tree_of_inter.
    destruct (existsb is_this cs) eqn:Ex.
    + destruct (prioritize_some cs Ex) as (t & rest & Ep & Ht). apply is_this_inv in Ht. subst t. rewrite Ep.
      cbn [map]. rewrite restrictions_group. cbn [tree_of restrictions_elem]. rewrite map_map. f_equal.
      rewrite <- (map_id refs) at 2. apply map_ext. apply ref_of_restr_of_ref.
    + rewrite (prioritize_none cs Ex). cbn [first_pos] in Hf. rewrite existsb_direct_this, Ex in Hf. simpl in Hf.
      destruct cs as [|c r]; [contradiction|]. inversion IH as [|? ? Hc' _]; subst. inversion Hall as [|? ? Kc _]; subst.
      assert (G := first_pos_count c Hf). unfold sum_direct in H1; simpl in H1. fold (sum_direct r) in H1.
      cbn [map]. rewrite restrictions_group. apply Hc'; auto. lia.
  - cbn [carriable] in Hc. apply andb_prop in Hc. destruct Hc as [Hb Hs]. cbn [count_direct] in H1. cbn [first_pos] in Hf.
    assert (G := first_pos_count b Hf). cbn [tree_of restrictions_elem]. apply IHb; auto. lia.
Qed.

(* ---- 5. the top level of a relation: no outer parentheses ---- *)
Lemma rdef_of_sem refs u : sem_rdef (rdef_of refs u) = sem_elem (tree_of refs u).
Proof.
  unfold rdef_of, sem_rdef. destruct (tree_of refs u) as [rs|cu t|nd first op rest]; try reflexivity.
  cbn [rd_first rd_op rd_rest sem_elem]. rewrite sem_promote. reflexivity.
Qed.

Lemma rdef_of_wf refs u : wf_rdef (rdef_of refs u) = wf_leading (promote (tree_of refs u)).
Proof.
  unfold rdef_of, wf_rdef. destruct (tree_of refs u) as [rs|cu t|nd first op rest]; reflexivity.
Qed.

Lemma rdef_of_render refs u :
  lit "(" ++ render_rdef (rdef_of refs u) ++ lit ")" = render_elem (tree_of refs u) \/
  (render_rdef (rdef_of refs u) = render_elem (tree_of refs u) /\ forall nd f op r, tree_of refs u <> EGroup nd f op r).
Proof.
  unfold rdef_of, render_rdef. destruct (tree_of refs u) as [rs|cu t|nd first op rest].
  - right. split; [reflexivity|discriminate].
  - right. split; [reflexivity|discriminate].
  - left. cbn [rd_first rd_op rd_rest render_elem]. rewrite render_promote. reflexivity.
Qed.

Lemma rdef_of_restrictions refs u : restrictions_elem (rd_first (rdef_of refs u)) = restrictions_elem (tree_of refs u).
Proof.
  unfold rdef_of. destruct (tree_of refs u) as [rs|cu t|nd first op rest]; try reflexivity.
  cbn [rd_first restrictions_elem]. apply restrictions_promote.
Qed.

Lemma app_inv_parens (a b : str) : lit "(" ++ a ++ lit ")" = lit "(" ++ b ++ lit ")" -> a = b.
Proof. intros H. simpl in H. inversion H as [H']. apply app_inv_tail in H'. exact H'. Qed.

Theorem print_top_rendered refs u t n :
  refs_ok refs -> print_top u refs = Some (t, n) -> t = render_rdef (rdef_of refs u).
Proof.
  intros Hrefs H.
  destruct u as [| [|] | rel | ts cu | cs | cs | b s]; try discriminate H.
  - apply (printed_is_rendered refs _ t n Hrefs) in H. rewrite H. reflexivity.
  - apply (printed_is_rendered refs _ t n Hrefs) in H. rewrite H. reflexivity.
  - apply (printed_is_rendered refs _ t n Hrefs) in H. rewrite H. reflexivity.
  - unfold print_top, print_children in H.
    destruct (collect (map (print_sub refs) (prioritize cs))) as [[l k]|] eqn:E; [|discriminate]. inversion H; subst.
    assert (Hs : print_sub refs (UUnion cs) = Some (lit "(" ++ join (lit " or ") l ++ lit ")", n)) by (rewrite print_sub_union', E; reflexivity).
    apply (printed_is_rendered refs _ _ _ Hrefs) in Hs.
    destruct (rdef_of_render refs (UUnion cs)) as [R|[_ R]].
    + rewrite <- R in Hs. apply app_inv_parens in Hs. exact Hs.
    + exfalso. rewrite tree_of_union in R. destruct (map (tree_of refs) (prioritize cs)) as [|x [|y r]]; eapply R; reflexivity.
  - unfold print_top, print_children in H.
    destruct (collect (map (print_sub refs) (prioritize cs))) as [[l k]|] eqn:E; [|discriminate]. inversion H; subst.
    assert (Hs : print_sub refs (UInter cs) = Some (lit "(" ++ join (lit " and ") l ++ lit ")", n)) by (rewrite print_sub_inter', E; reflexivity).
    apply (printed_is_rendered refs _ _ _ Hrefs) in Hs.
    destruct (rdef_of_render refs (UInter cs)) as [R|[_ R]].
    + rewrite <- R in Hs. apply app_inv_parens in Hs. exact Hs.
    + exfalso. rewrite tree_of_inter in R. destruct (map (tree_of refs) (prioritize cs)) as [|x [|y r]]; eapply R; reflexivity.
  - unfold print_top in H.
    destruct (print_sub refs b) as [[tb nb]|] eqn:Eb; [|discriminate].
    destruct (print_sub refs s) as [[tsx ns]|] eqn:Es; [|discriminate]. inversion H; subst.
    apply (printed_is_rendered refs _ _ _ Hrefs) in Eb, Es. subst.
    unfold rdef_of, render_rdef. cbn [tree_of rd_first rd_op rd_rest map join op_text]. rewrite render_promote. reflexivity.
Qed.

(* ---- the statement: what the printer writes for an expressible relation ---- *)
Theorem printed_relation_denotes_normal_form refs u :
  carriable u = true -> expressible u = true -> refs_ok refs ->
  exists t,
    print_top u refs = Some (t, count_direct u) /\
    t = render_rdef (rdef_of refs u) /\
    wf_rdef (rdef_of refs u) = true /\
    sem_rdef (rdef_of refs u) = normalize u /\
    restrictions_elem (rd_first (rdef_of refs u)) = (if (count_direct u =? 0)%nat then None else Some refs).
Proof.
  intros Hc He Hrefs. destruct (print_top_carriable refs u Hc) as [t Ht]. exists t.
  split; [exact Ht|]. split; [eapply print_top_rendered; eauto|].
  split; [rewrite rdef_of_wf; apply leading_tree_wf; auto|].
  split; [rewrite rdef_of_sem; apply tree_denotes_normalize; auto|].
  rewrite rdef_of_restrictions. unfold expressible in He. apply orb_prop in He. destruct He as [H0|H1].
  - rewrite H0. apply Nat.eqb_eq in H0. apply operand_no_restrictions. apply operand_tree_wf; auto.
  - apply andb_prop in H1. destruct H1 as [H1 Hf]. apply Nat.eqb_eq in H1. rewrite H1. simpl. apply tree_restrictions; auto.
Qed.

(* ---- 6. what the parser produces is already in normal form: reading the printed text back changes nothing ---- *)
Lemma prioritize_head x xs : existsb is_this xs = false -> prioritize (x :: xs) = x :: xs.
Proof.
  intros H. unfold prioritize, prioritize_by. cbn [split_at_first]. destruct (is_this x); [reflexivity|].
  rewrite split_at_first_none by exact H. reflexivity.
Qed.

Lemma count_zero_not_this u : count_direct u = 0%nat -> is_this u = false.
Proof. destruct u as [| [|] | | | | |]; try reflexivity. discriminate. Qed.

Lemma operands_not_this rest : forallb wf_operand rest = true -> existsb is_this (map sem_elem rest) = false.
Proof.
  induction rest as [|e rest IH]; intros H; [reflexivity|]. simpl in H. apply andb_prop in H. destruct H as [He Hr].
  cbn [map existsb]. rewrite (IH Hr). rewrite count_zero_not_this; [reflexivity|]. apply operand_no_direct. exact He.
Qed.

Lemma normalize_combine op x (rest : list relem) :
  partials_ok op rest = true -> forallb wf_operand rest = true ->
  normalize x = x -> map normalize (map sem_elem rest) = map sem_elem rest ->
  normalize (combine op (x :: map sem_elem rest)) = combine op (x :: map sem_elem rest).
Proof.
  intros Hp Hw Hx Hr. assert (Hn := operands_not_this rest Hw).
  destruct op, rest as [|y r]; try discriminate Hp; try exact Hx.
  - (* or *) cbn [map combine]. rewrite normalize_union. rewrite prioritize_head by exact Hn.
    cbn [map] in Hr |- *. rewrite Hx, Hr. reflexivity.
  - cbn [map combine]. rewrite normalize_inter. rewrite prioritize_head by exact Hn.
    cbn [map] in Hr |- *. rewrite Hx, Hr. reflexivity.
  - destruct r; [|discriminate Hp]. cbn [map combine normalize] in *. inversion Hr as [Hy]. rewrite Hx, !Hy. reflexivity.
Qed.

Lemma operand_normal e : wf_operand e = true -> normalize (sem_elem e) = sem_elem e.
Proof.
  induction e as [rs|cu t|nd first op rest IH IHr] using relem_ind'; intros H; try discriminate H.
  - destruct t; reflexivity.
  - destruct nd; [|discriminate H]. cbn [wf_operand] in H. apply andb_prop in H. destruct H as [H Hr].
    apply andb_prop in H. destruct H as [Hf Hp]. cbn [sem_elem].
    apply normalize_combine; auto. rewrite map_map. apply map_ext_Forall.
    rewrite Forall_forall in IHr |- *. rewrite forallb_forall in Hr. intros e Hin. apply IHr; auto.
Qed.

Lemma leading_normal e : wf_leading e = true -> normalize (sem_elem e) = sem_elem e.
Proof.
  induction e as [rs|cu t|nd first op rest IH IHr] using relem_ind'; intros H.
  - reflexivity.
  - destruct t; reflexivity.
  - destruct nd; [discriminate H|]. cbn [wf_leading] in H. apply andb_prop in H. destruct H as [H Hr].
    apply andb_prop in H. destruct H as [Hf Hp]. cbn [sem_elem].
    apply normalize_combine; auto. rewrite map_map. apply map_ext_Forall.
    apply Forall_forall. rewrite forallb_forall in Hr. intros e Hin. apply operand_normal; auto.
Qed.

Theorem parsed_is_normal d : wf_rdef d = true -> normalize (sem_rdef d) = sem_rdef d.
Proof.
  unfold wf_rdef, sem_rdef. intros H. apply andb_prop in H. destruct H as [H Hr]. apply andb_prop in H. destruct H as [Hf Hp].
  apply normalize_combine; auto; [apply leading_normal; exact Hf|].
  rewrite map_map. apply map_ext_Forall. apply Forall_forall. rewrite forallb_forall in Hr. intros e Hin. apply operand_normal; auto.
Qed.

(* DSL -> model -> DSL -> model at the level of parse trees: the relation definition the printer writes for a
   parsed relation is grammatical and denotes the same rewrite, with the same restrictions *)
Theorem parsed_printed_parsed d refs :
  wf_rdef d = true -> refs_ok refs ->
  exists t, print_top (sem_rdef d) refs = Some (t, count_direct (sem_rdef d)) /\
            t = render_rdef (rdef_of refs (sem_rdef d)) /\
            wf_rdef (rdef_of refs (sem_rdef d)) = true /\
            sem_rdef (rdef_of refs (sem_rdef d)) = sem_rdef d.
Proof.
  intros Hwf Hrefs. destruct (parsed_relation_expressible d Hwf) as [Hc He].
  destruct (printed_relation_denotes_normal_form refs (sem_rdef d) Hc He Hrefs) as (t & H1 & H2 & H3 & H4 & _).
  exists t. rewrite (parsed_is_normal d Hwf) in H4. auto.
Qed.

(* the listener's own rewrite stack, run on the tree the printed text denotes, rebuilds the normalised
   rewrite and the relation's type restrictions *)
Theorem printed_relation_listened refs u :
  carriable u = true -> expressible u = true -> refs_ok refs ->
  exists t s,
    print_top u refs = Some (t, count_direct u) /\ t = render_rdef (rdef_of refs u) /\
    walk_rdef (rdef_of refs u) = Ok s /\
    parse_expression (rewrites s) (operator s) = Some (normalize u) /\
    typeinfo s = (if (count_direct u =? 0)%nat then [] else refs).
Proof.
  intros Hc He Hrefs.
  destruct (printed_relation_denotes_normal_form refs u Hc He Hrefs) as (t & H1 & H2 & H3 & H4 & H5).
  destruct (walk_rdef_sem _ H3) as (s & W1 & W2 & W3 & _).
  exists t, s. rewrite H4 in W2. rewrite H5 in W3.
  repeat split; auto. rewrite W3. destruct (count_direct u =? 0)%nat; reflexivity.
Qed.

(* Proofs/MergeCheck.v — the decidable forms of "conflict-free" and of the well-formedness of parsed module files
   are equivalent to the propositions the theorems are about; with them the theorem reads on booleans. *)
From Coq Require Import Permutation.
From Verif Require Import Base.Str Base.Outcome Model.Ast Model.Printer Model.Transform Model.LineNumbers Model.Merge
  Spec.MergeSpec Proofs.StrategyProofs Proofs.MergeIff.

Lemma forallb_map {A B} (f : A -> B) (p : B -> bool) l : forallb p (map f l) = forallb (fun x => p (f x)) l.
Proof. induction l as [|x l IH]; simpl; [reflexivity|]. rewrite IH. reflexivity. Qed.

Lemma nodupb_iff l : nodupb l = true <-> NoDup l.
Proof.
  induction l as [|x l IH]; cbn [nodupb]; [split; [constructor|reflexivity]|].
  rewrite andb_true_iff, negb_true_iff, IH. split.
  - intros [H1 H2]. constructor; [intros Hin; apply mem_str_in in Hin; congruence|exact H2].
  - intros H. inversion H as [|? ? Hx Hr]; subst. split; [|exact Hr].
    destruct (mem_str x l) eqn:E; [apply mem_str_in in E; contradiction|reflexivity].
Qed.

Lemma contributed_absent fs T : ~ In T (map td_name (defs_of fs ++ exts_of fs)) -> contributed fs T = [].
Proof.
  intros H. unfold contributed, contributed_in. rewrite map_app in H.
  rewrite (filter_none_named T (defs_of fs)) by (intros Hin; apply H; apply in_or_app; left; exact Hin).
  rewrite (filter_none_named T (exts_of fs)) by (intros Hin; apply H; apply in_or_app; right; exact Hin). reflexivity.
Qed.

Theorem conflict_freeb_iff fs : conflict_freeb fs = true <-> conflict_free fs.
Proof.
  unfold conflict_freeb. cbv zeta. rewrite parsed_defs, parsed_exts, parsed_conds. fold (contributed fs). rewrite forallb_map. rewrite !andb_true_iff, !forallb_forall, !nodupb_iff. split.
  - intros [[[[M DN] CN] Ht] Hc]. constructor.
    + apply Forall_forall. intros f Hf. specialize (M f Hf). destruct (module_of f); [discriminate|discriminate].
    + exact DN.
    + exact CN.
    + intros td Hin. apply mem_str_in. apply Ht. exact Hin.
    + intros T. destruct (in_dec (list_eq_dec N.eq_dec) T (map td_name (defs_of fs ++ exts_of fs))) as [Hin|Hout].
      * apply nodupb_iff. apply Hc. exact Hin.
      * rewrite (contributed_absent fs T Hout). constructor.
  - intros [M DN CN Ht Hc]. repeat split; auto.
    + intros f Hf. rewrite Forall_forall in M. specialize (M f Hf). destruct (module_of f); [reflexivity|contradiction].
    + intros td Hin. apply mem_str_in. apply Ht. exact Hin.
    + intros T _. apply nodupb_iff. apply Hc.
Qed.

Theorem wf_modulesb_sound fs : wf_modulesb fs = true -> wf_modules fs.
Proof.
  unfold wf_modulesb. cbv zeta. rewrite parsed_defs, parsed_exts, parsed_conds. rewrite !andb_true_iff, !forallb_forall, nodupb_iff. intros [[[[N DM] CM] EM] RK]. constructor.
  - exact N.
  - apply Forall_forall. intros td Hin. specialize (DM td Hin). destruct (td_meta td); [discriminate|discriminate].
  - apply Forall_forall. intros p Hin. specialize (CM p Hin). destruct (c_meta (snd p)); [discriminate|discriminate].
  - apply Forall_forall. intros td Hin n Hn. specialize (EM td Hin). rewrite forallb_forall in EM. specialize (EM n Hn).
    destruct (assoc n (td_meta_rels td)); [|discriminate]. destruct (assoc n (td_rels td)); [|discriminate]. split; discriminate.
  - apply Forall_forall. intros td Hin. apply nodupb_iff. apply RK. exact Hin.
Qed.

(* C07 on booleans: for module sets as the parser delivers them, merge succeeds iff conflict-free *)
Theorem merge_ok_iff_b fs v : wf_modulesb fs = true -> (is_ok (merge fs v) = conflict_freeb fs).
Proof.
  intros Hwf. apply wf_modulesb_sound in Hwf. pose proof (merge_ok_iff fs v Hwf) as H.
  destruct (conflict_freeb fs) eqn:E.
  - apply conflict_freeb_iff in E. apply H in E. destruct E as [m ->]. reflexivity.
  - destruct (merge fs v) as [m| |] eqn:Em; try reflexivity. exfalso.
    assert (conflict_free fs) by (apply H; eauto). apply conflict_freeb_iff in H0. congruence.
Qed.

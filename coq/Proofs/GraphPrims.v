(* Proofs/GraphPrims.v — reading a weighted graph after one of the updates AssignWeights makes
   (set_node / set_edge, upd_node / upd_edge): which nodes and edge lists change, and how. *)
From Verif Require Import Base.Str Base.Outcome Model.Ast Model.Printer Model.WGraph Model.WWeights.

Lemma str_eqb_false a b : a <> b -> str_eqb a b = false.
Proof. intros H. destruct (str_eqb_spec a b); [contradiction|reflexivity]. Qed.
Lemma str_eqb_sym a b : str_eqb a b = str_eqb b a.
Proof. destruct (str_eqb_spec a b), (str_eqb_spec b a); congruence. Qed.

Definition has_node (g : wgraph) (id : str) : bool :=
  match find_node id (g_nodes g) with Some _ => true | None => false end.

Lemma find_node_id id l n : find_node id l = Some n -> n_id n = id.
Proof.
  induction l as [|x l IH]; simpl; [discriminate|].
  destruct (str_eqb_spec (n_id x) id) as [E|E]; [intros H; inversion H; subst n; exact E|exact IH].
Qed.

Lemma node_of_id g id : n_id (node_of g id) = id.
Proof. unfold node_of. destruct (find_node id (g_nodes g)) eqn:E; [eapply find_node_id; eauto|reflexivity]. Qed.

Lemma find_node_map_set l n id :
  find_node id (map (fun x => if str_eqb (n_id x) (n_id n) then n else x) l) =
  if str_eqb id (n_id n) then match find_node id l with Some _ => Some n | None => None end else find_node id l.
Proof.
  induction l as [|x l IH]; simpl; [destruct (str_eqb id (n_id n)); reflexivity|].
  destruct (str_eqb_spec (n_id x) (n_id n)) as [E|E].
  - destruct (str_eqb_spec (n_id n) id) as [E2|E2].
    + rewrite <- E2, str_eqb_refl, E, str_eqb_refl. reflexivity.
    + rewrite IH. rewrite (str_eqb_false id (n_id n)) by congruence.
      rewrite E. rewrite (str_eqb_false (n_id n) id) by exact E2. reflexivity.
  - destruct (str_eqb_spec (n_id x) id) as [E2|E2].
    + subst id. rewrite (str_eqb_false (n_id x) (n_id n)) by exact E. reflexivity.
    + exact IH.
Qed.

Lemma node_of_set_node g n id :
  node_of (set_node g n) id = if str_eqb id (n_id n) && has_node g id then n else node_of g id.
Proof.
  unfold node_of, set_node, has_node. cbn [g_nodes]. rewrite find_node_map_set.
  destruct (str_eqb id (n_id n)); simpl; [|reflexivity].
  destruct (find_node id (g_nodes g)); reflexivity.
Qed.

Lemma has_node_set_node g n id : has_node (set_node g n) id = has_node g id.
Proof.
  unfold has_node, set_node. cbn [g_nodes]. rewrite find_node_map_set.
  destruct (str_eqb id (n_id n)); [|reflexivity]. destruct (find_node id (g_nodes g)); reflexivity.
Qed.

Lemma edges_from_set_node g n id : edges_from (set_node g n) id = edges_from g id.
Proof. reflexivity. Qed.

Lemma node_of_set_edge g r e id : node_of (set_edge g r e) id = node_of g id.
Proof. reflexivity. Qed.
Lemma has_node_set_edge g r e id : has_node (set_edge g r e) id = has_node g id.
Proof. reflexivity. Qed.

Lemma assoc_assoc_set {A} k k' (v : A) l : assoc k' (assoc_set k v l) = if str_eqb k' k then Some v else assoc k' l.
Proof.
  induction l as [|[k0 v0] l IH]; simpl.
  - destruct (str_eqb k' k); reflexivity.
  - destruct (str_eqb_spec k k0) as [E|E]; simpl.
    + subst k0. destruct (str_eqb k' k); reflexivity.
    + destruct (str_eqb_spec k' k0) as [E2|E2].
      * subst k0. rewrite (str_eqb_false k' k) by congruence. reflexivity.
      * exact IH.
Qed.

Lemma edges_from_set_edge g r e id :
  edges_from (set_edge g r e) id =
  if str_eqb id (fst r) then wreplace_nth (snd r) e (edges_from g (fst r)) else edges_from g id.
Proof.
  unfold edges_from at 1, set_edge. cbn [g_edges]. rewrite assoc_assoc_set.
  destruct (str_eqb id (fst r)); reflexivity.
Qed.

Lemma nth_error_wreplace {A} (l : list A) i j x :
  nth_error (wreplace_nth i x l) j = if (j =? i)%nat then match nth_error l j with Some _ => Some x | None => None end else nth_error l j.
Proof.
  revert i j. induction l as [|y l IH]; intros i j; simpl.
  - destruct i, j; simpl; try reflexivity; destruct (j =? i)%nat; reflexivity.
  - destruct i, j; simpl; try reflexivity. apply IH.
Qed.

Lemma length_wreplace {A} (l : list A) i x : length (wreplace_nth i x l) = length l.
Proof. revert i. induction l as [|y l IH]; intros [|i]; simpl; auto. Qed.

Lemma map_wreplace {A B} (f : A -> B) (l : list A) i x y :
  nth_error l i = Some y -> f x = f y -> map f (wreplace_nth i x l) = map f l.
Proof.
  revert i. induction l as [|z l IH]; intros [|i] H E; simpl in *; try discriminate.
  - inversion H; subst. rewrite E. reflexivity.
  - f_equal. apply IH; auto.
Qed.

(* ---- state level ---- *)
Definition nd (s : wstate) (x : str) : wnode := node_of (ws_g s) x.
Definition es (s : wstate) (x : str) : list wedge := edges_from (ws_g s) x.

Lemma upd_node_visited s id f : ws_visited (upd_node s id f) = ws_visited s. Proof. reflexivity. Qed.
Lemma upd_node_deps s id f : ws_deps (upd_node s id f) = ws_deps s. Proof. reflexivity. Qed.
Lemma upd_edge_visited s r f : ws_visited (upd_edge s r f) = ws_visited s.
Proof. unfold upd_edge. destruct (edge_at (ws_g s) r); reflexivity. Qed.
Lemma upd_edge_deps s r f : ws_deps (upd_edge s r f) = ws_deps s.
Proof. unfold upd_edge. destruct (edge_at (ws_g s) r); reflexivity. Qed.

Lemma nd_upd_node s id f x :
  (forall n, n_id (f n) = n_id n) ->
  nd (upd_node s id f) x = if str_eqb x id && has_node (ws_g s) x then f (nd s id) else nd s x.
Proof.
  intros Hf. unfold nd, upd_node. cbn [ws_g st_g]. rewrite node_of_set_node. rewrite Hf, node_of_id. reflexivity.
Qed.
Lemma es_upd_node s id f x : es (upd_node s id f) x = es s x.
Proof. reflexivity. Qed.
Lemma has_node_upd_node s id f x : has_node (ws_g (upd_node s id f)) x = has_node (ws_g s) x.
Proof. unfold upd_node. cbn [ws_g st_g]. apply has_node_set_node. Qed.

Lemma nd_upd_edge s r f x : nd (upd_edge s r f) x = nd s x.
Proof. unfold nd, upd_edge. destruct (edge_at (ws_g s) r); reflexivity. Qed.
Lemma has_node_upd_edge s r f x : has_node (ws_g (upd_edge s r f)) x = has_node (ws_g s) x.
Proof. unfold upd_edge. destruct (edge_at (ws_g s) r); reflexivity. Qed.
Lemma es_upd_edge s r f x :
  es (upd_edge s r f) x =
  if str_eqb x (fst r) then
    match nth_error (es s (fst r)) (snd r) with
    | Some e => wreplace_nth (snd r) (f e) (es s (fst r))
    | None => es s (fst r)
    end
  else es s x.
Proof.
  unfold es, upd_edge, edge_at. destruct (nth_error (edges_from (ws_g s) (fst r)) (snd r)) as [e|] eqn:E.
  - cbn [ws_g st_g]. rewrite edges_from_set_edge. reflexivity.
  - destruct (str_eqb_spec x (fst r)) as [->|]; reflexivity.
Qed.

(* Proofs/Witnesses.v — concrete models on which the (repaired) weight assignment departs from the
   property; each is also the witness input of a known finding, replayed on the implementation by the
   checks.  Everything here is decided by computation inside the kernel (vm_compute). *)
From Verif Require Import Base.Str Base.Outcome Model.Ast Model.Printer Model.WGraph Model.WWeights Spec.Weights.

Definition ref_t (t : str) : relation_ref := {| rr_type := t; rr_kind := RPlain; rr_cond := [] |}.
Definition ref_r (t r : str) : relation_ref := {| rr_type := t; rr_kind := RRel r; rr_cond := [] |}.
Definition ref_w (t : str) : relation_ref := {| rr_type := t; rr_kind := RWild; rr_cond := [] |}.
Definition mk_type (name : str) (rels : list (str * userset * list relation_ref)) : typedef :=
  {| td_name := name;
     td_rels := map (fun r => (fst (fst r), snd (fst r))) rels;
     td_meta := match rels with
                | [] => None
                | _ => Some {| tm_rels := map (fun r => (fst (fst r), {| rm_types := snd r; rm_module := []; rm_file := None |})) rels;
                               tm_module := []; tm_file := None |}
                end |}.
Definition mk_model (ts : list typedef) : model := {| m_schema := lit "1.1"; m_types := ts; m_conds := [] |}.
Definition this := UThis ThisEmpty.

(* 1. a tuple-free cycle a -> union -> c -> b -> a next to a tuple cycle a -> d -> a: rejected or accepted
      depending on where the depth-first search starts *)
Definition m_order : model :=
  mk_model [mk_type (lit "doc")
     [(lit "p", this, [ref_t (lit "doc")]);
      (lit "a", UUnion [this; UComputed (lit "c")], [ref_r (lit "doc") (lit "d")]);
      (lit "b", UComputed (lit "a"), []);
      (lit "c", UComputed (lit "b"), []);
      (lit "d", UTTU (lit "p") (lit "a"), [])]].
Definition o_insertion : list str := [lit "doc"; lit "doc#a"; lit "union:0"; lit "doc#d"; lit "doc#c"; lit "doc#b"; lit "doc#p"].
Definition o_other : list str := [lit "doc"; lit "union:0"; lit "doc#a"; lit "doc#d"; lit "doc#c"; lit "doc#b"; lit "doc#p"].

Lemma m_order_rejected : build_weighted (Some o_insertion) m_order = Err WModelCycle.
Proof. vm_compute. reflexivity. Qed.
Lemma m_order_accepted : is_ok (build_weighted (Some o_other) m_order) = true.
Proof. vm_compute. reflexivity. Qed.

(* 2. `define x: [user, group] and a` with `a: [user]`: the operand [user, group] shares `user` with a, but
      its two edges count as two operands and the intersection user AND group AND a is empty *)
Definition m_operands : model :=
  mk_model [mk_type (lit "user") []; mk_type (lit "group") [];
            mk_type (lit "doc") [(lit "a", this, [ref_t (lit "user")]);
                                 (lit "x", UInter [this; UComputed (lit "a")], [ref_t (lit "user"); ref_t (lit "group")])]].

Lemma m_operands_rejected : exists why, build_weighted None m_operands = Err (WInvalidModel why).
Proof. eexists. vm_compute. reflexivity. Qed.
Lemma m_operands_spec : spec_of m_operands (lit "doc") (lit "x") = [(lit "user", 1)].
Proof. vm_compute. reflexivity. Qed.

(* 3. `define c: c from parent`: a relation that can reach no terminal type is accepted with an empty weight map *)
Definition m_empty : model :=
  mk_model [mk_type (lit "doc") [(lit "parent", this, [ref_t (lit "doc")]); (lit "c", UTTU (lit "parent") (lit "c"), [])]].

Lemma m_empty_accepted :
  exists g, build_weighted None m_empty = Ok g /\ n_weights (node_of g (lit "doc#c")) = [].
Proof. eexists. split; vm_compute; reflexivity. Qed.

(* 4. a positive example: three levels, union, intersection with single-edge operands, exclusion, a wildcard, a
      userset and a tuple-to-userset; every relation's weights equal the property's definition *)
Definition m_good : model :=
  mk_model [mk_type (lit "user") [];
            mk_type (lit "group") [(lit "member", this, [ref_t (lit "user"); ref_r (lit "group") (lit "owner")]);
                                   (lit "owner", this, [ref_t (lit "user")])];
            mk_type (lit "folder") [(lit "viewer", UUnion [this; UComputed (lit "editor")], [ref_r (lit "group") (lit "member"); ref_w (lit "user")]);
                                    (lit "editor", this, [ref_t (lit "user")])];
            mk_type (lit "doc") [(lit "parent", this, [ref_t (lit "folder")]);
                                 (lit "viewer", UUnion [UTTU (lit "parent") (lit "viewer"); UComputed (lit "owner")], []);
                                 (lit "owner", this, [ref_t (lit "user")]);
                                 (lit "can_share", UInter [UComputed (lit "viewer"); UComputed (lit "owner")], []);
                                 (lit "can_read", UDiff (UComputed (lit "viewer")) (UComputed (lit "blocked")), []);
                                 (lit "blocked", this, [ref_t (lit "user")])]].

Definition relations_of (m : model) : list (str * str) :=
  flat_map (fun t => map (fun r => (td_name t, fst r)) (td_rels t)) (m_types m).

Definition weights_match_spec (m : model) : bool :=
  match build_weighted None m with
  | Ok g => forallb (fun tr => dmap_eqb (n_weights (node_of g (fst tr ++ lit "#" ++ snd tr))) (spec_of m (fst tr) (snd tr)))
                    (relations_of m)
  | _ => false
  end.

Lemma m_good_matches : weights_match_spec m_good = true.
Proof. vm_compute. reflexivity. Qed.
Lemma m_good_deepest : spec_of m_good (lit "doc") (lit "viewer") = [(lit "user", 4)].
Proof. vm_compute. reflexivity. Qed.

(* Proofs/BuilderFresh.v — what the builder hands to AssignWeights: nothing has a weight or a wildcard list yet
   (except the wildcard nodes, which name their type), and every edge is filed under its source.  These are two
   of the hypotheses of the theorems about graphs without cycles (Proofs/DagWeights.v): for built graphs they hold
   by construction. *)
From Verif Require Import Base.Str Base.Outcome Model.Ast Model.Printer Model.WGraph Model.WWeights
  Spec.GraphWeights Proofs.WGraphProofs.

(* an invariant kept by the four primitives of the builder is kept by the builder *)
Section BuilderInvariant.
  Variable I : wgraph -> Prop.
  Hypothesis I_add : forall g id l t, I g -> I (fst (get_or_add_node g id l t)).
  Hypothesis I_add_edge : forall g a b t ts, I g -> I (add_edge g a b t ts).
  Hypothesis I_upsert : forall g a b t ts c, I g -> I (upsert_edge g a b t ts c).
  Hypothesis I_ops : forall g k, I g -> I {| g_nodes := g_nodes g; g_edges := g_edges g; g_ops := k |}.

  Lemma J_parse_this g p td rel : I g -> I (parse_this g p td rel).
  Proof.
    unfold parse_this. generalize (rm_types_of (assoc rel (td_meta_rels td))). intros l. revert g.
    induction l as [|r l IH]; intros g H; simpl; [exact H|]. apply IH.
    destruct (rr_kind r); destruct (get_or_add_node _ _ _ _) as [g1 n] eqn:E; apply I_upsert;
      change g1 with (fst (g1, n)); rewrite <- E; apply I_add; exact H.
  Qed.

  Lemma J_parse_computed g p td rel : I g -> I (parse_computed g p td rel).
  Proof.
    intros H. unfold parse_computed. destruct (get_or_add_node _ _ _ _) as [g1 n] eqn:E. apply I_add_edge.
    change g1 with (fst (g1, n)); rewrite <- E; apply I_add; exact H.
  Qed.

  Lemma J_parse_ttu_refs refs : forall g p m td ts cu g', I g -> parse_ttu_refs g p m td ts cu refs = Ok g' -> I g'.
  Proof.
    induction refs as [|r refs IH]; intros g p m td ts cu g' H E; simpl in E; [inversion E; subst; exact H|].
    destruct (negb (type_and_relation_exists m (rr_type r) cu)); [discriminate|].
    destruct (get_or_add_node _ _ _ _) as [g1 n] eqn:E1.
    assert (H1 : I g1) by (change g1 with (fst (g1, n)); rewrite <- E1; apply I_add; exact H).
    eapply IH; [|exact E]. destruct (has_edge _ _ _ _ _); [exact H1|apply I_upsert; exact H1].
  Qed.

  Lemma J_parse_ttu g p m td ts cu g' : I g -> parse_ttu g p m td ts cu = Ok g' -> I g'.
  Proof.
    unfold parse_ttu. destruct (assoc ts (td_meta_rels td)); [|discriminate].
    destruct (rm_types r) eqn:Er; [discriminate|]. rewrite <- Er. apply J_parse_ttu_refs.
  Qed.

  Definition J_spec (c : userset) : Prop := forall g p m td rel g', I g -> parse_rewrite g p m td rel c = Ok g' -> I g'.

  Lemma J_operator g p m td rel op cs g' :
    Forall J_spec cs -> I g ->
    (let '(g1, opn) := op_node g op in
     let g2 := add_edge g1 (n_id p) (n_id opn) ERewrite [] in
     (fix children (g : wgraph) (opn : wnode) (cs : list userset) : outcome wgraph werr :=
        match cs with
        | [] => Ok g
        | c :: r => obind (parse_rewrite g opn m td rel c) (fun g => children g opn r)
        end) g2 opn cs) = Ok g' -> I g'.
  Proof.
    intros Hcs H. unfold op_node.
    destruct (get_or_add_node _ _ _ _) as [g1 n] eqn:E.
    assert (H1 : I (add_edge g1 (n_id p) (n_id n) ERewrite [])).
    { apply I_add_edge. change g1 with (fst (g1, n)). rewrite <- E. apply I_add. apply I_ops. exact H. }
    revert H1. generalize (add_edge g1 (n_id p) (n_id n) ERewrite []). clear E.
    induction Hcs as [|c cs Hc _ IHcs]; intros g2 H2 E.
    - inversion E; subst. exact H2.
    - cbn [obind] in E. destruct (parse_rewrite g2 n m td rel c) as [g3| |] eqn:E3; cbn [obind] in E; try discriminate.
      eapply IHcs; [|exact E]. eapply Hc; eauto.
  Qed.

  Theorem J_parse_rewrite u : J_spec u.
  Proof.
    induction u as [| r | rel0 | ts cu | cs IH | cs IH | b s IHb IHs] using userset_ind'; intros g p m td rel g' H E.
    - eapply (J_operator g p m td rel [] []); eauto.
    - simpl in E. inversion E; subst. apply J_parse_this. exact H.
    - simpl in E. inversion E; subst. apply J_parse_computed. exact H.
    - simpl in E. eapply J_parse_ttu; eauto.
    - eapply (J_operator g p m td rel (lit "union") cs); eauto.
    - eapply (J_operator g p m td rel (lit "intersection") cs); eauto.
    - eapply (J_operator g p m td rel (lit "exclusion") [b; s]); eauto.
  Qed.

  Lemma J_build_relations names : forall g m td g', I g -> build_relations g m td names = Ok g' -> I g'.
  Proof.
    induction names as [|n names IH]; intros g m td g' H E; simpl in E; [inversion E; subst; exact H|].
    destruct (get_or_add_node _ _ _ _) as [g1 p] eqn:E1.
    destruct (parse_rewrite g1 p m td n _) as [g2| |] eqn:E2; cbn [obind] in E; try discriminate.
    eapply IH; [|exact E]. eapply J_parse_rewrite; [|exact E2].
    change g1 with (fst (g1, p)); rewrite <- E1; apply I_add; exact H.
  Qed.

  Lemma J_build_types tds : forall g m g', I g -> build_types g m tds = Ok g' -> I g'.
  Proof.
    induction tds as [|td tds IH]; intros g m g' H E; simpl in E; [inversion E; subst; exact H|].
    destruct (get_or_add_node _ _ _ _) as [g1 p] eqn:E1.
    destruct (build_relations g1 m td _) as [g2| |] eqn:E2; cbn [obind] in E; try discriminate.
    eapply IH; [|exact E]. eapply J_build_relations; [|exact E2].
    change g1 with (fst (g1, p)); rewrite <- E1; apply I_add; exact H.
  Qed.

  Theorem J_wbuild m g : I empty_graph -> wbuild m = Ok g -> I g.
  Proof. intros H E. eapply J_build_types; eauto. Qed.
End BuilderInvariant.

(* ---- the invariant ---- *)
Definition fresh_node (n : wnode) : Prop := n_weights n = [] /\ (is_terminal (n_type n) = false -> n_wild n = []).
Definition fresh_edge (k : str) (e : wedge) : Prop := e_from e = k /\ e_weights e = [] /\ e_wild e = [].
Definition fresh_graph (g : wgraph) : Prop :=
  Forall fresh_node (g_nodes g) /\ Forall (fun p : str * list wedge => Forall (fresh_edge (fst p)) (snd p)) (g_edges g).

Lemma assoc_in_list {A} k (l : list (str * A)) v : assoc k l = Some v -> In (k, v) l.
Proof.
  induction l as [|[k0 v0] l IH]; simpl; [discriminate|].
  destruct (str_eqb_spec k k0) as [->|]; [intros H; inversion H; left; reflexivity|right; auto].
Qed.

Lemma Forall_assoc_set {A} (P : str * A -> Prop) k v l : Forall P l -> P (k, v) -> Forall P (assoc_set k v l).
Proof.
  intros H Hv. induction H as [|[k0 v0] l H0 H IH]; simpl; [constructor; [exact Hv|constructor]|].
  destruct (str_eqb k k0); constructor; auto.
Qed.

Lemma fresh_push g e : fresh_graph g -> e_weights e = [] -> e_wild e = [] -> fresh_graph (push_edge g e).
Proof.
  intros [Hn He] Hw Hd. split; [exact Hn|]. unfold push_edge. cbn [g_edges].
  destruct (assoc (e_from e) (g_edges g)) as [l|] eqn:Ea.
  - apply Forall_assoc_set; [exact He|]. cbn [fst snd]. apply Forall_app. split.
    + rewrite Forall_forall in He. apply (He (e_from e, l)). apply assoc_in_list. exact Ea.
    + constructor; [repeat split; auto|constructor].
  - apply Forall_app. split; [exact He|]. constructor; [|constructor]. cbn. constructor; [repeat split; auto|constructor].
Qed.

Lemma upsert_in_fresh k l to t ts c l' : Forall (fresh_edge k) l -> upsert_in l to t ts c = Some l' -> Forall (fresh_edge k) l'.
Proof.
  revert l'. induction l as [|e l IH]; intros l' H E; simpl in E; [discriminate|]. inversion H as [|? ? He Hl]; subst.
  destruct (same_edge e to t ts).
  - destruct (mem_str c (e_conds e)); inversion E; subst; [exact H|]. constructor; [exact He|exact Hl].
  - destruct (upsert_in l to t ts c) as [r|]; [|discriminate]. inversion E; subst. constructor; [exact He|]. apply IH; auto.
Qed.

Theorem wbuild_fresh m g : wbuild m = Ok g -> fresh_graph g.
Proof.
  apply (J_wbuild fresh_graph).
  - intros g0 id l t [Hn He]. unfold get_or_add_node. destruct (find_node id (g_nodes g0)); [split; assumption|].
    split; [|exact He]. cbn [fst g_nodes]. apply Forall_app. split; [exact Hn|]. constructor; [|constructor].
    split; [reflexivity|]. cbn. destruct t; try reflexivity; intros; discriminate.
  - intros g0 a b t ts H. apply fresh_push; auto.
  - intros g0 a b t ts c H. unfold upsert_edge.
    destruct (upsert_in (edges_from g0 a) b t ts (if is_empty c then no_cond else c)) as [l|] eqn:E.
    + destruct H as [Hn He]. split; [exact Hn|]. cbn [g_edges]. apply Forall_assoc_set; [exact He|]. cbn [fst snd].
      apply (upsert_in_fresh a (edges_from g0 a) b t ts (if is_empty c then no_cond else c) l); [|exact E].
      unfold edges_from. destruct (assoc a (g_edges g0)) as [l0|] eqn:Ea; [|constructor].
      rewrite Forall_forall in He. apply (He (a, l0)). apply assoc_in_list. exact Ea.
    + apply fresh_push; auto.
  - intros g0 k [Hn He]. split; assumption.
  - split; constructor.
Qed.

(* in the words of Spec/GraphWeights.v *)
Theorem wbuild_unweighted m g : wbuild m = Ok g -> unweighted g /\ (forall x e, In e (edges_from g x) -> e_from e = x).
Proof.
  intros H. destruct (wbuild_fresh m g H) as [Hn He]. rewrite Forall_forall in Hn, He.
  assert (Hedge : forall x e, In e (edges_from g x) -> fresh_edge x e).
  { intros x e Hin. unfold edges_from in Hin. destruct (assoc x (g_edges g)) as [l|] eqn:Ea; [|destruct Hin].
    specialize (He (x, l) (assoc_in_list _ _ _ Ea)). cbn [fst snd] in He. rewrite Forall_forall in He. apply He. exact Hin. }
  assert (Hnode : forall x, fresh_node (node_of g x)).
  { intros x. unfold node_of. destruct (find_node x (g_nodes g)) as [n|] eqn:E; [|split; reflexivity].
    apply Hn. clear -E. induction (g_nodes g) as [|y l IH]; simpl in E; [discriminate|].
    destruct (str_eqb (n_id y) x); [inversion E; left; reflexivity|right; auto]. }
  split; [|intros x e Hin; apply (Hedge x e Hin)].
  split; [intros x; apply Hnode|]. split; [intros x e Hin; apply (Hedge x e Hin)|].
  split; [intros x Hnt; apply (Hnode x); exact Hnt|intros x e Hin; apply (Hedge x e Hin)].
Qed.

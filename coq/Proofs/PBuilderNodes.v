(* Proofs/PBuilderNodes.v — the node inventory of the plain graph (C17, label look-up): the labels under which
   GetNodeByLabel finds a node are exactly the names the model asks for — every type, every defined relation, every
   target of a type restriction of a direct assignment (a userset restriction without relation name adds none),
   every computed userset, every parent relation of a tuple-to-userset that exists in the model — and one operator
   label per operator number below the count.  No hypothesis on the model. *)
From Coq Require Import Permutation Lia.
From Verif Require Import Base.Str Base.Outcome Model.Ast Model.Printer Model.WGraph Model.PGraph Spec.GraphShape Spec.PGraphShape
  Proofs.SortFacts Proofs.BuilderShape Proofs.PBuilderShape Proofs.BuilderNodes.

Definition pref_ids (refs : list relation_ref) : list str :=
  flat_map (fun r => match rr_kind r with
                     | RPlain => [rr_type r]
                     | RWild => [rr_type r ++ lit ":*"]
                     | RRel x => if is_empty x then [] else [rr_type r ++ lit "#" ++ x]
                     end) refs.

Fixpoint preq_ids (m : model) (td : typedef) (rel : str) (u : userset) : list str :=
  match u with
  | UThis _ => pref_ids (rm_types_of (assoc rel (td_meta_rels td)))
  | UComputed r => [td_name td ++ lit "#" ++ r]
  | UTTU ts cu => map (fun r => rr_type r ++ lit "#" ++ cu)
                      (filter (fun r => type_and_relation_exists m (rr_type r) cu) (rm_types_of (assoc ts (td_meta_rels td))))
  | UUnion cs | UInter cs => flat_map (preq_ids m td rel) cs
  | UDiff b s => preq_ids m td rel b ++ preq_ids m td rel s
  | UUnset => []
  end.

Definition pexact_ids (m : model) : list str :=
  flat_map (fun td => td_name td ::
                      flat_map (fun r => (td_name td ++ lit "#" ++ r) :: preq_ids m td r (rewrite_of td r)) (keys (td_rels td)))
           (m_types m).

Definition phas (g : pgraph) (ul : str) : Prop := find_pnode ul g <> None.

Lemma phas_prefix g g' ul : (exists more, pg_nodes g' = pg_nodes g ++ more) -> phas g ul -> phas g' ul.
Proof.
  intros [more E] H. unfold phas, find_pnode in *. rewrite E, find_app_gen. destruct (find _ (pg_nodes g)); [discriminate|contradiction].
Qed.
Lemma phas_get_or_add g ul lab t : phas (fst (p_get_or_add g ul lab t)) ul.
Proof.
  unfold p_get_or_add, phas. destruct (find_pnode ul g) eqn:E; cbn [fst]; [rewrite E; discriminate|].
  unfold find_pnode. cbn [pg_nodes]. rewrite find_app_gen. fold (find_pnode ul g). rewrite E. cbn. rewrite str_eqb_refl. discriminate.
Qed.

Section PNodes.
  Variable P : str -> Prop.
  Definition pnodes_from (g : pgraph) : Prop := forall n, In n (pg_nodes g) -> P (pn_ulabel n) \/ is_opnode (pg_ops g) (pn_ulabel n).

  Lemma pnf_get_or_add g ul lab t : P ul -> pnodes_from g -> pnodes_from (fst (p_get_or_add g ul lab t)).
  Proof.
    intros Hid H. unfold p_get_or_add. destruct (find_pnode ul g); cbn [fst]; [exact H|].
    intros n Hn. cbn [pg_nodes pg_ops] in *. apply in_app_or in Hn. destruct Hn as [Hn|[<-|[]]]; [apply H; exact Hn|left; exact Hid].
  Qed.
  Lemma pnf_same g g' : pg_nodes g' = pg_nodes g -> pg_ops g' = pg_ops g -> pnodes_from g -> pnodes_from g'.
  Proof. intros En Eo H n Hn. rewrite En in Hn. rewrite Eo. apply H. exact Hn. Qed.
  Lemma p_upsert_ops g a b t ts c : pg_ops (p_upsert g a b t ts c) = pg_ops g.
  Proof. unfold p_upsert. destruct (p_upsert_in _ _ _ _ _ _); reflexivity. Qed.
  Lemma pnf_upsert g a b t ts c : pnodes_from g -> pnodes_from (p_upsert g a b t ts c).
  Proof. apply pnf_same; [apply p_upsert_nodes|apply p_upsert_ops]. Qed.
End PNodes.

(* one step of parseThis: nodes, operator count, and which label it makes available *)
Lemma pthis_step_facts parent g cur r :
  let g' := fst (pthis_step parent (g, cur) r) in
  (exists more, pg_nodes g' = pg_nodes g ++ more) /\ pg_ops g' = pg_ops g /\
  (forall ul, In ul (pref_ids [r]) -> phas g' ul) /\
  (forall P : str -> Prop, Forall P (pref_ids [r]) -> pnodes_from P g -> pnodes_from P g').
Proof.
  unfold pthis_step, pref_ids. cbn [flat_map]. rewrite app_nil_r.
  assert (A : forall ul lab t, let g' := fst (let '(g1, n) := p_get_or_add g ul lab t in (p_upsert g1 (pn_id n) (pn_id parent) EDirect [] (rr_cond r), Some n)) in
              (exists more, pg_nodes g' = pg_nodes g ++ more) /\ pg_ops g' = pg_ops g /\ (forall ul', In ul' [ul] -> phas g' ul') /\
              (forall P : str -> Prop, Forall P [ul] -> pnodes_from P g -> pnodes_from P g')).
  { intros ul lab t. pose proof (p_get_or_add_prefix g ul lab t) as Pre. pose proof (phas_get_or_add g ul lab t) as Hs.
    assert (Eo : pg_ops (fst (p_get_or_add g ul lab t)) = pg_ops g) by (unfold p_get_or_add; destruct (find_pnode ul g); reflexivity).
    assert (Hnf : forall P : str -> Prop, P ul -> pnodes_from P g -> pnodes_from P (fst (p_get_or_add g ul lab t))) by (intros; apply pnf_get_or_add; assumption).
    destruct (p_get_or_add g ul lab t) as [g1 n]. cbn [fst] in *. split; [rewrite p_upsert_nodes; exact Pre|]. split; [rewrite p_upsert_ops; exact Eo|]. split.
    - intros ul' [<-|[]]. unfold phas, find_pnode in *. rewrite p_upsert_nodes. exact Hs.
    - intros P HP H. apply pnf_upsert. apply Hnf; [inversion HP; assumption|exact H]. }
  destruct (rr_kind r) as [|x|].
  - pose proof (A (rr_type r) (rr_type r) NType) as X. destruct (p_get_or_add g (rr_type r) (rr_type r) NType) as [g1 n]. exact X.
  - destruct (is_empty x).
    + destruct cur as [c|]; cbn [fst].
      * split; [rewrite p_upsert_nodes; apply prefix_refl|]. split; [apply p_upsert_ops|]. split; [intros ul []|intros P _ H; apply pnf_upsert; exact H].
      * split; [apply prefix_refl|]. split; [reflexivity|]. split; [intros ul []|intros P _ H; exact H].
    + pose proof (A (rr_type r ++ lit "#" ++ x) (rr_type r ++ lit "#" ++ x) NTypeRel) as X.
      destruct (p_get_or_add g (rr_type r ++ lit "#" ++ x) (rr_type r ++ lit "#" ++ x) NTypeRel) as [g1 n]. exact X.
  - pose proof (A (rr_type r ++ lit ":*") (rr_type r ++ lit ":*") NWildcard) as X.
    destruct (p_get_or_add g (rr_type r ++ lit ":*") (rr_type r ++ lit ":*") NWildcard) as [g1 n]. exact X.
Qed.

Lemma pref_ids_cons r refs : pref_ids (r :: refs) = pref_ids [r] ++ pref_ids refs.
Proof. unfold pref_ids. cbn [flat_map]. rewrite app_nil_r. reflexivity. Qed.

Lemma pthis_fold_facts parent refs : forall g cur,
  let g' := fst (fold_left (pthis_step parent) refs (g, cur)) in
  (exists more, pg_nodes g' = pg_nodes g ++ more) /\ pg_ops g' = pg_ops g /\
  (forall ul, In ul (pref_ids refs) -> phas g' ul) /\
  (forall P : str -> Prop, Forall P (pref_ids refs) -> pnodes_from P g -> pnodes_from P g').
Proof.
  induction refs as [|r refs IH]; intros g cur.
  - cbn. split; [apply prefix_refl|]. split; [reflexivity|]. split; [intros ul []|intros P _ H; exact H].
  - cbn [fold_left]. destruct (pthis_step_facts parent g cur r) as (P1 & O1 & H1 & N1).
    destruct (pthis_step parent (g, cur) r) as [g1 cur1] eqn:E1. cbn [fst] in *.
    destruct (IH g1 cur1) as (P2 & O2 & H2 & N2). cbn zeta. split; [eapply prefix_trans; eauto|]. split; [congruence|].
    rewrite pref_ids_cons. split.
    + intros ul Hin. apply in_app_or in Hin. destruct Hin as [Hin|Hin]; [apply (phas_prefix g1 _ _ P2); apply H1; exact Hin|apply H2; exact Hin].
    + intros P HP H. apply Forall_app in HP. destruct HP as [HP1 HP2]. apply N2; [exact HP2|apply N1; assumption].
Qed.

Definition pttu_ids (m : model) (cu : str) (refs : list relation_ref) : list str :=
  map (fun r => rr_type r ++ lit "#" ++ cu) (filter (fun r => type_and_relation_exists m (rr_type r) cu) refs).

Lemma pttu_fold_facts parent m td ts cu refs : forall g,
  let g' := fold_left (pttu_step parent m td ts cu) refs g in
  (exists more, pg_nodes g' = pg_nodes g ++ more) /\ pg_ops g' = pg_ops g /\
  (forall ul, In ul (pttu_ids m cu refs) -> phas g' ul) /\
  (forall P : str -> Prop, Forall P (pttu_ids m cu refs) -> pnodes_from P g -> pnodes_from P g').
Proof.
  induction refs as [|r refs IH]; intros g.
  - cbn. split; [apply prefix_refl|]. split; [reflexivity|]. split; [intros ul []|intros P _ H; exact H].
  - cbn [fold_left]. unfold pttu_ids. cbn [filter].
    destruct (type_and_relation_exists m (rr_type r) cu) eqn:Ex.
    2:{ assert (Es : pttu_step parent m td ts cu g r = g) by (unfold pttu_step; rewrite Ex; reflexivity). rewrite Es. apply IH. }
    assert (Es : pttu_step parent m td ts cu g r =
                 (let id := rr_type r ++ lit "#" ++ cu in
                  let '(g, n) := p_get_or_add g id id NTypeRel in
                  let label := td_name td ++ lit "#" ++ ts in
                  if p_has_edge g (pn_id n) (pn_id parent) ETTU label then g else p_upsert g (pn_id n) (pn_id parent) ETTU label (rr_cond r)))
      by (unfold pttu_step; rewrite Ex; reflexivity).
    rewrite Es. clear Es. cbv zeta.
    set (id := rr_type r ++ lit "#" ++ cu).
    pose proof (p_get_or_add_prefix g id id NTypeRel) as Pre. pose proof (phas_get_or_add g id id NTypeRel) as Hs.
    assert (Eo : pg_ops (fst (p_get_or_add g id id NTypeRel)) = pg_ops g) by (unfold p_get_or_add; destruct (find_pnode id g); reflexivity).
    assert (Hnf : forall P : str -> Prop, P id -> pnodes_from P g -> pnodes_from P (fst (p_get_or_add g id id NTypeRel))) by (intros; apply pnf_get_or_add; assumption).
    destruct (p_get_or_add g id id NTypeRel) as [g1 n]. cbn [fst] in *.
    set (g2 := if p_has_edge g1 (pn_id n) (pn_id parent) ETTU (td_name td ++ lit "#" ++ ts) then g1
               else p_upsert g1 (pn_id n) (pn_id parent) ETTU (td_name td ++ lit "#" ++ ts) (rr_cond r)).
    assert (N2 : pg_nodes g2 = pg_nodes g1) by (unfold g2; destruct (p_has_edge _ _ _ _ _); [reflexivity|apply p_upsert_nodes]).
    assert (O2 : pg_ops g2 = pg_ops g1) by (unfold g2; destruct (p_has_edge _ _ _ _ _); [reflexivity|apply p_upsert_ops]).
    destruct (IH g2) as (P3 & O3 & H3 & N3). cbn zeta. rewrite N2 in P3. split; [eapply prefix_trans; eauto|]. split; [congruence|]. cbn [map]. split.
    + intros ul [<-|Hin]; [apply (phas_prefix g1 _ _ P3 Hs)|apply H3; exact Hin].
    + intros P HP H. apply Forall_cons_iff in HP. destruct HP as [HP1 HP2]. apply N3; [exact HP2|]. apply (pnf_same P g1 g2 N2 O2). apply Hnf; assumption.
Qed.

Definition pinv_spec (m : model) (td : typedef) (rel : str) (u : userset) : Prop :=
  forall g p, let g' := p_rewrite g p m td rel u in
    (exists more, pg_nodes g' = pg_nodes g ++ more) /\ pg_ops g <= pg_ops g' /\
    (forall ul, In ul (preq_ids m td rel u) -> phas g' ul) /\
    (forall j, pg_ops g <= j < pg_ops g' -> exists op, In op op_names /\ phas g' (op_id op j)) /\
    (forall P : str -> Prop, Forall P (preq_ids m td rel u) -> pnodes_from P g -> pnodes_from P g').

Lemma pinv_children m td rel cs : Forall (pinv_spec m td rel) cs -> forall g opn,
  let g' := p_children m td rel g opn cs in
  (exists more, pg_nodes g' = pg_nodes g ++ more) /\ pg_ops g <= pg_ops g' /\
  (forall ul, In ul (flat_map (preq_ids m td rel) cs) -> phas g' ul) /\
  (forall j, pg_ops g <= j < pg_ops g' -> exists op, In op op_names /\ phas g' (op_id op j)) /\
  (forall P : str -> Prop, Forall P (flat_map (preq_ids m td rel) cs) -> pnodes_from P g -> pnodes_from P g').
Proof.
  induction 1 as [|c cs Hc _ IH]; intros g opn.
  - cbn. split; [apply prefix_refl|]. split; [lia|]. split; [intros ul []|]. split; [intros j Hj; lia|intros P _ H; exact H].
  - cbn [p_children flat_map]. destruct (Hc g opn) as (P1 & L1 & H1 & J1 & N1). set (g1 := p_rewrite g opn m td rel c) in *.
    destruct (IH g1 opn) as (P2 & L2 & H2 & J2 & N2). cbn zeta. split; [eapply prefix_trans; eauto|]. split; [lia|]. split; [|split].
    + intros ul Hin. apply in_app_or in Hin. destruct Hin as [Hin|Hin]; [apply (phas_prefix g1 _ _ P2); apply H1; exact Hin|apply H2; exact Hin].
    + intros j Hj. destruct (N.lt_ge_cases j (pg_ops g1)) as [Hlt|Hge].
      * destruct (J1 j ltac:(lia)) as [op [A B]]. exists op. split; [exact A|apply (phas_prefix g1 _ _ P2 B)].
      * apply J2. lia.
    + intros P HP H. apply Forall_app in HP. destruct HP as [HP1 HP2]. apply N2; [exact HP2|apply N1; assumption].
Qed.

Lemma pinv_operator m td rel op cs : In op op_names -> Forall (pinv_spec m td rel) cs -> forall g p,
  let g' := p_operator m td rel g p op cs in
  (exists more, pg_nodes g' = pg_nodes g ++ more) /\ pg_ops g <= pg_ops g' /\
  (forall ul, In ul (flat_map (preq_ids m td rel) cs) -> phas g' ul) /\
  (forall j, pg_ops g <= j < pg_ops g' -> exists op', In op' op_names /\ phas g' (op_id op' j)) /\
  (forall P : str -> Prop, Forall P (flat_map (preq_ids m td rel) cs) -> pnodes_from P g -> pnodes_from P g').
Proof.
  intros Hop Hcs g p. unfold p_operator.
  set (g0 := {| pg_nodes := pg_nodes g; pg_lines := pg_lines g; pg_ops := pg_ops g + 1; pg_listobjects := pg_listobjects g |}).
  set (oid := op ++ lit ":" ++ str_of_N (pg_ops g)).
  pose proof (p_get_or_add_prefix g0 oid op NOperator) as Pre. pose proof (phas_get_or_add g0 oid op NOperator) as Hs.
  assert (Eo : pg_ops (fst (p_get_or_add g0 oid op NOperator)) = pg_ops g + 1) by (unfold p_get_or_add; destruct (find_pnode oid g0); reflexivity).
  assert (Hnf : forall P : str -> Prop, pnodes_from P g -> forall n, In n (pg_nodes (fst (p_get_or_add g0 oid op NOperator))) -> P (pn_ulabel n) \/ is_opnode (pg_ops g + 1) (pn_ulabel n)).
  { intros P H n Hn. unfold p_get_or_add in Hn. destruct (find_pnode oid g0); cbn [fst pg_nodes g0] in Hn.
    - destruct (H n Hn) as [A|(op' & j & A1 & A2 & A3)]; [left; exact A|right; exists op', j; repeat split; try assumption; lia].
    - apply in_app_or in Hn. destruct Hn as [Hn|[<-|[]]].
      + destruct (H n Hn) as [A|(op' & j & A1 & A2 & A3)]; [left; exact A|right; exists op', j; repeat split; try assumption; lia].
      + right. exists op, (pg_ops g). repeat split; [exact Hop|lia]. }
  destruct (p_get_or_add g0 oid op NOperator) as [g1 opn]. cbn [fst pg_nodes g0] in *.
  set (g2 := p_add_edge g1 (pn_id opn) (pn_id p) ERewrite [] []).
  destruct (pinv_children m td rel cs Hcs g2 opn) as (P2 & L2 & H2 & J2 & N2). cbn zeta.
  assert (O2 : pg_ops g2 = pg_ops g + 1) by exact Eo.
  split; [eapply prefix_trans; [exact Pre|exact P2]|]. split; [lia|]. split; [exact H2|]. split.
  - intros j Hj. destruct (N.eq_dec j (pg_ops g)) as [->|Hne].
    + exists op. split; [exact Hop|]. apply (phas_prefix g2 _ _ P2). exact Hs.
    + apply J2. lia.
  - intros P HP H. apply N2; [exact HP|]. intros n Hn. rewrite O2. apply (Hnf P H). exact Hn.
Qed.

Theorem pinv_rewrite m td rel u : pinv_spec m td rel u.
Proof.
  induction u as [| r | rel0 | ts cu | cs IH | cs IH | b s IHb IHs] using userset_ind'; intros g p; rewrite p_rewrite_op.
  - apply (pinv_operator m td rel [] [] ltac:(right; right; right; left; reflexivity) (Forall_nil _) g p).
  - unfold p_parse_this. cbn [preq_ids]. change (fun (acc : pgraph * option pnode) r0 => _) with (pthis_step p).
    destruct (pthis_fold_facts p (rm_types_of (assoc rel (td_meta_rels td))) g None) as (A & B & C & D). cbn zeta.
    split; [exact A|]. split; [lia|]. split; [exact C|]. split; [intros j Hj; lia|exact D].
  - cbn [preq_ids]. unfold p_parse_computed. set (id := td_name td ++ lit "#" ++ rel0).
    pose proof (p_get_or_add_prefix g id id NTypeRel) as Pre. pose proof (phas_get_or_add g id id NTypeRel) as Hs.
    assert (Eo : pg_ops (fst (p_get_or_add g id id NTypeRel)) = pg_ops g) by (unfold p_get_or_add; destruct (find_pnode id g); reflexivity).
    assert (Hnf : forall P : str -> Prop, P id -> pnodes_from P g -> pnodes_from P (fst (p_get_or_add g id id NTypeRel))) by (intros; apply pnf_get_or_add; assumption).
    destruct (p_get_or_add g id id NTypeRel) as [g1 n]. cbn [fst] in *. cbn zeta.
    split; [exact Pre|]. split; [cbn; lia|]. split; [intros ul [<-|[]]; exact Hs|]. split; [intros j Hj; cbn in Hj; lia|].
    intros P HP H. apply Forall_cons_iff in HP. destruct HP as [HP1 _]. apply (pnf_same P g1); [reflexivity|reflexivity|apply Hnf; assumption].
  - cbn [preq_ids]. unfold p_parse_ttu. change (fun g0 r => _) with (pttu_step p m td ts cu).
    destruct (pttu_fold_facts p m td ts cu (rm_types_of (assoc ts (td_meta_rels td))) g) as (A & B & C & D). cbn zeta.
    split; [exact A|]. split; [lia|]. split; [exact C|]. split; [intros j Hj; lia|exact D].
  - apply (pinv_operator m td rel (lit "union") cs ltac:(left; reflexivity) IH g p).
  - apply (pinv_operator m td rel (lit "intersection") cs ltac:(right; left; reflexivity) IH g p).
  - assert (Hbs : Forall (pinv_spec m td rel) [b; s]) by (constructor; [exact IHb|constructor; [exact IHs|constructor]]).
    destruct (pinv_operator m td rel (lit "exclusion") [b; s] ltac:(right; right; left; reflexivity) Hbs g p) as (A & B & C & D & E).
    cbn [flat_map] in C, E. rewrite app_nil_r in C, E. cbn [preq_ids]. split; [exact A|]. split; [exact B|]. split; [exact C|]. split; [exact D|exact E].
Qed.

(* ---- relations, types, the whole graph ---- *)
Record pacc (m : model) (P : str -> Prop) (g g' : pgraph) (ids : list str) : Prop := {
  pa_prefix : exists more, pg_nodes g' = pg_nodes g ++ more;
  pa_ops : pg_ops g <= pg_ops g';
  pa_has : forall ul, In ul ids -> phas g' ul;
  pa_opn : forall j, pg_ops g <= j < pg_ops g' -> exists op, In op op_names /\ phas g' (op_id op j);
  pa_from : Forall P ids -> pnodes_from P g -> pnodes_from P g' }.

Lemma pacc_refl m P g : pacc m P g g [].
Proof. constructor; [apply prefix_refl|lia|intros ul []|intros j Hj; lia|intros _ H; exact H]. Qed.

Lemma pacc_trans m P g g1 g2 ids1 ids2 : pacc m P g g1 ids1 -> pacc m P g1 g2 ids2 -> pacc m P g g2 (ids1 ++ ids2).
Proof.
  intros [A1 A2 A3 A4 A5] [B1 B2 B3 B4 B5]. constructor.
  - eapply prefix_trans; eauto.
  - lia.
  - intros ul Hin. apply in_app_or in Hin. destruct Hin as [Hin|Hin]; [apply (phas_prefix g1 _ _ B1); apply A3; exact Hin|apply B3; exact Hin].
  - intros j Hj. destruct (N.lt_ge_cases j (pg_ops g1)) as [Hlt|Hge].
    + destruct (A4 j ltac:(lia)) as [op [X Y]]. exists op. split; [exact X|apply (phas_prefix g1 _ _ B1 Y)].
    + apply B4. lia.
  - intros HP H. apply Forall_app in HP. destruct HP as [HP1 HP2]. apply B5; [exact HP2|apply A5; assumption].
Qed.

Lemma pacc_get_or_add m P g ul lab t : pacc m P g (fst (p_get_or_add g ul lab t)) [ul].
Proof.
  assert (Eo : pg_ops (fst (p_get_or_add g ul lab t)) = pg_ops g) by (unfold p_get_or_add; destruct (find_pnode ul g); reflexivity).
  constructor; [apply p_get_or_add_prefix|lia|intros ul' [<-|[]]; apply phas_get_or_add|intros j Hj; lia|].
  intros HP H. apply pnf_get_or_add; [inversion HP; assumption|exact H].
Qed.

Lemma pacc_rewrite m P td rel u g p : pacc m P g (p_rewrite g p m td rel u) (preq_ids m td rel u).
Proof. destruct (pinv_rewrite m td rel u g p) as (A & B & C & D & E). constructor; auto. Qed.

Definition prel_ids (m : model) (td : typedef) (names : list str) : list str :=
  flat_map (fun r => (td_name td ++ lit "#" ++ r) :: preq_ids m td r (rewrite_of td r)) names.

Lemma pacc_relations m P td names : forall g, pacc m P g (fold_left (prel_step m td) names g) (prel_ids m td names).
Proof.
  induction names as [|r names IH]; intros g; [apply pacc_refl|]. cbn [fold_left prel_ids flat_map].
  change ((td_name td ++ lit "#" ++ r) :: preq_ids m td r (rewrite_of td r) ++ prel_ids m td names)
    with (([td_name td ++ lit "#" ++ r] ++ preq_ids m td r (rewrite_of td r)) ++ prel_ids m td names).
  eapply pacc_trans; [|apply IH]. unfold prel_step.
  pose proof (pacc_get_or_add m P g (td_name td ++ lit "#" ++ r) (td_name td ++ lit "#" ++ r) NTypeRel) as A.
  destruct (p_get_or_add g _ _ NTypeRel) as [g1 p]. cbn [fst] in A.
  apply (pacc_trans m P g g1 _ [td_name td ++ lit "#" ++ r] (preq_ids m td r (rewrite_of td r)) A). apply pacc_rewrite.
Qed.

Definition ptype_ids (m : model) (tds : list typedef) : list str :=
  flat_map (fun td => td_name td :: prel_ids m td (stable_sort str_compare (keys (td_rels td)))) tds.

Lemma pacc_types m P tds : forall g, pacc m P g (fold_left (ptype_step m) tds g) (ptype_ids m tds).
Proof.
  induction tds as [|td tds IH]; intros g; [apply pacc_refl|]. cbn [fold_left ptype_ids flat_map].
  change (td_name td :: prel_ids m td (stable_sort str_compare (keys (td_rels td))) ++ ptype_ids m tds)
    with (([td_name td] ++ prel_ids m td (stable_sort str_compare (keys (td_rels td)))) ++ ptype_ids m tds).
  eapply pacc_trans; [|apply IH]. unfold ptype_step.
  pose proof (pacc_get_or_add m P g (td_name td) (td_name td) NType) as A.
  destruct (p_get_or_add g _ _ NType) as [g1 p]. cbn [fst] in A.
  apply (pacc_trans m P g g1 _ [td_name td] (prel_ids m td (stable_sort str_compare (keys (td_rels td)))) A). unfold p_relations. apply pacc_relations.
Qed.

Lemma ptype_ids_exact m ul : In ul (ptype_ids m (stable_sort td_cmp (m_types m))) <-> In ul (pexact_ids m).
Proof.
  unfold ptype_ids, pexact_ids, prel_ids. rewrite !in_flat_map. split; intros [td [Htd H]].
  - exists td. split; [apply (Permutation_in td (Permutation_sym (stable_sort_perm td_cmp _))); exact Htd|].
    destruct H as [<-|H]; [left; reflexivity|right]. apply in_flat_map in H. destruct H as [r [Hr H]]. apply in_flat_map. exists r.
    split; [apply (Permutation_in r (Permutation_sym (stable_sort_perm str_compare _))); exact Hr|exact H].
  - exists td. split; [apply (Permutation_in td (stable_sort_perm td_cmp _)); exact Htd|].
    destruct H as [<-|H]; [left; reflexivity|right]. apply in_flat_map in H. destruct H as [r [Hr H]]. apply in_flat_map. exists r.
    split; [apply (Permutation_in r (stable_sort_perm str_compare _)); exact Hr|exact H].
Qed.

(* THE NODE INVENTORY of the plain graph, i.e. what label look-up finds *)
Theorem pbuild_nodes m :
  (forall n, In n (pg_nodes (pbuild m)) -> In (pn_ulabel n) (pexact_ids m) \/ is_opnode (pg_ops (pbuild m)) (pn_ulabel n)) /\
  (forall ul, In ul (pexact_ids m) -> find_pnode ul (pbuild m) <> None) /\
  (forall j, j < pg_ops (pbuild m) -> exists op, In op op_names /\ find_pnode (op_id op j) (pbuild m) <> None).
Proof.
  set (g0 := {| pg_nodes := []; pg_lines := []; pg_ops := 0; pg_listobjects := true |}).
  assert (Epb : pbuild m = fold_left (ptype_step m) (stable_sort td_cmp (m_types m)) g0) by reflexivity.
  destruct (pacc_types m (fun ul => In ul (pexact_ids m)) (stable_sort td_cmp (m_types m)) g0) as [A1 A2 A3 A4 A5]. rewrite <- Epb in *.
  split; [|split].
  - apply A5; [|intros n []]. apply Forall_forall. intros ul Hul. apply ptype_ids_exact. exact Hul.
  - intros ul Hul. apply A3. apply ptype_ids_exact. exact Hul.
  - intros j Hj. apply A4. cbn. lia.
Qed.

(* label look-up: found => named by the model or an operator label below the count; named => found *)
Corollary label_lookup m ul :
  (find_pnode ul (pbuild m) <> None -> In ul (pexact_ids m) \/ is_opnode (pg_ops (pbuild m)) ul) /\
  (In ul (pexact_ids m) -> find_pnode ul (pbuild m) <> None).
Proof.
  destruct (pbuild_nodes m) as (A & B & _). split; [|apply B].
  intros H. destruct (find_pnode ul (pbuild m)) as [n|] eqn:E; [|contradiction]. unfold find_pnode in E. apply find_some in E. destruct E as [Hin Heq].
  assert (El : pn_ulabel n = ul) by (destruct (str_eqb_spec (pn_ulabel n) ul); [assumption|discriminate]). rewrite <- El. apply A. exact Hin.
Qed.

(* Proofs/LexPartition.v — the tokens of an error-free lexing PARTITION the input: their texts, concatenated in order, are
   the input, whatever the input and whatever the mode switches (C01/C03: nothing of an accepted text is dropped or
   duplicated by the lexer; the text of a condition expression is the text between its braces). *)
From Coq Require Import Lia.
From Verif Require Import Base.Str Model.Token Model.Lexer Proofs.LexInversion.

Lemma lexk_partition : forall f s d,
  (length s < f)%nat -> snd (lexk f s d) = 0%nat -> concat (map snd (fst (lexk f s d))) = s.
Proof.
  induction f as [|f IH]; intros s d Hf He; [lia|]. destruct s as [|c r]; [reflexivity|]. cbn [lexk] in He |- *.
  destruct (best_rule (if (d =? 0)%nat then default_rules else condition_rules) (c :: r) TEOF 0) as [k n].
  destruct (n =? 0)%nat eqn:En.
  - destruct (lexk f r d) as [ts es]. cbn [snd] in He. discriminate He.
  - apply Nat.eqb_neq in En.
    match goal with |- context [lexk f (skipn n (c :: r)) ?d'] => specialize (IH (skipn n (c :: r)) d'); destruct (lexk f (skipn n (c :: r)) d') as [ts es] end.
    cbn [fst snd map concat] in He, IH |- *. rewrite IH; [apply firstn_skipn| |exact He].
    rewrite skipn_length. cbn [length] in Hf |- *. lia.
Qed.

Theorem lex_all_partition s : snd (lex_all s) = [] -> concat (map ttext (fst (lex_all s))) = s.
Proof.
  intros He. unfold lex_all in *. destruct (lex_loop_lexk (S (length s)) s 0 1 0) as [A B].
  rewrite He in B. cbn [length] in B.
  assert (E : map ttext (fst (lex_loop (S (length s)) s 0 1 0)) = map snd (fst (lexk (S (length s)) s 0))).
  { rewrite <- A, map_map. reflexivity. }
  rewrite E. apply lexk_partition; [lia|symmetry; exact B].
Qed.

(* with errors: every character of the input is in exactly one token or is reported as exactly one lexer error *)
Lemma lexk_account : forall f s d,
  (length s < f)%nat -> (length (concat (map snd (fst (lexk f s d)))) + snd (lexk f s d) = length s)%nat.
Proof.
  induction f as [|f IH]; intros s d Hf; [lia|]. destruct s as [|c r]; [reflexivity|]. cbn [lexk].
  destruct (best_rule (if (d =? 0)%nat then default_rules else condition_rules) (c :: r) TEOF 0) as [k n].
  destruct (n =? 0)%nat eqn:En.
  - specialize (IH r d). destruct (lexk f r d) as [ts es]. cbn [fst snd length] in IH |- *. cbn [length] in Hf. specialize (IH ltac:(lia)). lia.
  - apply Nat.eqb_neq in En.
    match goal with |- context [lexk f (skipn n (c :: r)) ?d'] => specialize (IH (skipn n (c :: r)) d'); destruct (lexk f (skipn n (c :: r)) d') as [ts es] end.
    cbn [fst snd map concat] in IH |- *. rewrite app_length.
    assert (Hl : (length (skipn n (c :: r)) < f)%nat) by (rewrite skipn_length; cbn [length] in Hf |- *; lia).
    specialize (IH Hl). pose proof (f_equal (@length N) (firstn_skipn n (c :: r))) as Hsplit. rewrite app_length in Hsplit. lia.
Qed.

Theorem lex_all_accounts_for_every_character s :
  (length (concat (map ttext (fst (lex_all s)))) + length (snd (lex_all s)) = length s)%nat.
Proof.
  unfold lex_all. destruct (lex_loop_lexk (S (length s)) s 0 1 0) as [A B].
  assert (E : map ttext (fst (lex_loop (S (length s)) s 0 1 0)) = map snd (fst (lexk (S (length s)) s 0))).
  { rewrite <- A, map_map. reflexivity. }
  rewrite E, B. apply lexk_account. lia.
Qed.
Print Assumptions lex_all_accounts_for_every_character.

(* Proofs/DagModel.v — the theorems about graphs without cycles, for graphs the builder made: "nothing has a
   weight yet" holds by construction (Proofs/BuilderFresh.v), so only the rank check and the placeholder check
   remain as (decidable) hypotheses. *)
From Verif Require Import Base.Str Base.Outcome Model.Ast Model.Printer Model.WGraph Model.WWeights
  Spec.GraphWeights Proofs.GraphPrims Proofs.DagWeights Proofs.DagCheck Proofs.BuilderFresh.

Definition acyclic_check (g : wgraph) : bool := check_ranked g (heights g) && check_terminals g.

Section Built.
  Variables (m : model) (g : wgraph).
  Hypothesis Hb : wbuild m = Ok g.
  Hypothesis Hc : acyclic_check g = true.

  Let Hr : ranked_by g (rank_fn (heights g)).
  Proof. apply check_ranked_sound. apply andb_prop in Hc. tauto. Qed.
  Let Ht : terminals_not_placeholders g.
  Proof. apply check_terminals_sound. apply andb_prop in Hc. tauto. Qed.
  Let Hu : unweighted g.
  Proof. apply (wbuild_unweighted m g Hb). Qed.

  Theorem built_weights o g' :
    build_weighted o m = Ok g' ->
    forall x, In x (order_used o g) -> is_terminal (n_type (node_of g x)) = false ->
      n_weights (node_of g' x) = spec_weights g x.
  Proof.
    intros H x Hx Hnt. unfold build_weighted in H. rewrite Hb in H. cbn [obind] in H.
    apply (dag_weights g (rank_fn (heights g)) _ g' Hr Ht Hu H x Hx Hnt).
  Qed.

  Theorem built_wildcards o g' :
    build_weighted o m = Ok g' ->
    forall x, In x (order_used o g) -> is_terminal (n_type (node_of g x)) = false ->
      (forall T, In T (n_wild (node_of g' x)) <-> reaches_wild g x T) /\ NoDup (n_wild (node_of g' x)).
  Proof.
    intros H x Hx Hnt. unfold build_weighted in H. rewrite Hb in H. cbn [obind] in H. split.
    - apply (dag_wildcards g (rank_fn (heights g)) _ g' Hr Ht Hu H x Hx Hnt).
    - apply (dag_wildcards_nodup g (rank_fn (heights g)) _ g' Hr Ht Hu H x Hnt).
  Qed.

  Theorem built_order_independent o1 o2 g1 g2 :
    build_weighted o1 m = Ok g1 -> build_weighted o2 m = Ok g2 ->
    forall x, In x (order_used o1 g) -> In x (order_used o2 g) -> is_terminal (n_type (node_of g x)) = false ->
      n_weights (node_of g1 x) = n_weights (node_of g2 x).
  Proof. intros H1 H2 x Hx1 Hx2 Hnt. rewrite (built_weights o1 g1 H1 x Hx1 Hnt), (built_weights o2 g2 H2 x Hx2 Hnt). reflexivity. Qed.

  Theorem built_accepted_iff o :
    fuel_check g = true ->
    (is_ok (build_weighted o m) = true <-> forallb (spec_accepts g) (order_used o g) = true).
  Proof.
    intros Hf. unfold build_weighted. rewrite Hb. cbn [obind]. fold (order_used o g).
    assert (Hiff := dag_accepts_iff g (rank_fn (heights g)) (order_used o g) Hr Ht Hu).
    assert (Hfuel : forall x, In x (order_used o g) -> (2 * rank_fn (heights g) x + 1 <= 2 * length (g_nodes g) + 2)%nat).
    { intros x _. pose proof (rank_fn_bound (heights g) (length (g_nodes g)) x Hf). lia. }
    specialize (Hiff Hfuel). rewrite forallb_forall. split.
    - intros Hok. destruct (assign_weights (order_used o g) g) as [g'| |] eqn:E; try discriminate.
      intros x Hx. unfold spec_accepts. destruct (proj1 Hiff (ex_intro _ g' eq_refl) x Hx) as [Hterm|Ha]; [rewrite Hterm; reflexivity|].
      unfold acc in Ha. rewrite Ha. apply orb_true_r.
    - intros Hall. destruct (proj2 Hiff) as [g' ->]; [|reflexivity].
      intros x Hx. specialize (Hall x Hx). unfold spec_accepts in Hall. apply orb_prop in Hall. destruct Hall as [Hterm|Ha]; [left; exact Hterm|right; exact Ha].
  Qed.
End Built.

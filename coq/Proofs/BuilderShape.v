(* Proofs/BuilderShape.v — C10: the weighted graph mirrors the rewrites.  For every model in the domain
   [shape_domain] (no relation declared twice, no name of the model that looks like an operator node), after a
   successful build the list of edges filed under "type#relation" and under every operator node created for that
   relation are exactly the lists [Spec/GraphShape.shape] computes from the rewrite alone. *)
From Coq Require Import Permutation Lia ZifyN ZifyNat.
From Verif Require Import Base.Str Base.Outcome Model.Ast Model.Printer Model.WGraph Spec.GraphShape
  Proofs.SortFacts Proofs.GraphPrims Proofs.StrategyProofs Proofs.WGraphProofs.

(* ---------------------------------------------------------------------------------------- *)
(* 1. decimal numbers and operator ids                                                       *)
(* ---------------------------------------------------------------------------------------- *)
Lemma digits_fuel_value : forall f n acc,
  n < 2 ^ N.of_nat f ->
  fold_left (fun a d => 10 * a + (d - 48)) (digits_fuel f n acc) 0 = fold_left (fun a d => 10 * a + (d - 48)) acc n.
Proof.
  induction f as [|f IH]; intros n acc Hn.
  - cbn in Hn. assert (n = 0) by lia. subst. reflexivity.
  - cbn [digits_fuel]. destruct (N.eqb_spec (n / 10) 0) as [Hq|Hq].
    + cbn [fold_left]. f_equal. assert (n < 10) by (apply N.div_small_iff in Hq; lia).
      rewrite N.mod_small by assumption. lia.
    + rewrite IH.
      * cbn [fold_left]. f_equal. pose proof (N.div_mod n 10 ltac:(lia)) as D. lia.
      * rewrite Nat2N.inj_succ, N.pow_succ_r' in Hn.
        apply N.div_lt_upper_bound; [lia|]. lia.
Qed.

Lemma dec_value_str_of_N n : dec_value (str_of_N n) = n.
Proof.
  unfold dec_value, str_of_N. rewrite digits_fuel_value; [reflexivity|].
  rewrite Nat2N.inj_succ, N2Nat.id. destruct n as [|p]; [cbn; lia|].
  apply N.log2_spec. lia.
Qed.

Lemma str_of_N_inj a b : str_of_N a = str_of_N b -> a = b.
Proof. intros H. rewrite <- (dec_value_str_of_N a), <- (dec_value_str_of_N b), H. reflexivity. Qed.

Lemma strip_prefix_app p s : strip_prefix p (p ++ s) = Some s.
Proof. induction p as [|a p IH]; cbn; [reflexivity|]. rewrite N.eqb_refl. exact IH. Qed.

Lemma is_op_id_op_id op j : In op op_names -> is_op_id (op_id op j) = true.
Proof.
  intros Hin. unfold is_op_id. apply existsb_exists. exists op. split; [exact Hin|].
  unfold op_id. rewrite app_assoc, strip_prefix_app, dec_value_str_of_N. apply str_eqb_refl.
Qed.

Lemma op_id_inj op op' j j' : In op op_names -> In op' op_names -> op_id op j = op_id op' j' -> op = op' /\ j = j'.
Proof.
  unfold op_names. intros H H' E.
  destruct H as [<-|[<-|[<-|[<-|[]]]]]; destruct H' as [<-|[<-|[<-|[<-|[]]]]];
    try (split; [reflexivity|]; unfold op_id in E; apply app_inv_head in E; apply app_inv_head in E; apply str_of_N_inj; exact E);
    exfalso; cbn in E; discriminate E.
Qed.

(* ---------------------------------------------------------------------------------------- *)
(* 2. the primitives, read through [edges_from]                                              *)
(* ---------------------------------------------------------------------------------------- *)
Lemma assoc_app_gen {A} k (l l' : list (str * A)) :
  assoc k (l ++ l') = match assoc k l with Some v => Some v | None => assoc k l' end.
Proof. induction l as [|[k0 v0] l IH]; cbn; [reflexivity|]. destruct (str_eqb k k0); [reflexivity|exact IH]. Qed.

Lemma edges_from_push g e x :
  edges_from (push_edge g e) x = if str_eqb x (e_from e) then edges_from g x ++ [e] else edges_from g x.
Proof.
  unfold edges_from, push_edge. cbn [g_edges]. destruct (assoc (e_from e) (g_edges g)) as [l|] eqn:Ea.
  - rewrite assoc_assoc_set. destruct (str_eqb_spec x (e_from e)) as [->|Hne]; [rewrite Ea; reflexivity|reflexivity].
  - rewrite assoc_app_gen. destruct (str_eqb_spec x (e_from e)) as [->|Hne].
    + rewrite Ea. cbn. rewrite str_eqb_refl. reflexivity.
    + destruct (assoc x (g_edges g)); [reflexivity|]. cbn. rewrite (str_eqb_false _ _ Hne). reflexivity.
Qed.

Lemma edges_from_upsert g from to t ts c x :
  edges_from (upsert_edge g from to t ts c) x =
  if str_eqb x from then l_upsert (edges_from g from) from to t ts c else edges_from g x.
Proof.
  unfold upsert_edge, l_upsert. destruct (upsert_in (edges_from g from) to t ts (if is_empty c then no_cond else c)) as [l'|] eqn:Eu.
  - unfold edges_from at 1. cbn [g_edges]. rewrite assoc_assoc_set.
    destruct (str_eqb_spec x from) as [->|Hne]; reflexivity.
  - rewrite edges_from_push. cbn [e_from]. destruct (str_eqb_spec x from) as [->|Hne]; reflexivity.
Qed.

Lemma edges_from_add_edge g from to t ts x :
  edges_from (add_edge g from to t ts) x =
  if str_eqb x from then edges_from g x ++ [mk_edge from to t ts no_cond] else edges_from g x.
Proof. unfold add_edge. rewrite edges_from_push. reflexivity. Qed.

Lemma find_node_app id l more :
  find_node id (l ++ more) = match find_node id l with Some n => Some n | None => find_node id more end.
Proof. induction l as [|n l IH]; cbn; [reflexivity|]. destruct (str_eqb (n_id n) id); [reflexivity|exact IH]. Qed.

Lemma get_or_add_facts g id lab t :
  let g' := fst (get_or_add_node g id lab t) in let n := snd (get_or_add_node g id lab t) in
  find_node id (g_nodes g') = Some n /\ n_id n = id /\ (exists more, g_nodes g' = g_nodes g ++ more) /\
  g_ops g' = g_ops g /\ g_edges g' = g_edges g /\
  (forall id', id' <> id -> find_node id' (g_nodes g') = find_node id' (g_nodes g)) /\
  (find_node id (g_nodes g) = None -> n_type n = t).
Proof.
  unfold get_or_add_node. destruct (find_node id (g_nodes g)) as [n|] eqn:Ef; cbn.
  - split; [exact Ef|]. split; [eapply find_node_id; eauto|]. split; [exists []; rewrite app_nil_r; reflexivity|].
    repeat split; auto. discriminate.
  - split; [rewrite find_node_app, Ef; cbn; rewrite str_eqb_refl; reflexivity|]. split; [reflexivity|].
    split; [eexists; reflexivity|]. split; [reflexivity|]. split; [reflexivity|]. split; [|reflexivity].
    intros id' Hne. rewrite find_node_app. destruct (find_node id' (g_nodes g)); [reflexivity|]. cbn.
    rewrite str_eqb_false by congruence. reflexivity.
Qed.

Lemma edges_from_same_edges g g' x : g_edges g' = g_edges g -> edges_from g' x = edges_from g x.
Proof. unfold edges_from. intros ->. reflexivity. Qed.

(* ---- the invariant: operator numbers not yet used name nothing ---- *)
Definition fresh_ops (g : wgraph) : Prop :=
  forall op j, In op op_names -> g_ops g <= j ->
    find_node (op_id op j) (g_nodes g) = None /\ edges_from g (op_id op j) = [].
Definition old_id (g : wgraph) (x : str) : Prop := forall op j, In op op_names -> g_ops g <= j -> x <> op_id op j.
Definition nonop (id : str) : Prop := is_op_id id = false.

Lemma nonop_old g id : nonop id -> old_id g id.
Proof. intros H op j Hin _ ->. unfold nonop in H. rewrite is_op_id_op_id in H by exact Hin. discriminate. Qed.

Lemma fresh_get_or_add g id lab t : nonop id -> fresh_ops g -> fresh_ops (fst (get_or_add_node g id lab t)).
Proof.
  intros Hn Hf op j Hin Hj. destruct (get_or_add_facts g id lab t) as (_ & _ & _ & Eo & Ee & Hother & _).
  rewrite Eo in Hj. destruct (Hf op j Hin Hj) as [F1 F2]. split.
  - rewrite Hother; [exact F1|]. intros E. apply (nonop_old g id Hn op j Hin Hj). symmetry. exact E.
  - rewrite (edges_from_same_edges _ _ _ Ee). exact F2.
Qed.

Lemma fresh_upsert g from to t ts c : old_id g from -> fresh_ops g -> fresh_ops (upsert_edge g from to t ts c).
Proof.
  intros Ho Hf op j Hin Hj. rewrite upsert_edge_ops in Hj. destruct (Hf op j Hin Hj) as [F1 F2]. split.
  - unfold upsert_edge. destruct (upsert_in _ _ _ _ _); exact F1.
  - rewrite edges_from_upsert. rewrite str_eqb_false; [exact F2|]. intros E. apply (Ho op j Hin Hj). symmetry. exact E.
Qed.

Lemma fresh_add_edge g from to t ts : old_id g from -> fresh_ops g -> fresh_ops (add_edge g from to t ts).
Proof.
  intros Ho Hf op j Hin Hj. change (g_ops (add_edge g from to t ts)) with (g_ops g) in Hj. destruct (Hf op j Hin Hj) as [F1 F2]. split.
  - exact F1.
  - rewrite edges_from_add_edge. rewrite str_eqb_false; [exact F2|]. intros E. apply (Ho op j Hin Hj). symmetry. exact E.
Qed.

Definition ty_ok (ty : str -> ntype) (g : wgraph) : Prop := forall id n, find_node id (g_nodes g) = Some n -> ty id = n_type n.

Lemma ty_ok_prefix ty g g' : (exists more, g_nodes g' = g_nodes g ++ more) -> ty_ok ty g' -> ty_ok ty g.
Proof. intros [more E] H id n Hf. apply H. rewrite E, find_node_app, Hf. reflexivity. Qed.

(* ---------------------------------------------------------------------------------------- *)
(* 3. the three kinds of leaves                                                              *)
(* ---------------------------------------------------------------------------------------- *)
(* what a step that files edges under [pid] only leaves behind *)
Definition leaf_ok (g g' : wgraph) (pid : str) (l' : list wedge) : Prop :=
  edges_from g' pid = l' /\ (forall x, x <> pid -> edges_from g' x = edges_from g x) /\
  g_ops g' = g_ops g /\ fresh_ops g' /\ (exists more, g_nodes g' = g_nodes g ++ more).

Lemma nodes_upsert g a b t ts c : g_nodes (upsert_edge g a b t ts c) = g_nodes g.
Proof. unfold upsert_edge. destruct (upsert_in _ _ _ _ _); reflexivity. Qed.

Definition kind_type (r : relation_ref) : ntype :=
  match rr_kind r with RPlain => NType | RWild => NWildcard | RRel _ => NTypeRel end.

Lemma parse_this_fold parent refs : forall g,
  Forall nonop (map ref_id refs) -> old_id g (n_id parent) -> fresh_ops g ->
  leaf_ok g
    (fold_left
       (fun g r =>
          let '(g, cur) :=
            match rr_kind r with
            | RPlain => get_or_add_node g (rr_type r) (rr_type r) NType
            | RWild => get_or_add_node g (rr_type r ++ lit ":*") (rr_type r ++ lit ":*") NWildcard
            | RRel x => get_or_add_node g (rr_type r ++ lit "#" ++ x) (rr_type r ++ lit "#" ++ x) NTypeRel
            end in
          upsert_edge g (n_id parent) (n_id cur) EDirect [] (rr_cond r)) refs g)
    (n_id parent) (l_this (n_id parent) refs (edges_from g (n_id parent))).
Proof.
  induction refs as [|r refs IH]; intros g Hn Ho Hf.
  - cbn. split; [reflexivity|]. split; [reflexivity|]. split; [reflexivity|]. split; [exact Hf|]. exists []. rewrite app_nil_r. reflexivity.
  - cbn [map] in Hn. inversion Hn as [|? ? Hr Hn']; subst. cbn [fold_left l_this].
    assert (Eg : (match rr_kind r with
            | RPlain => get_or_add_node g (rr_type r) (rr_type r) NType
            | RWild => get_or_add_node g (rr_type r ++ lit ":*") (rr_type r ++ lit ":*") NWildcard
            | RRel x => get_or_add_node g (rr_type r ++ lit "#" ++ x) (rr_type r ++ lit "#" ++ x) NTypeRel
            end) = get_or_add_node g (ref_id r) (ref_id r) (kind_type r)) by (unfold ref_id, kind_type; destruct (rr_kind r); reflexivity).
    rewrite Eg. destruct (get_or_add_facts g (ref_id r) (ref_id r) (kind_type r)) as (_ & Eid & Hpre & Eo & Ee & _ & _).
    pose proof (fresh_get_or_add g (ref_id r) (ref_id r) (kind_type r) Hr Hf) as Hf1.
    destruct (get_or_add_node g (ref_id r) (ref_id r) (kind_type r)) as [g1 cur]. cbn [fst snd] in *.
    set (g2 := upsert_edge g1 (n_id parent) (n_id cur) EDirect [] (rr_cond r)).
    assert (Ho1 : old_id g1 (n_id parent)) by (intros op j Hin Hj; apply Ho; [exact Hin|rewrite <- Eo; exact Hj]).
    assert (Ho2 : old_id g2 (n_id parent)) by (intros op j Hin Hj; apply Ho1; [exact Hin|unfold g2 in Hj; rewrite upsert_edge_ops in Hj; exact Hj]).
    destruct (IH g2 Hn' Ho2 (fresh_upsert _ _ _ _ _ _ Ho1 Hf1)) as (L1 & L2 & L3 & L4 & L5).
    assert (Eself : edges_from g2 (n_id parent) = l_upsert (edges_from g (n_id parent)) (n_id parent) (ref_id r) EDirect [] (rr_cond r)).
    { unfold g2. rewrite edges_from_upsert, str_eqb_refl, (edges_from_same_edges _ _ _ Ee), Eid. reflexivity. }
    split; [rewrite L1, Eself; reflexivity|]. split.
    + intros x Hx. rewrite (L2 x Hx). unfold g2. rewrite edges_from_upsert, (str_eqb_false _ _ Hx). apply edges_from_same_edges. exact Ee.
    + split; [rewrite L3; unfold g2; rewrite upsert_edge_ops; exact Eo|]. split; [exact L4|].
      destruct L5 as [more2 E2]. destruct Hpre as [more1 E1]. exists (more1 ++ more2).
      rewrite E2. unfold g2. rewrite nodes_upsert, E1, app_assoc. reflexivity.
Qed.

Lemma parse_this_leaf g parent td rel :
  Forall nonop (map ref_id (rm_types_of (assoc rel (td_meta_rels td)))) -> old_id g (n_id parent) -> fresh_ops g ->
  leaf_ok g (parse_this g parent td rel) (n_id parent)
          (l_this (n_id parent) (rm_types_of (assoc rel (td_meta_rels td))) (edges_from g (n_id parent))).
Proof. intros. unfold parse_this. apply parse_this_fold; assumption. Qed.

Lemma parse_computed_leaf ty g parent td r :
  find_node (n_id parent) (g_nodes g) = Some parent ->
  nonop (td_name td ++ lit "#" ++ r) -> old_id g (n_id parent) -> fresh_ops g -> ty_ok ty (parse_computed g parent td r) ->
  leaf_ok g (parse_computed g parent td r) (n_id parent)
          (edges_from g (n_id parent) ++
           [mk_edge (n_id parent) (td_name td ++ lit "#" ++ r) (computed_kind ty (n_id parent) (td_name td ++ lit "#" ++ r)) [] no_cond]).
Proof.
  intros Hp Hn Ho Hf Hty. unfold parse_computed in *. set (id := td_name td ++ lit "#" ++ r) in *.
  destruct (get_or_add_facts g id id NTypeRel) as (Efind & Eid & Hpre & Eo & Ee & _ & _).
  pose proof (fresh_get_or_add g id id NTypeRel Hn Hf) as Hf1.
  destruct (get_or_add_node g id id NTypeRel) as [g1 n]. cbn [fst snd] in *.
  assert (Ho1 : old_id g1 (n_id parent)) by (intros op j Hin Hj; apply Ho; [exact Hin|rewrite <- Eo; exact Hj]).
  (* the kinds of the two end points, read from the final node table *)
  assert (Tn : ty id = n_type n) by (apply Hty; exact Efind).
  assert (Tp : ty (n_id parent) = n_type parent).
  { apply Hty. cbn [g_nodes add_edge push_edge]. destruct Hpre as [more E]. rewrite E, find_node_app, Hp. reflexivity. }
  unfold computed_kind. rewrite Tn, Tp.
  split; [rewrite edges_from_add_edge, str_eqb_refl, (edges_from_same_edges _ _ _ Ee), Eid; reflexivity|]. split.
  - intros x Hx. rewrite edges_from_add_edge, (str_eqb_false _ _ Hx). apply edges_from_same_edges. exact Ee.
  - split; [exact Eo|]. split; [apply fresh_add_edge; assumption|exact Hpre].
Qed.

Lemma parse_ttu_refs_leaf parent m td ts cu refs : forall g g',
  parse_ttu_refs g parent m td ts cu refs = Ok g' ->
  Forall nonop (map (fun r => rr_type r ++ lit "#" ++ cu) refs) -> old_id g (n_id parent) -> fresh_ops g ->
  leaf_ok g g' (n_id parent) (l_ttu (n_id parent) (td_name td ++ lit "#" ++ ts) cu refs (edges_from g (n_id parent))).
Proof.
  induction refs as [|r refs IH]; intros g g' E Hn Ho Hf.
  - cbn in E. inversion E; subst. cbn. split; [reflexivity|]. split; [reflexivity|]. split; [reflexivity|]. split; [exact Hf|]. exists []. rewrite app_nil_r. reflexivity.
  - cbn [map] in Hn. inversion Hn as [|? ? Hr Hn']; subst. cbn [parse_ttu_refs] in E. cbn [l_ttu fold_left].
    destruct (negb (type_and_relation_exists m (rr_type r) cu)); [discriminate E|].
    set (id := rr_type r ++ lit "#" ++ cu) in *. set (label := td_name td ++ lit "#" ++ ts) in *.
    destruct (get_or_add_facts g id id NTypeRel) as (_ & Eid & Hpre & Eo & Ee & _ & _).
    pose proof (fresh_get_or_add g id id NTypeRel Hr Hf) as Hf1.
    destruct (get_or_add_node g id id NTypeRel) as [g1 n]. cbn [fst snd] in *.
    assert (Ho1 : old_id g1 (n_id parent)) by (intros op j Hin Hj; apply Ho; [exact Hin|rewrite <- Eo; exact Hj]).
    set (g2 := if has_edge g1 (n_id parent) (n_id n) ETTU label then g1
               else upsert_edge g1 (n_id parent) (n_id n) ETTU label (rr_cond r)) in *.
    assert (Hg2 : edges_from g2 (n_id parent) =
                  (if existsb (fun e => same_edge e id ETTU label) (edges_from g (n_id parent)) then edges_from g (n_id parent)
                   else l_upsert (edges_from g (n_id parent)) (n_id parent) id ETTU label (rr_cond r)) /\
                  (forall x, x <> n_id parent -> edges_from g2 x = edges_from g x) /\ g_ops g2 = g_ops g /\ fresh_ops g2 /\
                  g_nodes g2 = g_nodes g1).
    { unfold g2, has_edge. rewrite (edges_from_same_edges _ _ _ Ee), Eid.
      destruct (existsb (fun e => same_edge e id ETTU label) (edges_from g (n_id parent))).
      - split; [apply edges_from_same_edges; exact Ee|]. split; [intros; apply edges_from_same_edges; exact Ee|]. split; [exact Eo|]. split; [exact Hf1|reflexivity].
      - split; [rewrite edges_from_upsert, str_eqb_refl, (edges_from_same_edges _ _ _ Ee); reflexivity|]. split.
        + intros x Hx. rewrite edges_from_upsert, (str_eqb_false _ _ Hx). apply edges_from_same_edges. exact Ee.
        + split; [rewrite upsert_edge_ops; exact Eo|]. split; [apply fresh_upsert; assumption|apply nodes_upsert]. }
    destruct Hg2 as (G1 & G2 & G3 & G4 & G5).
    assert (Ho2 : old_id g2 (n_id parent)) by (intros op j Hin Hj; apply Ho; [exact Hin|rewrite <- G3; exact Hj]).
    destruct (IH g2 g' E Hn' Ho2 G4) as (L1 & L2 & L3 & L4 & L5).
    split; [rewrite L1, G1; reflexivity|]. split; [intros x Hx; rewrite (L2 x Hx); apply G2; exact Hx|].
    split; [rewrite L3; exact G3|]. split; [exact L4|].
    destruct L5 as [more2 E2]. destruct Hpre as [more1 E1]. exists (more1 ++ more2). rewrite E2, G5, E1, app_assoc. reflexivity.
Qed.

Lemma parse_ttu_leaf g parent m td ts cu g' :
  parse_ttu g parent m td ts cu = Ok g' ->
  Forall nonop (map (fun r => rr_type r ++ lit "#" ++ cu) (rm_types_of (assoc ts (td_meta_rels td)))) ->
  old_id g (n_id parent) -> fresh_ops g ->
  leaf_ok g g' (n_id parent)
          (l_ttu (n_id parent) (td_name td ++ lit "#" ++ ts) cu (rm_types_of (assoc ts (td_meta_rels td))) (edges_from g (n_id parent))).
Proof.
  unfold parse_ttu, rm_types_of. destruct (assoc ts (td_meta_rels td)) as [rm|]; [|discriminate].
  destruct (rm_types rm) eqn:Er; [discriminate|]. rewrite <- Er. apply parse_ttu_refs_leaf.
Qed.

(* ---------------------------------------------------------------------------------------- *)
(* 4. a whole rewrite                                                                        *)
(* ---------------------------------------------------------------------------------------- *)
Lemma old_id_mono g g' x : g_ops g <= g_ops g' -> old_id g x -> old_id g' x.
Proof. intros Hle H op j Hin Hj. apply H; [exact Hin|lia]. Qed.

Lemma op_id_old g op j : In op op_names -> j < g_ops g -> old_id g (op_id op j).
Proof. intros Hin Hj op' j' Hin' Hj' E. apply op_id_inj in E; [|assumption|assumption]. lia. Qed.

Section Main.
  Variable ty : str -> ntype.
  Variable m : model.
  Variable td : typedef.
  Variable rel : str.

  (* the nested loops of the builder and of the specification, named *)
  Fixpoint parse_children (g : wgraph) (opn : wnode) (cs : list userset) : outcome wgraph werr :=
    match cs with
    | [] => Ok g
    | c :: r => obind (parse_rewrite g opn m td rel c) (fun g => parse_children g opn r)
    end.
  Definition parse_operator (g : wgraph) (parent : wnode) (op : str) (cs : list userset) : outcome wgraph werr :=
    let '(g, opn) := op_node g op in
    let g := add_edge g (n_id parent) (n_id opn) ERewrite [] in
    parse_children g opn cs.

  Fixpoint shape_children (k : N) (oid : str) (cs : list userset) (ol : list wedge) (created : list (str * list wedge))
    : list wedge * list (str * list wedge) * N :=
    match cs with
    | [] => (ol, created, k)
    | c :: r => let '(ol', cr, k') := shape ty td rel k oid c ol in shape_children k' oid r ol' (created ++ cr)
    end.
  Definition shape_operator (k : N) (pid op : str) (cs : list userset) (l : list wedge) :=
    let oid := op_id op k in
    let '(ol, created, k') := shape_children (k + 1) oid cs [] [] in
    (l ++ [mk_edge pid oid ERewrite [] no_cond], (oid, ol) :: created, k').

  Lemma parse_rewrite_op g p u :
    parse_rewrite g p m td rel u =
    match u with
    | UThis _ => Ok (parse_this g p td rel)
    | UComputed r => Ok (parse_computed g p td r)
    | UTTU ts cu => parse_ttu g p m td ts cu
    | UUnion cs => parse_operator g p (lit "union") cs
    | UInter cs => parse_operator g p (lit "intersection") cs
    | UDiff b s => parse_operator g p (lit "exclusion") [b; s]
    | UUnset => parse_operator g p [] []
    end.
  Proof. destruct u; reflexivity. Qed.

  Lemma shape_op k pid u l :
    shape ty td rel k pid u l =
    match u with
    | UThis _ => (l_this pid (rm_types_of (assoc rel (td_meta_rels td))) l, [], k)
    | UComputed r =>
        (l ++ [mk_edge pid (td_name td ++ lit "#" ++ r) (computed_kind ty pid (td_name td ++ lit "#" ++ r)) [] no_cond], [], k)
    | UTTU ts cu => (l_ttu pid (td_name td ++ lit "#" ++ ts) cu (rm_types_of (assoc ts (td_meta_rels td))) l, [], k)
    | UUnion cs => shape_operator k pid (lit "union") cs l
    | UInter cs => shape_operator k pid (lit "intersection") cs l
    | UDiff b s => shape_operator k pid (lit "exclusion") [b; s] l
    | UUnset => shape_operator k pid [] [] l
    end.
  Proof. destruct u; reflexivity. Qed.

  (* the node names a rewrite asks for *)
  Fixpoint req_ids (u : userset) : list str :=
    match u with
    | UThis _ => map ref_id (rm_types_of (assoc rel (td_meta_rels td)))
    | UComputed r => [td_name td ++ lit "#" ++ r]
    | UTTU ts cu => map (fun r => rr_type r ++ lit "#" ++ cu) (rm_types_of (assoc ts (td_meta_rels td)))
    | UUnion cs | UInter cs => flat_map req_ids cs
    | UDiff b s => req_ids b ++ req_ids s
    | UUnset => []
    end.

  Definition result_ok (g g' : wgraph) (pid : str) (res : list wedge * list (str * list wedge) * N) : Prop :=
    let '(l, created, k') := res in
    edges_from g' pid = l /\
    (forall oid es, In (oid, es) created ->
       edges_from g' oid = es /\ exists op j, In op op_names /\ g_ops g <= j < k' /\ oid = op_id op j) /\
    g_ops g' = k' /\ g_ops g <= k' /\ fresh_ops g' /\
    (forall x, x <> pid -> old_id g x -> edges_from g' x = edges_from g x) /\
    (exists more, g_nodes g' = g_nodes g ++ more).

  Definition shape_spec (u : userset) : Prop := forall g p g',
    parse_rewrite g p m td rel u = Ok g' ->
    find_node (n_id p) (g_nodes g) = Some p -> fresh_ops g -> old_id g (n_id p) ->
    Forall nonop (req_ids u) -> ty_ok ty g' ->
    result_ok g g' (n_id p) (shape ty td rel (g_ops g) (n_id p) u (edges_from g (n_id p))).

  Lemma leaf_result g g' pid l : leaf_ok g g' pid l -> result_ok g g' pid (l, [], g_ops g).
  Proof.
    intros (L1 & L2 & L3 & L4 & L5). unfold result_ok. split; [exact L1|]. split; [intros oid es []|].
    split; [exact L3|]. split; [lia|]. split; [exact L4|]. split; [intros x Hx _; apply L2; exact Hx|exact L5].
  Qed.

  (* node tables only grow *)
  Lemma parse_rewrite_prefix u g p g' : parse_rewrite g p m td rel u = Ok g' -> exists more, g_nodes g' = g_nodes g ++ more.
  Proof.
    intros E. apply (I_parse_rewrite (fun x => exists more, g_nodes x = g_nodes g ++ more)) with (u := u) (g := g) (p := p) (m := m) (td := td) (rel := rel).
    - intros g0 id l t [more E0]. destruct (get_or_add_facts g0 id l t) as (_ & _ & [more1 E1] & _). exists (more ++ more1).
      rewrite E1, E0, app_assoc. reflexivity.
    - intros g0 g1 En [more E0]. exists more. rewrite En. exact E0.
    - exists []. rewrite app_nil_r. reflexivity.
    - exact E.
  Qed.

  Lemma parse_children_prefix cs : forall g opn g', parse_children g opn cs = Ok g' -> exists more, g_nodes g' = g_nodes g ++ more.
  Proof.
    induction cs as [|c cs IH]; intros g opn g' E; cbn in E.
    - inversion E; subst. exists []. rewrite app_nil_r. reflexivity.
    - destruct (parse_rewrite g opn m td rel c) as [g1| |] eqn:E1; cbn [obind] in E; try discriminate.
      destruct (parse_rewrite_prefix _ _ _ _ E1) as [m1 P1]. destruct (IH _ _ _ E) as [m2 P2].
      exists (m1 ++ m2). rewrite P2, P1, app_assoc. reflexivity.
  Qed.

  Lemma children_ok cs : Forall shape_spec cs -> forall g opn g' created0,
    parse_children g opn cs = Ok g' ->
    find_node (n_id opn) (g_nodes g) = Some opn -> fresh_ops g -> old_id g (n_id opn) ->
    Forall nonop (flat_map req_ids cs) -> ty_ok ty g' ->
    let '(ol, created, k') := shape_children (g_ops g) (n_id opn) cs (edges_from g (n_id opn)) created0 in
    exists cr, created = created0 ++ cr /\ result_ok g g' (n_id opn) (ol, cr, k').
  Proof.
    induction 1 as [|c cs Hc _ IH]; intros g opn g' created0 E Hp Hf Ho Hn Hty.
    - cbn in E. inversion E; subst g'. cbn [shape_children]. exists []. split; [rewrite app_nil_r; reflexivity|].
      unfold result_ok. split; [reflexivity|]. split; [intros ? ? []|]. split; [reflexivity|]. split; [lia|]. split; [exact Hf|].
      split; [reflexivity|]. exists []. rewrite app_nil_r. reflexivity.
    - cbn [parse_children] in E. destruct (parse_rewrite g opn m td rel c) as [g1| |] eqn:E1; cbn [obind] in E; try discriminate.
      cbn [flat_map] in Hn. apply Forall_app in Hn. destruct Hn as [Hn1 Hn2].
      destruct (parse_children_prefix _ _ _ _ E) as [m2 P2].
      assert (Hty1 : ty_ok ty g1) by (eapply ty_ok_prefix; [exists m2; exact P2|exact Hty]).
      pose proof (Hc g opn g1 E1 Hp Hf Ho Hn1 Hty1) as R1. cbn [shape_children].
      destruct (shape ty td rel (g_ops g) (n_id opn) c (edges_from g (n_id opn))) as [[ol1 cr1] k1].
      destruct R1 as (A1 & A2 & A3 & A4 & A5 & A6 & [m1 A7]).
      assert (Hp1 : find_node (n_id opn) (g_nodes g1) = Some opn) by (rewrite A7, find_node_app, Hp; reflexivity).
      assert (Ho1 : old_id g1 (n_id opn)) by (apply (old_id_mono g); [lia|exact Ho]).
      specialize (IH g1 opn g' (created0 ++ cr1) E Hp1 A5 Ho1 Hn2 Hty). rewrite A3, A1 in IH.
      destruct (shape_children k1 (n_id opn) cs ol1 (created0 ++ cr1)) as [[ol cr] k'].
      destruct IH as (cr2 & Ecr & B1 & B2 & B3 & B4 & B5 & B6 & [m2' B7]).
      exists (cr1 ++ cr2). split; [rewrite Ecr, app_assoc; reflexivity|].
      unfold result_ok. split; [exact B1|]. split.
      + intros oid es Hin. apply in_app_or in Hin. destruct Hin as [Hin|Hin].
        * destruct (A2 oid es Hin) as [Ees (op & j & Hop & Hj & ->)]. split.
          -- rewrite B6; [exact Ees| |apply op_id_old; [exact Hop|lia]].
             intros X. apply (Ho op j Hop ltac:(lia)). symmetry. exact X.
          -- exists op, j. split; [exact Hop|]. split; [lia|reflexivity].
        * destruct (B2 oid es Hin) as [Ees (op & j & Hop & Hj & ->)]. split; [exact Ees|].
          exists op, j. split; [exact Hop|]. split; [lia|reflexivity].
      + split; [exact B3|]. split; [lia|]. split; [exact B5|]. split.
        * intros x Hx Hox. rewrite B6; [apply A6; assumption|exact Hx|apply (old_id_mono g); [lia|exact Hox]].
        * exists (m1 ++ m2'). rewrite B7, A7, app_assoc. reflexivity.
  Qed.

  Lemma operator_ok g p op cs g' :
    In op op_names -> Forall shape_spec cs ->
    parse_operator g p op cs = Ok g' ->
    find_node (n_id p) (g_nodes g) = Some p -> fresh_ops g -> old_id g (n_id p) ->
    Forall nonop (flat_map req_ids cs) -> ty_ok ty g' ->
    result_ok g g' (n_id p) (shape_operator (g_ops g) (n_id p) op cs (edges_from g (n_id p))).
  Proof.
    intros Hop Hcs E Hp Hf Ho Hn Hty. unfold parse_operator, op_node in E.
    set (k := g_ops g) in *. set (oid := op_id op k).
    destruct (Hf op k Hop ltac:(unfold k; lia)) as [Fn Fe]. fold oid in Fn, Fe.
    change (op ++ lit ":" ++ str_of_N k) with oid in E.
    unfold get_or_add_node in E. cbn [g_nodes] in E. rewrite Fn in E.
    set (opn := {| n_id := oid; n_label := op; n_type := NOperator; n_weights := []; n_wild := [] |}) in *.
    set (g1 := {| g_nodes := g_nodes g ++ [opn]; g_edges := g_edges g; g_ops := k + 1 |}) in *.
    set (g2 := add_edge g1 (n_id p) (n_id opn) ERewrite []) in *.
    assert (Hne : n_id p <> oid) by (apply Ho; [exact Hop|unfold k; lia]).
    assert (Eops : g_ops g2 = k + 1) by reflexivity.
    assert (Enodes : g_nodes g2 = g_nodes g ++ [opn]) by reflexivity.
    assert (Hp2 : find_node (n_id opn) (g_nodes g2) = Some opn).
    { change (n_id opn) with oid. rewrite Enodes, find_node_app, Fn. cbn. rewrite str_eqb_refl. reflexivity. }
    assert (Hf2 : fresh_ops g2).
    { intros op' j Hop' Hj. rewrite Eops in Hj. destruct (Hf op' j Hop' ltac:(unfold k in *; lia)) as [F1 F2]. split.
      - rewrite Enodes, find_node_app, F1. cbn. rewrite str_eqb_false; [reflexivity|].
        intros X. apply op_id_inj in X; [|assumption|assumption]. lia.
      - unfold g2. rewrite edges_from_add_edge. rewrite str_eqb_false; [exact F2|].
        intros X. apply (Ho op' j Hop' ltac:(unfold k in *; lia)). symmetry. exact X. }
    assert (Ho2 : old_id g2 (n_id opn)) by (apply op_id_old; [exact Hop|rewrite Eops; lia]).
    assert (Ee2 : edges_from g2 (n_id opn) = []).
    { unfold g2. rewrite edges_from_add_edge. rewrite str_eqb_false by (intros X; apply Hne; symmetry; exact X). exact Fe. }
    pose proof (children_ok cs Hcs g2 opn g' [] E Hp2 Hf2 Ho2 Hn Hty) as R. rewrite Eops, Ee2 in R.
    unfold shape_operator. fold k. change (n_id opn) with oid in R. fold oid.
    destruct (shape_children (k + 1) oid cs [] []) as [[ol created] k'].
    destruct R as (cr & Ecr & B1 & B2 & B3 & B4 & B5 & B6 & [more B7]). cbn [app] in Ecr. subst created.
    rewrite Eops in B4.
    assert (Eself : edges_from g2 (n_id p) = edges_from g (n_id p) ++ [mk_edge (n_id p) oid ERewrite [] no_cond]).
    { unfold g2. rewrite edges_from_add_edge, str_eqb_refl. reflexivity. }
    unfold result_ok. split.
    - rewrite B6; [exact Eself|exact Hne|]. apply (old_id_mono g); [rewrite Eops; unfold k; lia|exact Ho].
    - split.
      + intros oid' es [Heq|Hin].
        * inversion Heq; subst oid' es. split; [exact B1|]. exists op, k. split; [exact Hop|]. split; [unfold k; lia|reflexivity].
        * destruct (B2 oid' es Hin) as [Ees (op' & j & Hop' & Hj & ->)]. split; [exact Ees|].
          exists op', j. split; [exact Hop'|]. split; [rewrite Eops in Hj; unfold k in *; lia|reflexivity].
      + split; [exact B3|]. split; [unfold k in *; lia|]. split; [exact B5|]. split.
        * intros x Hx Hox. assert (Hxo : x <> oid) by (apply Hox; [exact Hop|unfold k; lia]).
          rewrite B6; [|exact Hxo|apply (old_id_mono g); [rewrite Eops; unfold k; lia|exact Hox]].
          unfold g2. rewrite edges_from_add_edge, (str_eqb_false _ _ Hx). reflexivity.
        * exists ([opn] ++ more). rewrite B7, Enodes, app_assoc. reflexivity.
  Qed.

  Theorem parse_rewrite_shape u : shape_spec u.
  Proof.
    induction u as [| r | rel0 | ts cu | cs IH | cs IH | b s IHb IHs] using userset_ind';
      intros g p g' E Hp Hf Ho Hn Hty; rewrite parse_rewrite_op in E; rewrite shape_op.
    - apply (operator_ok g p [] [] g'); auto; [right; right; right; left; reflexivity].
    - inversion E; subst g'. apply leaf_result. apply parse_this_leaf; assumption.
    - inversion E; subst g'. apply leaf_result. cbn [req_ids] in Hn. inversion Hn; subst.
      apply parse_computed_leaf; assumption.
    - apply leaf_result. apply (parse_ttu_leaf g p m td ts cu g' E); assumption.
    - apply (operator_ok g p (lit "union") cs g'); auto. left; reflexivity.
    - apply (operator_ok g p (lit "intersection") cs g'); auto. right; left; reflexivity.
    - apply (operator_ok g p (lit "exclusion") [b; s] g'); auto; [right; right; left; reflexivity|].
      cbn [flat_map]. rewrite app_nil_r. exact Hn.
  Qed.
End Main.

(* ---------------------------------------------------------------------------------------- *)
(* 5. all relations of all types                                                             *)
(* ---------------------------------------------------------------------------------------- *)
Definition relid (p : typedef * str) : str := td_name (fst p) ++ lit "#" ++ snd p.
Definition rewrite_of (td : typedef) (r : str) : userset := match assoc r (td_rels td) with Some u => u | None => UUnset end.

(* the relation has been built: its edges and those of its operator nodes are the dictated ones *)
Definition rel_ok (ty : str -> ntype) (g : wgraph) (p : typedef * str) : Prop :=
  exists k, let '(l, created, k') := shape ty (fst p) (snd p) k (relid p) (rewrite_of (fst p) (snd p)) [] in
            edges_from g (relid p) = l /\ (forall oid es, In (oid, es) created -> edges_from g oid = es) /\
            k' <= g_ops g /\
            (forall oid es, In (oid, es) created -> exists op j, In op op_names /\ j < k' /\ oid = op_id op j).

Record G (ty : str -> ntype) (g : wgraph) (built : list (typedef * str)) : Prop := {
  G_fresh : fresh_ops g;
  G_rel : forall p, In p built -> rel_ok ty g p /\ nonop (relid p);
  G_empty : forall id, nonop id -> ~ In id (map relid built) -> edges_from g id = [] }.

Lemma G_get_or_add ty g built id lab t : nonop id -> G ty g built -> G ty (fst (get_or_add_node g id lab t)) built.
Proof.
  intros Hn [F R Z]. destruct (get_or_add_facts g id lab t) as (_ & _ & _ & Eo & Ee & _ & _).
  constructor.
  - apply fresh_get_or_add; assumption.
  - intros p Hp. destruct (R p Hp) as [[k Hk] Hnp]. split; [|exact Hnp]. exists k.
    destruct (shape ty (fst p) (snd p) k (relid p) (rewrite_of (fst p) (snd p)) []) as [[l created] k'].
    destruct Hk as (A & B & C & D). split; [rewrite (edges_from_same_edges _ _ _ Ee); exact A|].
    split; [intros oid es Hin; rewrite (edges_from_same_edges _ _ _ Ee); apply B; exact Hin|]. split; [rewrite Eo; exact C|exact D].
  - intros id' Hn' Hnot. rewrite (edges_from_same_edges _ _ _ Ee). apply Z; assumption.
Qed.

Lemma nodup_app_l {A} (a b : list A) : NoDup (a ++ b) -> NoDup a.
Proof. induction a as [|x a IH]; intros H; [constructor|]. inversion H; subst. constructor; [intros X; apply H2; apply in_or_app; left; exact X|auto]. Qed.

Section Assembly.
  Variable ty : str -> ntype.
  Variable m : model.

  Lemma build_relations_prefix td names : forall g g', build_relations g m td names = Ok g' -> exists more, g_nodes g' = g_nodes g ++ more.
  Proof.
    intros g g' E. apply (I_build_relations (fun x => exists more, g_nodes x = g_nodes g ++ more)) with (names := names) (g := g) (m := m) (td := td).
    - intros g0 id l t [more E0]. destruct (get_or_add_facts g0 id l t) as (_ & _ & [more1 E1] & _). exists (more ++ more1).
      rewrite E1, E0, app_assoc. reflexivity.
    - intros g0 g1 En [more E0]. exists more. rewrite En. exact E0.
    - exists []. rewrite app_nil_r. reflexivity.
    - exact E.
  Qed.

  Lemma build_types_prefix tds : forall g g', build_types g m tds = Ok g' -> exists more, g_nodes g' = g_nodes g ++ more.
  Proof.
    intros g g' E. apply (I_build_types (fun x => exists more, g_nodes x = g_nodes g ++ more)) with (tds := tds) (g := g) (m := m).
    - intros g0 id l t [more E0]. destruct (get_or_add_facts g0 id l t) as (_ & _ & [more1 E1] & _). exists (more ++ more1).
      rewrite E1, E0, app_assoc. reflexivity.
    - intros g0 g1 En [more E0]. exists more. rewrite En. exact E0.
    - exists []. rewrite app_nil_r. reflexivity.
    - exact E.
  Qed.

  (* one relation *)
  Lemma build_one td r g built g1 p g' :
    get_or_add_node g (relid (td, r)) (relid (td, r)) NTypeRel = (g1, p) ->
    parse_rewrite g1 p m td r (rewrite_of td r) = Ok g' ->
    G ty g built -> ~ In (relid (td, r)) (map relid built) -> nonop (relid (td, r)) ->
    Forall nonop (req_ids td r (rewrite_of td r)) -> ty_ok ty g' ->
    G ty g' (built ++ [(td, r)]).
  Proof.
    intros Ea Ep HG Hnew Hnid Hreq Hty. pose proof (G_get_or_add ty g built _ (relid (td, r)) NTypeRel Hnid HG) as HG1.
    destruct (get_or_add_facts g (relid (td, r)) (relid (td, r)) NTypeRel) as (Efind & Eid & _ & _ & _ & _ & _).
    rewrite Ea in HG1, Efind, Eid. cbn [fst snd] in *. destruct HG1 as [F R Z].
    assert (Hp : find_node (n_id p) (g_nodes g1) = Some p) by (rewrite Eid; exact Efind).
    pose proof (parse_rewrite_shape ty m td r (rewrite_of td r) g1 p g' Ep Hp F
                  ltac:(rewrite Eid; apply nonop_old; exact Hnid) Hreq Hty) as Res.
    rewrite Eid, (Z _ Hnid Hnew) in Res.
    destruct (shape ty td r (g_ops g1) (relid (td, r)) (rewrite_of td r) []) as [[l created] k'] eqn:Es.
    destruct Res as (A1 & A2 & A3 & A4 & A5 & A6 & A7).
    constructor.
    - exact A5.
    - intros q Hq. apply in_app_or in Hq. destruct Hq as [Hq|[<-|[]]].
      + destruct (R q Hq) as [[k Hk] Hnq]. split; [|exact Hnq]. exists k.
        destruct (shape ty (fst q) (snd q) k (relid q) (rewrite_of (fst q) (snd q)) []) as [[lq cq] kq].
        destruct Hk as (B1 & B2 & B3 & B4).
        assert (Hqid : relid q <> relid (td, r)) by (intros X; apply Hnew; rewrite <- X; apply in_map; exact Hq).
        split; [rewrite A6; [exact B1|exact Hqid|apply nonop_old; exact Hnq]|].
        split; [|split; [lia|exact B4]].
        intros oid es Hin. destruct (B4 oid es Hin) as (op & j & Hop & Hj & ->).
        rewrite A6; [apply B2; exact Hin| |apply op_id_old; [exact Hop|lia]].
        intros X. unfold nonop in Hnid. rewrite <- X, is_op_id_op_id in Hnid by exact Hop. discriminate.
      + split; [|exact Hnid]. exists (g_ops g1). cbn [fst snd]. rewrite Es. split; [exact A1|]. split; [intros oid es Hin; apply (A2 oid es Hin)|].
        split; [lia|]. intros oid es Hin. destruct (A2 oid es Hin) as [_ (op & j & Hop & Hj & ->)]. exists op, j. split; [exact Hop|]. split; [lia|reflexivity].
    - intros id Hn Hnot. rewrite map_app in Hnot. cbn [map] in Hnot.
      rewrite A6; [apply Z; [exact Hn|]| |apply nonop_old; exact Hn].
      + intros X. apply Hnot. apply in_or_app. left. exact X.
      + intros X. apply Hnot. apply in_or_app. right. left. symmetry. exact X.
  Qed.

  Lemma build_relations_G td : forall names g built g',
    build_relations g m td names = Ok g' -> G ty g built ->
    NoDup (map relid built ++ map (fun r => relid (td, r)) names) ->
    (forall r, In r names -> nonop (relid (td, r)) /\ Forall nonop (req_ids td r (rewrite_of td r))) ->
    ty_ok ty g' -> G ty g' (built ++ map (pair td) names).
  Proof.
    induction names as [|r names IH]; intros g built g' E HG Hnd Hnon Hty.
    - cbn in E. inversion E; subst. cbn. rewrite app_nil_r. exact HG.
    - cbn [build_relations] in E.
      destruct (get_or_add_node g (td_name td ++ lit "#" ++ r) (td_name td ++ lit "#" ++ r) NTypeRel) as [g1 p] eqn:Ea.
      change (match assoc r (td_rels td) with Some u => u | None => UUnset end) with (rewrite_of td r) in E.
      destruct (parse_rewrite g1 p m td r (rewrite_of td r)) as [g2| |] eqn:Ep; cbn [obind] in E; try discriminate.
      destruct (Hnon r (or_introl eq_refl)) as [Hn1 Hn2].
      destruct (build_relations_prefix td names g2 g' E) as [more P].
      cbn [map] in Hnd.
      assert (HG2 : G ty g2 (built ++ [(td, r)])).
      { apply (build_one td r g built g1 p g2 Ea Ep HG); [|exact Hn1|exact Hn2|eapply ty_ok_prefix; [exists more; exact P|exact Hty]].
        intros X. apply (NoDup_remove_2 _ _ _ Hnd). apply in_or_app. left. exact X. }
      cbn [map]. replace (built ++ (td, r) :: map (pair td) names) with ((built ++ [(td, r)]) ++ map (pair td) names)
        by (rewrite <- app_assoc; reflexivity).
      apply (IH g2 (built ++ [(td, r)]) g' E HG2); [|intros r' Hr'; apply Hnon; right; exact Hr'|exact Hty].
      rewrite map_app, <- app_assoc. exact Hnd.
  Qed.

  Definition sorted_rels (td : typedef) : list str := stable_sort str_compare (keys (td_rels td)).

  Lemma build_types_G : forall tds g built g',
    build_types g m tds = Ok g' -> G ty g built ->
    NoDup (map relid built ++ flat_map (fun td => map (fun r => relid (td, r)) (sorted_rels td)) tds) ->
    (forall td, In td tds -> nonop (td_name td) /\
       forall r, In r (sorted_rels td) -> nonop (relid (td, r)) /\ Forall nonop (req_ids td r (rewrite_of td r))) ->
    ty_ok ty g' -> G ty g' (built ++ flat_map (fun td => map (pair td) (sorted_rels td)) tds).
  Proof.
    induction tds as [|td tds IH]; intros g built g' E HG Hnd Hnon Hty.
    - cbn in E. inversion E; subst. cbn. rewrite app_nil_r. exact HG.
    - cbn [build_types] in E.
      destruct (get_or_add_node g (td_name td) (td_name td) NType) as [g1 tn] eqn:Ea.
      fold (sorted_rels td) in E.
      destruct (build_relations g1 m td (sorted_rels td)) as [g2| |] eqn:Er; cbn [obind] in E; try discriminate.
      destruct (Hnon td (or_introl eq_refl)) as [Hn1 Hn2].
      destruct (build_types_prefix tds g2 g' E) as [more P].
      cbn [flat_map] in Hnd. rewrite app_assoc in Hnd.
      assert (HG1 : G ty g1 built).
      { pose proof (G_get_or_add ty g built (td_name td) (td_name td) NType Hn1 HG) as X. rewrite Ea in X. exact X. }
      assert (HG2 : G ty g2 (built ++ map (pair td) (sorted_rels td))).
      { apply (build_relations_G td (sorted_rels td) g1 built g2 Er HG1); [|exact Hn2|eapply ty_ok_prefix; [exists more; exact P|exact Hty]].
        apply (nodup_app_l _ _ Hnd). }
      cbn [flat_map]. rewrite app_assoc.
      apply (IH g2 _ g' E HG2); [|intros td' Htd'; apply Hnon; right; exact Htd'|exact Hty].
      rewrite map_app, map_map. cbn [relid fst snd]. exact Hnd.
  Qed.
End Assembly.

(* ---------------------------------------------------------------------------------------- *)
(* 6. the theorem                                                                            *)
(* ---------------------------------------------------------------------------------------- *)
Lemma nodupb_str_sound l : nodupb_str l = true -> NoDup l.
Proof.
  induction l as [|x l IH]; cbn; intros H; [constructor|]. apply andb_true_iff in H. destruct H as [H1 H2].
  constructor; [|auto]. intros Hin. apply mem_str_in in Hin. rewrite Hin in H1. discriminate.
Qed.

Lemma perm_flat_map' {A B} (f : A -> list B) l l' : Permutation l l' -> Permutation (flat_map f l) (flat_map f l').
Proof.
  induction 1; cbn; [constructor|apply Permutation_app_head; assumption| |eapply Permutation_trans; eauto].
  rewrite !app_assoc. apply Permutation_app_tail. apply Permutation_app_comm.
Qed.
Lemma perm_flat_map_ext {A B} (f g : A -> list B) l : (forall x, Permutation (f x) (g x)) -> Permutation (flat_map f l) (flat_map g l).
Proof. intros H. induction l as [|x l IH]; cbn; [constructor|]. apply Permutation_app; auto. Qed.

Lemma assoc_some_in' {A} k (v : A) l : assoc k l = Some v -> In (k, v) l.
Proof.
  induction l as [|[k0 v0] l IH]; cbn; [discriminate|]. destruct (str_eqb_spec k k0) as [->|_]; [intros H; inversion H; left; reflexivity|].
  intros H. right. apply IH. exact H.
Qed.

Lemma req_ids_named td r u x :
  In x (req_ids td r u) -> In x (map ref_id (rm_types_of (assoc r (td_meta_rels td)))) \/ In x (rewrite_targets td u).
Proof.
  induction u as [| r0 | rel0 | ts cu | cs IH | cs IH | b s IHb IHs] using userset_ind'; cbn [req_ids rewrite_targets]; intros H.
  - destruct H.
  - left. exact H.
  - right. exact H.
  - right. exact H.
  - apply in_flat_map in H. destruct H as [c [Hc Hx]]. rewrite Forall_forall in IH. destruct (IH c Hc Hx) as [L|R]; [left; exact L|].
    right. apply in_flat_map. exists c. split; assumption.
  - apply in_flat_map in H. destruct H as [c [Hc Hx]]. rewrite Forall_forall in IH. destruct (IH c Hc Hx) as [L|R]; [left; exact L|].
    right. apply in_flat_map. exists c. split; assumption.
  - apply in_app_or in H. destruct H as [H|H]; [destruct (IHb H) as [L|R]|destruct (IHs H) as [L|R]]; auto;
      right; apply in_or_app; auto.
Qed.

Definition ty_of (g : wgraph) (id : str) : ntype := n_type (node_of g id).

(* THE STRUCTURE of the built graph: for every relation of every type, the edges filed under "type#relation" and
   under each operator node created for it are the lists the rewrite dictates (operands in source order, the
   subtract operand of an exclusion last, one direct edge per distinct target with its conditions in first-occurrence
   order, one tuple-to-userset edge per parent type labelled "type#tupleset", computed/rewrite edges by the kinds of
   their end points), numbered from some operator number k *)
Theorem wbuild_shape m g :
  wbuild m = Ok g -> shape_domain m = true ->
  forall td r u, In td (m_types m) -> assoc r (td_rels td) = Some u ->
  exists k, let '(l, created, k') := shape (ty_of g) td r k (td_name td ++ lit "#" ++ r) u [] in
            edges_from g (td_name td ++ lit "#" ++ r) = l /\
            (forall oid es, In (oid, es) created -> edges_from g oid = es) /\ k' <= g_ops g.
Proof.
  intros E Hdom td r u Htd Hu. unfold shape_domain in Hdom. apply andb_true_iff in Hdom. destruct Hdom as [Hnd Hnamed].
  apply nodupb_str_sound in Hnd. rewrite forallb_forall in Hnamed.
  assert (Hnon : forall id, In id (named_ids m) -> nonop id).
  { intros id Hin. specialize (Hnamed id Hin). unfold nonop. destruct (is_op_id id); [discriminate|reflexivity]. }
  set (tds := stable_sort td_cmp (m_types m)).
  assert (Ptds : Permutation (m_types m) tds) by apply stable_sort_perm.
  assert (Hty : ty_ok (ty_of g) g).
  { intros id n Hf. unfold ty_of, node_of. rewrite Hf. reflexivity. }
  assert (HG0 : G (ty_of g) empty_graph []).
  { constructor; [intros op j _ _; split; reflexivity|intros p []|intros; reflexivity]. }
  assert (Hperm : Permutation (flat_map (fun td => map (fun r => relid (td, r)) (sorted_rels td)) tds) (rel_ids m)).
  { unfold rel_ids. eapply Permutation_trans; [apply perm_flat_map'; apply Permutation_sym; exact Ptds|].
    apply perm_flat_map_ext. intros t. apply Permutation_map. apply Permutation_sym. apply stable_sort_perm. }
  unfold wbuild in E. fold tds in E.
  pose proof (build_types_G (ty_of g) m tds empty_graph [] g E HG0) as HG. cbn [map app] in HG.
  assert (HGf : G (ty_of g) g (flat_map (fun td => map (pair td) (sorted_rels td)) tds)).
  { apply HG; [apply (Permutation_NoDup (Permutation_sym Hperm)); exact Hnd| |exact Hty].
    intros t Ht. assert (Ht' : In t (m_types m)) by (apply (Permutation_in t (Permutation_sym Ptds)); exact Ht).
    split.
    - apply Hnon. unfold named_ids. apply in_or_app. left. apply in_map. exact Ht'.
    - intros r0 Hr0. assert (Hr0' : In r0 (keys (td_rels t))) by (apply (Permutation_in r0 (Permutation_sym (stable_sort_perm str_compare _))); exact Hr0).
      split.
      + apply Hnon. unfold named_ids. apply in_or_app. right. apply in_or_app. left. unfold rel_ids. apply in_flat_map.
        exists t. split; [exact Ht'|]. apply in_map_iff. exists r0. split; [reflexivity|exact Hr0'].
      + apply Forall_forall. intros x Hx. apply Hnon. unfold named_ids. apply in_or_app. right. apply in_or_app. right.
        destruct (req_ids_named t r0 (rewrite_of t r0) x Hx) as [L|R].
        * apply in_or_app. left. apply in_flat_map. exists t. split; [exact Ht'|].
          unfold rm_types_of in L. destruct (assoc r0 (td_meta_rels t)) as [rm|] eqn:Em; [|destruct L].
          apply in_flat_map. exists (r0, rm). split; [apply assoc_some_in'; exact Em|exact L].
        * apply in_or_app. right. apply in_flat_map. exists t. split; [exact Ht'|].
          unfold rewrite_of in R. destruct (assoc r0 (td_rels t)) as [u0|] eqn:Eu; [|destruct R].
          apply in_flat_map. exists (r0, u0). split; [apply assoc_some_in'; exact Eu|exact R]. }
  assert (Hin : In (td, r) (flat_map (fun td => map (pair td) (sorted_rels td)) tds)).
  { apply in_flat_map. exists td. split; [apply (Permutation_in td Ptds); exact Htd|]. apply in_map.
    apply (Permutation_in r (stable_sort_perm str_compare _)). unfold keys. apply in_map_iff. exists (r, u).
    split; [reflexivity|apply assoc_some_in'; exact Hu]. }
  destruct (G_rel _ _ _ HGf (td, r) Hin) as [[k Hk] _]. exists k. unfold relid in Hk. cbn [fst snd] in Hk.
  unfold rewrite_of in Hk. rewrite Hu in Hk.
  destruct (shape (ty_of g) td r k (td_name td ++ lit "#" ++ r) u []) as [[l created] k'].
  destruct Hk as (A & B & C & _). split; [exact A|]. split; [exact B|exact C].
Qed.

(* Proofs/MergeWf.v — what the parser delivers for a module file satisfies the well-formedness the merge theorems
   assume (no nil metadata, every relation of a type declared once with its metadata): with distinct file names,
   [wf_modules] holds for EVERY list of files — the merge theorems need no hypothesis about the parser. *)
From Coq Require Import Permutation.
From Verif Require Import Base.Str Base.Outcome Model.Ast Model.Token Model.Lexer Model.Parser Model.Listener Model.Printer
  Model.Transform Model.LineNumbers Model.Merge Spec.Sem Spec.MergeSpec
  Proofs.ListenerSem Proofs.ListenerFile Proofs.ParserShape Proofs.ParserTokens Proofs.TotalityProofs Proofs.SortFacts Proofs.MergeIff.

(* the model of an accepted document is the denotation of a grammatical tree in which nothing is declared twice *)
Lemma accepted_is_sem d m exts md :
  dsl_to_model d = DOk m exts md ->
  exists f, wf_file f /\ distinct_decls f /\ m = sem_file f /\ ttext (header_tok (f_header f)) <> [].
Proof.
  unfold dsl_to_model. destruct (lex (prepass d)) as [ts es] eqn:El. destruct es; [|discriminate].
  unfold parse_walk. destruct (parse ts) as [f|] eqn:Ep; [|discriminate].
  destruct (walk f) as [s| |] eqn:Ew; try discriminate. destruct (ls_errs s) eqn:Ee; [|discriminate].
  intros H. inversion H; subst. exists f.
  assert (Hn := accepted_names_nonempty (prepass d) f). rewrite El in Hn. cbn [fst] in Hn. destruct (Hn Ep) as [Hh Ht].
  pose proof (parse_wf ts f Ep) as Hwf.
  assert (Hd : distinct_decls f) by (apply (walk_accepts_only_distinct f s Hwf Ht Ew Ee)).
  destruct (walk_is_sem f Hwf Hd) as (s' & Ew' & _ & Em). rewrite Ew in Ew'. inversion Ew'; subst s'.
  split; [exact Hwf|]. split; [exact Hd|]. split; [|exact Hh]. unfold model_of in Em. unfold model_of. exact Em.
Qed.

Lemma keys_map_pair {A B} (f : A -> str) (g : A -> B) l : keys (map (fun x => (f x, g x)) l) = map f l.
Proof. unfold keys. rewrite map_map. reflexivity. Qed.

Lemma assoc_map_some {A B} (f : A -> str) (g : A -> B) l n : In n (map f l) -> assoc n (map (fun x => (f x, g x)) l) <> None.
Proof.
  induction l as [|x l IH]; cbn; [tauto|]. destruct (str_eqb_spec n (f x)) as [->|Hne]; [discriminate|].
  intros [E|Hin]; [congruence|]. apply IH. exact Hin.
Qed.

(* every type and condition of a parsed MODULE file *)
Theorem parsed_module_wf f m exts :
  module_of f = Some (m, exts) ->
  Forall (fun td => td_meta td <> None /\ NoDup (keys (td_rels td)) /\
                    forall n, In n (keys (td_rels td)) -> assoc n (td_meta_rels td) <> None /\ assoc n (td_rels td) <> None) (m_types m) /\
  Forall (fun p : str * condition => c_meta (snd p) <> None) (m_conds m).
Proof.
  unfold module_of. destruct (dsl_to_model (mf_text f)) as [m0 exts0 md| | |] eqn:E; try discriminate.
  destruct (is_empty (m_schema m0)) eqn:Es; [|discriminate]. intros H. inversion H; subst m0 exts0. clear H.
  destruct (accepted_is_sem _ _ _ _ E) as (ft & Hwf & Hd & -> & Hh).
  assert (Hmod : header_modular (f_header ft) = true).
  { unfold sem_file in Es. cbn [m_schema] in Es. destruct (f_header ft) as [v|n]; [|reflexivity].
    cbn in Es, Hh. destruct (ttext v); [contradiction|discriminate]. }
  destruct Hd as (Hrel & _). unfold sem_file. cbn [m_types m_conds]. rewrite Hmod. split.
  - apply Forall_forall. intros td Htd. apply in_map_iff in Htd. destruct Htd as [t [<- Hin]].
    rewrite Forall_forall in Hrel. specialize (Hrel t Hin). unfold sem_type. cbn [td_meta td_rels].
    split; [discriminate|]. rewrite (keys_map_pair (fun r => ttext (rl_name r))). split; [exact Hrel|].
    intros n Hn. unfold td_meta_rels. cbn [td_meta tm_rels td_rels]. split; apply assoc_map_some; exact Hn.
  - apply Forall_forall. intros p Hp. apply in_map_iff in Hp. destruct Hp as [c [<- _]]. unfold sem_cond. cbn. discriminate.
Qed.

Lemma ct_defs_in exts tds i td : In td (ct_defs exts tds i) -> In td tds.
Proof. revert i. induction tds as [|t tds IH]; intros i H; cbn in H; [exact H|]. destruct (is_ext exts i t); [right; eauto|destruct H; [left; auto|right; eauto]]. Qed.
Lemma ct_exts_in exts tds i td : In td (ct_exts exts tds i) -> In td tds.
Proof. revert i. induction tds as [|t tds IH]; intros i H; cbn in H; [exact H|]. destruct (is_ext exts i t); [destruct H; [left; auto|right; eauto]|right; eauto]. Qed.
Lemma in_sorted_conds {A} (cmp : A -> A -> comparison) l x : In x (stable_sort cmp l) -> In x l.
Proof. intros H. apply (Permutation_in x (Permutation_sym (stable_sort_perm cmp l))). exact H. Qed.

Theorem wf_modules_of_parsed fs : NoDup (map mf_name fs) -> wf_modules fs.
Proof.
  intros Hn.
  assert (Hall : forall f td, In f fs -> In td (file_defs f) \/ In td (file_exts f) ->
            td_meta td <> None /\ NoDup (keys (td_rels td)) /\
            forall n, In n (keys (td_rels td)) -> assoc n (td_meta_rels td) <> None /\ assoc n (td_rels td) <> None).
  { intros f td _ Hin. unfold file_defs, file_exts in Hin. destruct (module_of f) as [[m exts]|] eqn:Em; [|destruct Hin as [[]|[]]].
    destruct (parsed_module_wf f m exts Em) as [Ht _]. rewrite Forall_forall in Ht. apply Ht.
    destruct Hin as [H|H]; [eapply ct_defs_in|eapply ct_exts_in]; eauto. }
  constructor.
  - exact Hn.
  - apply Forall_forall. intros td Htd. unfold defs_of in Htd. apply in_flat_map in Htd. destruct Htd as [f [Hf Hin]]. apply (Hall f td Hf). left. exact Hin.
  - apply Forall_forall. intros p Hp. unfold conds_of in Hp. apply in_flat_map in Hp. destruct Hp as [f [Hf Hin]].
    unfold file_conds in Hin. destruct (module_of f) as [[m exts]|] eqn:Em; [|destruct Hin].
    destruct (parsed_module_wf f m exts Em) as [_ Hc]. rewrite Forall_forall in Hc. apply Hc. eapply in_sorted_conds; eauto.
  - apply Forall_forall. intros td Htd. unfold exts_of in Htd. apply in_flat_map in Htd. destruct Htd as [f [Hf Hin]].
    destruct (Hall f td Hf (or_intror Hin)) as (_ & _ & H). exact H.
  - apply Forall_forall. intros td Htd. apply in_app_or in Htd. destruct Htd as [Htd|Htd].
    + unfold defs_of in Htd. apply in_flat_map in Htd. destruct Htd as [f [Hf Hin]]. apply (Hall f td Hf). left. exact Hin.
    + unfold exts_of in Htd. apply in_flat_map in Htd. destruct Htd as [f [Hf Hin]]. apply (Hall f td Hf). right. exact Hin.
Qed.

(* the merge theorems without any hypothesis about the parser *)
Theorem merge_ok_iff_unconditional fs v :
  NoDup (map mf_name fs) -> ((exists m, merge fs v = Ok m) <-> conflict_free fs).
Proof. intros H. apply merge_ok_iff. apply wf_modules_of_parsed. exact H. Qed.

Theorem merge_total_unconditional fs v : NoDup (map mf_name fs) -> is_panic (merge fs v) = false.
Proof.
  intros H. apply merge_total; [intros f _; apply dsl_to_model_no_panic|apply wf_modules_of_parsed; exact H].
Qed.

Theorem merge_order_unconditional fs fs' v :
  NoDup (map mf_name fs) -> Permutation fs fs' -> ((exists m, merge fs v = Ok m) <-> (exists m', merge fs' v = Ok m')).
Proof. intros H Hp. apply merge_success_order_independent; [apply wf_modules_of_parsed; exact H|exact Hp]. Qed.

(* ---- the content of the merged model and its independence of the file order, for every list of files
        with distinct names (Proofs/MergeContent.v without the hypothesis about the parser) ---- *)
From Verif Require Import Spec.MergeObs Proofs.MergeContent.

Theorem merge_content_unconditional fs v m :
  NoDup (map mf_name fs) -> merge fs v = Ok m ->
  (forall f td r u, In f fs -> In td (file_defs f) -> assoc r (td_rels td) = Some u ->
     rel_body (m_types m) (td_name td) r = Some u /\ rel_attr (m_types m) (td_name td) r = assoc r (td_meta_rels td)) /\
  (forall f td r u, In f fs -> In td (file_exts f) -> assoc r (td_rels td) = Some u ->
     rel_body (m_types m) (td_name td) r = Some u /\
     rel_attr (m_types m) (td_name td) r = option_map (with_rel_file (mf_name f)) (assoc r (td_meta_rels td))) /\
  (forall f td, In f fs -> In td (file_defs f) -> type_attr (m_types m) (td_name td) = Some (td_module td, mf_name f)) /\
  (forall T r u, rel_body (m_types m) T r = Some u ->
     exists f td, In f fs /\ In td (file_defs f ++ file_exts f) /\ td_name td = T /\ assoc r (td_rels td) = Some u).
Proof. intros H. apply merge_content. apply wf_modules_of_parsed. exact H. Qed.

Theorem merge_content_order_unconditional fs fs' v m m' :
  NoDup (map mf_name fs) -> Permutation fs fs' -> merge fs v = Ok m -> merge fs' v = Ok m' ->
  m_schema m = m_schema m' /\
  Permutation (map td_name (m_types m)) (map td_name (m_types m')) /\
  (forall T, type_attr (m_types m) T = type_attr (m_types m') T) /\
  (forall T r, rel_body (m_types m) T r = rel_body (m_types m') T r /\
               (rel_body (m_types m) T r <> None -> rel_attr (m_types m) T r = rel_attr (m_types m') T r)) /\
  (forall n, assoc n (m_conds m) = assoc n (m_conds m')).
Proof. intros H. apply merge_content_order_independent. apply wf_modules_of_parsed. exact H. Qed.

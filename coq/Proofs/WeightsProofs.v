(* Proofs/WeightsProofs.v — weight assignment: totality, independence of the order in which the model
   presents its types and relations, the algebra of the three strategies, and the refutation witnesses
   (C04, C05, C06). *)
From Coq Require Import Permutation.
From Verif Require Import Base.Str Base.Outcome Model.Ast Model.Printer Model.WGraph Model.WWeights
  Spec.Weights Proofs.SortFacts Proofs.PrinterCanonical Proofs.WGraphProofs.

(* ---- never a panic ---- *)
Lemma assign_loop_no_panic fuel order : forall s, is_panic (assign_loop fuel order s) = false.
Proof.
  induction order as [|id order IH]; intros s; simpl; [reflexivity|].
  destruct (mem_str id (ws_visited s)); [apply IH|].
  destruct (calc_node fuel id [] s) as [[tcs err] s']. destruct err; [reflexivity|]. destruct tcs; [apply IH|reflexivity].
Qed.

Theorem assign_weights_no_panic order g : is_panic (assign_weights order g) = false.
Proof.
  unfold assign_weights. pose proof (assign_loop_no_panic (2 * length (g_nodes g) + 2) order {| ws_g := g; ws_visited := []; ws_deps := [] |}) as H.
  destruct (assign_loop _ _ _); simpl in *; auto.
Qed.

Theorem build_weighted_no_panic o m : is_panic (build_weighted o m) = false.
Proof.
  unfold build_weighted. pose proof (wbuild_no_panic m) as H. destruct (wbuild m) as [g| |]; simpl in *; auto.
  apply assign_weights_no_panic.
Qed.

(* ---- the unweighted graph does not depend on the order of the type definitions / relation maps ---- *)
Lemma td_cmp_canonical ts ts' :
  NoDup (map td_name ts) -> Permutation ts ts' -> stable_sort td_cmp ts = stable_sort td_cmp ts'.
Proof.
  intros Hnd Hp.
  assert (inj : forall a b, In a ts -> In b ts -> a <> b -> td_name a <> td_name b).
  { clear Hp. induction ts as [|x ts IH]; simpl; intros a b Ha Hb Hab; [contradiction|].
    inversion Hnd as [|? ? Hx Hnd']; subst.
    destruct Ha as [->|Ha], Hb as [->|Hb].
    - contradiction.
    - intros E. apply Hx. rewrite E. apply in_map; auto.
    - intros E. apply Hx. rewrite <- E. apply in_map; auto.
    - apply IH; auto. }
  apply (stable_sort_canonical td_cmp (fun x => In x ts)); auto.
  - intros a b c _ _ _. apply str_compare_trans.
  - intros a b Ha Hb Hab. apply str_compare_total. apply inj; auto.
  - intros a b _ _. apply str_compare_asym.
  - apply Forall_forall; auto.
  - eapply NoDup_map_inv; eauto.
Qed.

Theorem wbuild_type_perm (m : model) ts' :
  NoDup (map td_name (m_types m)) -> Permutation (m_types m) ts' ->
  (forall ty rel, type_and_relation_exists m ty rel = type_and_relation_exists {| m_schema := m_schema m; m_types := ts'; m_conds := m_conds m |} ty rel) /\
  stable_sort td_cmp (m_types m) = stable_sort td_cmp ts'.
Proof.
  intros Hnd Hp. split; [|apply td_cmp_canonical; auto].
  intros ty rel. unfold type_and_relation_exists; simpl. apply existsb_perm. exact Hp.
Qed.

(* the builder looks at the model as a whole only through type_and_relation_exists *)
Section ModelExt.
  Variables m m' : model.
  Hypothesis Hext : forall ty rel, type_and_relation_exists m ty rel = type_and_relation_exists m' ty rel.

  Lemma parse_ttu_refs_ext refs : forall g p td ts cu, parse_ttu_refs g p m td ts cu refs = parse_ttu_refs g p m' td ts cu refs.
  Proof.
    induction refs as [|r refs IH]; intros; simpl; [reflexivity|]. rewrite Hext.
    destruct (negb _); [reflexivity|]. destruct (get_or_add_node _ _ _ _). apply IH.
  Qed.

  Definition ext_spec (c : userset) : Prop := forall g p td rel, parse_rewrite g p m td rel c = parse_rewrite g p m' td rel c.

  Lemma ext_operator g p td rel op cs :
    Forall ext_spec cs ->
    (let '(g1, opn) := op_node g op in
     let g2 := add_edge g1 (n_id p) (n_id opn) ERewrite [] in
     (fix children (g : wgraph) (opn : wnode) (cs : list userset) : outcome wgraph werr :=
        match cs with
        | [] => Ok g
        | c :: r => obind (parse_rewrite g opn m td rel c) (fun g => children g opn r)
        end) g2 opn cs) =
    (let '(g1, opn) := op_node g op in
     let g2 := add_edge g1 (n_id p) (n_id opn) ERewrite [] in
     (fix children (g : wgraph) (opn : wnode) (cs : list userset) : outcome wgraph werr :=
        match cs with
        | [] => Ok g
        | c :: r => obind (parse_rewrite g opn m' td rel c) (fun g => children g opn r)
        end) g2 opn cs).
  Proof.
    intros Hcs. destruct (op_node g op) as [g1 n]. generalize (add_edge g1 (n_id p) (n_id n) ERewrite []).
    induction Hcs as [|c cs Hc _ IHcs]; intros g2; [reflexivity|].
    cbn [obind]. change ((fix children (g0 : wgraph) (opn : wnode) (cs0 : list userset) {struct cs0} : outcome wgraph werr :=
                            match cs0 with
                            | [] => Ok g0
                            | c0 :: r => obind (parse_rewrite g0 opn m td rel c0) (fun g1 => children g1 opn r)
                            end) g2 n (c :: cs))
      with (obind (parse_rewrite g2 n m td rel c)
                  (fun g1 => (fix children (g0 : wgraph) (opn : wnode) (cs0 : list userset) {struct cs0} : outcome wgraph werr :=
                                match cs0 with
                                | [] => Ok g0
                                | c0 :: r => obind (parse_rewrite g0 opn m td rel c0) (fun g1 => children g1 opn r)
                                end) g1 n cs)).
    rewrite Hc. destruct (parse_rewrite g2 n m' td rel c); simpl; auto.
  Qed.

  Theorem parse_rewrite_ext u : ext_spec u.
  Proof.
    induction u as [| r | rel0 | ts cu | cs IH | cs IH | b s IHb IHs] using userset_ind'; intros g p td rel.
    - reflexivity.
    - reflexivity.
    - reflexivity.
    - simpl. unfold parse_ttu. destruct (assoc ts (td_meta_rels td)); [|reflexivity].
      destruct (rm_types r); [reflexivity|]. apply parse_ttu_refs_ext.
    - apply (ext_operator g p td rel (lit "union") cs IH).
    - apply (ext_operator g p td rel (lit "intersection") cs IH).
    - apply (ext_operator g p td rel (lit "exclusion") [b; s]). repeat constructor; assumption.
  Qed.

  Lemma build_relations_ext names : forall g td, build_relations g m td names = build_relations g m' td names.
  Proof.
    induction names as [|n names IH]; intros; simpl; [reflexivity|]. destruct (get_or_add_node _ _ _ _).
    rewrite parse_rewrite_ext. destruct (parse_rewrite _ _ m' _ _ _); simpl; auto.
  Qed.

  Lemma build_types_ext tds : forall g, build_types g m tds = build_types g m' tds.
  Proof.
    induction tds as [|td tds IH]; intros; simpl; [reflexivity|]. destruct (get_or_add_node _ _ _ _).
    rewrite build_relations_ext. destruct (build_relations _ m' _ _); simpl; auto.
  Qed.
End ModelExt.

(* C06_type_perm: the order of the type definitions in the model never reaches the graph *)
Theorem wbuild_types_order (m : model) ts' :
  NoDup (map td_name (m_types m)) -> Permutation (m_types m) ts' ->
  wbuild m = wbuild {| m_schema := m_schema m; m_types := ts'; m_conds := m_conds m |}.
Proof.
  intros Hnd Hp. destruct (wbuild_type_perm m ts' Hnd Hp) as [Hext Hsort].
  unfold wbuild. simpl. rewrite <- Hsort. apply build_types_ext. exact Hext.
Qed.

Corollary build_weighted_types_order o (m : model) ts' :
  NoDup (map td_name (m_types m)) -> Permutation (m_types m) ts' ->
  build_weighted o m = build_weighted o {| m_schema := m_schema m; m_types := ts'; m_conds := m_conds m |}.
Proof. intros Hnd Hp. unfold build_weighted. rewrite (wbuild_types_order m ts' Hnd Hp). reflexivity. Qed.

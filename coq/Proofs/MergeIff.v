(* Proofs/MergeIff.v — module merge succeeds iff the files are conflict-free (C07), hence permuting the file list
   never changes whether it succeeds (C12). *)
From Coq Require Import Permutation.
From Verif Require Import Base.Str Base.Outcome Model.Ast Model.Printer Model.Transform Model.LineNumbers Model.Merge
  Spec.MergeSpec Proofs.SortFacts Proofs.MergeProofs Proofs.StrategyProofs.

(* ---------------------------------------------------------------------------------------- *)
(* 1. the collection phase follows the sequential checker                                     *)
(* ---------------------------------------------------------------------------------------- *)
Lemma collect_types_spec file lines exts : forall tds i s,
  ms_lines (collect_types file lines exts tds i s) = ms_lines s /\
  ms_conds (collect_types file lines exts tds i s) = ms_conds s /\
  exists more, ms_errs (collect_types file lines exts tds i s) = ms_errs s ++ more /\
    (defs_ok (ms_types s) (ct_defs exts tds i) = true ->
       more = [] /\
       ms_raw (collect_types file lines exts tds i s) = ms_raw s ++ map (attributed file) (ct_defs exts tds i) /\
       ms_types (collect_types file lines exts tds i s) = ms_types s ++ map td_name (ct_defs exts tds i) /\
       ms_ext (collect_types file lines exts tds i s) = fold_left (fun e td => assoc_append file td e) (ct_exts exts tds i) (ms_ext s)) /\
    (defs_ok (ms_types s) (ct_defs exts tds i) = false -> more <> []).
Proof.
  induction tds as [|td tds IH]; intros i s.
  - cbn. split; [reflexivity|]. split; [reflexivity|]. exists []. rewrite !app_nil_r. split; [reflexivity|]. split; [auto|discriminate].
  - cbn [collect_types ct_defs ct_exts]. fold (is_ext exts i td).
    destruct (is_ext exts i td) eqn:Ex.
    + rewrite andb_false_r.
      match goal with |- context [collect_types file lines exts tds (S i) ?s1] => destruct (IH (S i) s1) as (L & C & more & E & Hok & Hbad) end.
      cbn [ms_lines ms_conds ms_errs ms_types ms_raw ms_ext] in *.
      split; [exact L|]. split; [exact C|]. exists more. split; [exact E|]. split; [|exact Hbad].
      intros H. destruct (Hok H) as (M & R & T & X). cbn [fold_left]. auto.
    + rewrite andb_true_r. cbn [defs_ok].
      destruct (mem_str (td_name td) (ms_types s)) eqn:Em.
      * match goal with |- context [collect_types file lines exts tds (S i) ?s1] => destruct (IH (S i) s1) as (L & C & more & E & _ & _) end.
        unfold with_errs in *. cbn [ms_lines ms_conds ms_errs ms_types ms_raw ms_ext] in *.
        split; [exact L|]. split; [exact C|]. eexists. split; [rewrite E, <- app_assoc; reflexivity|].
        split; [discriminate|]. intros _. discriminate.
      * cbn [negb andb]. destruct (td_meta td) as [md|] eqn:Emd.
        -- match goal with |- context [collect_types file lines exts tds (S i) ?s1] => destruct (IH (S i) s1) as (L & C & more & E & Hok & Hbad) end.
           cbn [ms_lines ms_conds ms_errs ms_types ms_raw ms_ext] in *.
           split; [exact L|]. split; [exact C|]. exists more. split; [exact E|]. split; [|exact Hbad].
           intros H. destruct (Hok H) as (M & R & T & X). split; [exact M|]. cbn [map].
           unfold attributed at 1. rewrite Emd. rewrite R, T, X, <- !app_assoc. auto.
        -- match goal with |- context [collect_types file lines exts tds (S i) ?s1] => destruct (IH (S i) s1) as (L & C & more & E & _ & _) end.
           cbn [ms_lines ms_conds ms_errs ms_types ms_raw ms_ext] in *.
           split; [exact L|]. split; [exact C|]. eexists. split; [rewrite E, <- app_assoc; reflexivity|].
           split; [discriminate|]. intros _. discriminate.
Qed.

Lemma assoc_mem {A} n (l : list (str * A)) : mem_str n (keys l) = match assoc n l with Some _ => true | None => false end.
Proof. induction l as [|[k v] l IH]; simpl; [reflexivity|]. destruct (str_eqb n k); [reflexivity|exact IH]. Qed.

Lemma collect_conds_spec file lines : forall cs s,
  match collect_conds file lines cs s with
  | Some s' =>
      ms_raw s' = ms_raw s /\ ms_types s' = ms_types s /\ ms_ext s' = ms_ext s /\ ms_lines s' = ms_lines s /\
      exists more, ms_errs s' = ms_errs s ++ more /\
        (conds_ok (keys (ms_conds s)) cs = true -> more = [] /\ ms_conds s' = ms_conds s ++ map (attributed_cond file) cs) /\
        (conds_ok (keys (ms_conds s)) cs = false -> more <> [])
  | None => conds_ok (keys (ms_conds s)) cs = false
  end.
Proof.
  induction cs as [|[n c] cs IH]; intros s.
  - cbn. do 4 (split; [reflexivity|]). exists []. rewrite !app_nil_r. split; [reflexivity|]. split; [auto|discriminate].
  - cbn [collect_conds conds_ok]. rewrite assoc_mem. destruct (assoc n (ms_conds s)) eqn:Ea.
    + specialize (IH (with_errs s [MConflict (lit "duplicate condition " ++ n) file (construct_position lines (condition_line n lines) n)])).
      destruct (collect_conds file lines cs _) as [s'|]; cbn [negb andb]; [|reflexivity].
      unfold with_errs in IH. cbn [ms_lines ms_conds ms_errs ms_types ms_raw ms_ext] in IH.
      destruct IH as (R & T & X & L & more & E & _ & _). do 4 (split; [assumption|]).
      eexists. split; [rewrite E, <- app_assoc; reflexivity|]. split; [discriminate|]. intros _. discriminate.
    + cbn [negb andb]. destruct (c_meta c) as [md|] eqn:Em; [|reflexivity].
      match goal with |- context [collect_conds file lines cs ?s1] => specialize (IH s1) end.
      destruct (collect_conds file lines cs _) as [s'|].
      * cbn [ms_lines ms_conds ms_errs ms_types ms_raw ms_ext] in IH.
        destruct IH as (R & T & X & L & more & E & Hok & Hbad). unfold keys in Hok, Hbad. rewrite map_app in Hok, Hbad. cbn [map fst] in Hok, Hbad.
        do 4 (split; [assumption|]). exists more. split; [exact E|]. split; [|exact Hbad].
        intros H. destruct (Hok H) as [M Cn]. split; [exact M|]. rewrite Cn, <- app_assoc. cbn [map app].
        unfold attributed_cond at 2. cbn [fst snd]. rewrite Em. reflexivity.
      * cbn [ms_conds] in IH. unfold keys in IH. rewrite map_app in IH. exact IH.
Qed.

(* the extensions after the collection, as the code builds them *)
Definition ext_after (fs : list mfile) (ext : list (str * list typedef)) : list (str * list typedef) :=
  fold_left (fun e f => fold_left (fun e td => assoc_append (mf_name f) td e) (file_exts f) e) fs ext.

Lemma collect_files_good : forall fs k s,
  files_ok fs (ms_types s) (keys (ms_conds s)) = true ->
  exists s', collect_files fs k s = Ok s' /\ ms_errs s' = ms_errs s /\
             ms_raw s' = ms_raw s ++ all_defs fs /\ ms_types s' = ms_types s ++ map td_name (defs_of fs) /\
             ms_ext s' = ext_after fs (ms_ext s) /\ ms_conds s' = ms_conds s ++ all_conds fs.
Proof.
  induction fs as [|f fs IH]; intros k s H.
  - exists s. unfold all_defs, defs_of, ext_after, all_conds. cbn. rewrite !app_nil_r. repeat split.
  - cbn [files_ok] in H. cbn [collect_files].
    unfold file_defs, file_conds, file_exts, module_of in *. unfold all_defs, all_conds, defs_of, ext_after. cbn [flat_map fold_left].
    unfold file_defs, file_conds, file_exts, module_of.
    destruct (dsl_to_model (mf_text f)) as [m exts md| | |]; try discriminate H.
    destruct (is_empty (m_schema m)) eqn:Es; [|discriminate H]. cbn [negb].
    apply andb_prop in H. destruct H as [H Hfs]. apply andb_prop in H. destruct H as [Hd Hc].
    set (s0 := {| ms_raw := ms_raw s; ms_types := ms_types s; ms_ext := ms_ext s;
                  ms_lines := assoc_set (mf_name f) (split_on 10 (mf_text f)) (ms_lines s); ms_conds := ms_conds s; ms_errs := ms_errs s |}).
    destruct (collect_types_spec (mf_name f) (split_on 10 (mf_text f)) exts (m_types m) 0 s0) as (L1 & C1 & more1 & E1 & Hok1 & _).
    destruct (Hok1 Hd) as (-> & R1 & T1 & X1). rewrite app_nil_r in E1.
    set (s1 := collect_types (mf_name f) (split_on 10 (mf_text f)) exts (m_types m) 0 s0) in *.
    assert (Hc' : conds_ok (keys (ms_conds s1)) (stable_sort pair_cmp (m_conds m)) = true) by (rewrite C1; exact Hc).
    pose proof (collect_conds_spec (mf_name f) (split_on 10 (mf_text f)) (stable_sort pair_cmp (m_conds m)) s1) as CS.
    destruct (collect_conds (mf_name f) (split_on 10 (mf_text f)) (stable_sort pair_cmp (m_conds m)) s1) as [s2|]; [|congruence].
    destruct CS as (R2 & T2 & X2 & L2 & more2 & E2 & Hok2 & _). destruct (Hok2 Hc') as [-> C2]. rewrite app_nil_r in E2.
    destruct (IH (S k) s2) as (s' & Es' & Ee & Er & Et & Ex & Ec).
    { rewrite T2, T1, C2, C1. cbn [ms_types ms_conds s0]. unfold keys. rewrite map_app, map_map. cbn [fst attributed_cond].
      unfold keys in Hfs. exact Hfs. }
    exists s'. split; [exact Es'|]. rewrite Ee, Er, Et, Ex, Ec, E2, E1, R2, R1, T2, T1, X2, X1, C2, C1. cbn [ms_raw ms_types ms_ext ms_conds ms_errs s0].
    rewrite <- !app_assoc, map_app. auto.
Qed.

Lemma collect_files_mono : forall fs k s s', collect_files fs k s = Ok s' -> exists more, ms_errs s' = ms_errs s ++ more.
Proof.
  induction fs as [|f fs IH]; intros k s s' H; cbn [collect_files] in H.
  - inversion H; subst. exists []. rewrite app_nil_r. reflexivity.
  - destruct (dsl_to_model (mf_text f)) as [m exts md| | |]; try discriminate H.
    + destruct (negb (is_empty (m_schema m))).
      * apply IH in H. destruct H as [more E]. unfold with_errs in E. cbn [ms_errs] in E. eexists. rewrite E, <- app_assoc. reflexivity.
      * match type of H with context [collect_types ?a ?b ?c ?d ?e ?s0] =>
          destruct (collect_types_spec a b c d e s0) as (_ & _ & more1 & E1 & _ & _) end.
        match type of H with context [collect_conds ?a ?b ?c ?s1] =>
          pose proof (collect_conds_spec a b c s1) as CS; destruct (collect_conds a b c s1) as [s2|]; [|discriminate H] end.
        destruct CS as (_ & _ & _ & _ & more2 & E2 & _ & _).
        apply IH in H. destruct H as [more E]. cbn [ms_errs] in E1. eexists. rewrite E, E2, E1, <- !app_assoc. reflexivity.
    + apply IH in H. destruct H as [more E]. unfold with_errs in E. cbn [ms_errs] in E. eexists. rewrite E, <- app_assoc. reflexivity.
    + apply IH in H. destruct H as [more E]. unfold with_errs in E. cbn [ms_errs] in E. eexists. rewrite E, <- app_assoc. reflexivity.
Qed.

Lemma app_nonnil_l {A} (a b : list A) : a <> [] -> a ++ b <> [].
Proof. destruct a; [contradiction|discriminate]. Qed.

Lemma collect_files_bad : forall fs k s,
  files_ok fs (ms_types s) (keys (ms_conds s)) = false ->
  match collect_files fs k s with
  | Ok s' => exists more, ms_errs s' = ms_errs s ++ more /\ more <> []
  | _ => True
  end.
Proof.
  induction fs as [|f fs IH]; intros k s H; [discriminate H|].
  cbn [files_ok] in H. cbn [collect_files]. unfold file_defs, file_conds, module_of in H.
  destruct (dsl_to_model (mf_text f)) as [m exts md| | |]; [| | |exact I].
  - destruct (is_empty (m_schema m)) eqn:Es; cbn [negb].
    + set (s0 := {| ms_raw := ms_raw s; ms_types := ms_types s; ms_ext := ms_ext s;
                    ms_lines := assoc_set (mf_name f) (split_on 10 (mf_text f)) (ms_lines s); ms_conds := ms_conds s; ms_errs := ms_errs s |}).
      destruct (collect_types_spec (mf_name f) (split_on 10 (mf_text f)) exts (m_types m) 0 s0) as (L1 & C1 & more1 & E1 & Hok1 & Hbad1).
      set (s1 := collect_types (mf_name f) (split_on 10 (mf_text f)) exts (m_types m) 0 s0) in *.
      pose proof (collect_conds_spec (mf_name f) (split_on 10 (mf_text f)) (stable_sort pair_cmp (m_conds m)) s1) as CS.
      destruct (collect_conds (mf_name f) (split_on 10 (mf_text f)) (stable_sort pair_cmp (m_conds m)) s1) as [s2|] eqn:Ecc; [|exact I].
      destruct CS as (R2 & T2 & X2 & L2 & more2 & E2 & Hok2 & Hbad2).
      cbn [ms_types ms_errs s0] in Hok1, Hbad1, E1. rewrite C1 in Hok2, Hbad2. cbn [ms_conds s0] in Hok2, Hbad2.
      destruct (defs_ok (ms_types s) (ct_defs exts (m_types m) 0)) eqn:Ed.
      * destruct (conds_ok (keys (ms_conds s)) (stable_sort pair_cmp (m_conds m))) eqn:Ec.
        -- cbn [andb] in H. destruct (Hok1 eq_refl) as (-> & R1 & T1 & X1). destruct (Hok2 eq_refl) as [-> C2].
           rewrite app_nil_r in *.
           specialize (IH (S k) s2). rewrite T2, T1, C2 in IH. cbn [ms_types ms_conds s0] in IH.
           unfold keys in IH. rewrite map_app, map_map in IH. cbn [fst attributed_cond] in IH. specialize (IH H).
           destruct (collect_files fs (S k) s2) as [s'| |]; auto. destruct IH as [more [E Hne]]. exists more. split; [|exact Hne].
           rewrite E, E2, E1. reflexivity.
        -- specialize (Hbad2 eq_refl).
           destruct (collect_files fs (S k) s2) as [s'| |] eqn:Ecf; auto. apply collect_files_mono in Ecf. destruct Ecf as [more E].
           exists (more1 ++ more2 ++ more). split; [rewrite E, E2, E1, <- !app_assoc; reflexivity|].
           intros Z. apply app_eq_nil in Z. destruct Z as [_ Z]. apply app_eq_nil in Z. destruct Z as [Z _]. contradiction.
      * specialize (Hbad1 eq_refl).
        destruct (collect_files fs (S k) s2) as [s'| |] eqn:Ecf; auto. apply collect_files_mono in Ecf. destruct Ecf as [more E].
        exists (more1 ++ more2 ++ more). split; [rewrite E, E2, E1, <- !app_assoc; reflexivity|]. apply app_nonnil_l. exact Hbad1.
    + destruct (collect_files fs (S k) _) as [s'| |] eqn:Ecf; auto. apply collect_files_mono in Ecf. destruct Ecf as [more E].
      unfold with_errs in E. cbn [ms_errs] in E. eexists. split; [rewrite E, <- app_assoc; reflexivity|discriminate].
  - destruct (collect_files fs (S k) _) as [s'| |] eqn:Ecf; auto. apply collect_files_mono in Ecf. destruct Ecf as [more E].
    unfold with_errs in E. cbn [ms_errs] in E. eexists. split; [rewrite E, <- app_assoc; reflexivity|discriminate].
  - destruct (collect_files fs (S k) _) as [s'| |] eqn:Ecf; auto. apply collect_files_mono in Ecf. destruct Ecf as [more E].
    unfold with_errs in E. cbn [ms_errs] in E. eexists. split; [rewrite E, <- app_assoc; reflexivity|discriminate].
Qed.

(* ---------------------------------------------------------------------------------------- *)
(* 2. applying extensions                                                                    *)
(* ---------------------------------------------------------------------------------------- *)
Definition meta_some (t : typedef) : Prop := td_meta t <> None.
Definition ext_has_meta (td : typedef) : Prop :=
  forall n, In n (keys (td_rels td)) -> assoc n (td_meta_rels td) <> None /\ assoc n (td_rels td) <> None.

(* relation names of the type called T in the list *)
Definition rk (raw : list typedef) (T : str) : list str :=
  match index_of_type T raw 0 with
  | Some i => keys (td_rels (nth i raw empty_typedef))
  | None => []
  end.

Lemma keys_assoc_set_new {A} k (v : A) l : ~ In k (keys l) -> keys (assoc_set k v l) = keys l ++ [k].
Proof.
  induction l as [|[k0 v0] l IH]; simpl; intros H; [reflexivity|].
  destruct (str_eqb_spec k k0) as [->|Hne]; [exfalso; apply H; left; reflexivity|].
  simpl. f_equal. apply IH. intros Hin. apply H. right. exact Hin.
Qed.

Lemma index_of_type_none name l i : index_of_type name l i = None <-> ~ In name (map td_name l).
Proof.
  revert i. induction l as [|t l IH]; intros i; simpl; [tauto|].
  destruct (str_eqb_spec (td_name t) name) as [E|E].
  - split; [discriminate|]. intros H. exfalso. apply H. left. exact E.
  - rewrite IH. tauto.
Qed.

Lemma merge_relations_full file lines ty existing td : forall names orig errs,
  (forall n, In n names -> assoc n (td_meta_rels td) <> None /\ assoc n (td_rels td) <> None) ->
  td_meta orig <> None -> NoDup names ->
  exists orig' more,
    merge_relations file lines ty existing names td orig errs = Some (orig', errs ++ more) /\
    td_meta orig' <> None /\ td_name orig' = td_name orig /\
    (more = [] <-> forall n, In n names -> ~ In n existing) /\
    (more = [] -> (forall n, In n names -> ~ In n (keys (td_rels orig))) ->
       keys (td_rels orig') = keys (td_rels orig) ++ names).
Proof.
  induction names as [|n names IH]; intros orig errs Hwf Hm Hnd.
  - exists orig, []. cbn. rewrite !app_nil_r. split; [reflexivity|]. split; [exact Hm|]. split; [reflexivity|].
    split; [split; [intros _ n []|reflexivity]|]. intros _ _. reflexivity.
  - inversion Hnd as [|? ? Hnotin Hnd']; subst. cbn [merge_relations].
    destruct (mem_str n existing) eqn:Em.
    + destruct (IH orig (errs ++ [MConflict (lit "relation " ++ n ++ lit " already exists on type " ++ ty) file
                                             (construct_position lines (relation_line n lines) n)])) as (orig' & more & E & M & N & _ & _);
        [intros n' Hn'; apply Hwf; right; exact Hn'|exact Hm|exact Hnd'|].
      exists orig'. eexists. split; [rewrite E, <- app_assoc; reflexivity|]. split; [exact M|]. split; [exact N|].
      split; [split; [discriminate|]|discriminate].
      intros H. exfalso. apply (H n); [left; reflexivity|]. apply mem_str_in. exact Em.
    + destruct (Hwf n (or_introl eq_refl)) as [W1 W2].
      destruct (assoc n (td_meta_rels td)) as [rm|]; [|contradiction].
      destruct (td_meta orig) as [omd|] eqn:Eo; [|contradiction].
      destruct (assoc n (td_rels td)) as [u|]; [|contradiction].
      match goal with |- context [merge_relations file lines ty existing names td ?o errs] => set (orig1 := o) end.
      destruct (IH orig1 errs) as (orig' & more & E & M & N & Hiff & Hk);
        [intros n' Hn'; apply Hwf; right; exact Hn'|unfold orig1; cbn; discriminate|exact Hnd'|].
      exists orig', more. split; [exact E|]. split; [exact M|]. split; [rewrite N; reflexivity|]. split.
      * rewrite Hiff. split.
        -- intros H n' [<-|Hn']; [intros Hin; apply mem_str_in in Hin; congruence|apply H; exact Hn'].
        -- intros H n' Hn'. apply H. right. exact Hn'.
      * intros Hmore Hfresh. rewrite (Hk Hmore).
        -- unfold orig1. cbn [td_rels]. rewrite keys_assoc_set_new by (apply Hfresh; left; reflexivity).
           rewrite <- app_assoc. reflexivity.
        -- intros n' Hn'. unfold orig1. cbn [td_rels]. rewrite keys_assoc_set_new by (apply Hfresh; left; reflexivity).
           intros Hin. apply in_app_or in Hin. destruct Hin as [Hin|[<-|[]]]; [|contradiction].
           apply (Hfresh n'); [right; exact Hn'|exact Hin].
Qed.

Lemma nth_replace_nth_same {A} (l : list A) i x d : (i < length l)%nat -> nth i (replace_nth i x l) d = x.
Proof. revert i. induction l as [|y l IH]; intros [|i] H; simpl in *; try lia; [reflexivity|]. apply IH. lia. Qed.
Lemma nth_replace_nth_other {A} (l : list A) i j x d : i <> j -> nth j (replace_nth i x l) d = nth j l d.
Proof. revert i j. induction l as [|y l IH]; intros [|i] [|j] H; simpl; try reflexivity; try lia. apply IH. lia. Qed.

Lemma Forall_replace_nth {A} (P : A -> Prop) l i x : Forall P l -> P x -> Forall P (replace_nth i x l).
Proof. intros Hl Hx. revert i. induction Hl as [|y l Hy Hl IH]; intros [|i]; simpl; try constructor; auto. Qed.

Lemma index_of_type_names name l l' i : map td_name l = map td_name l' -> index_of_type name l i = index_of_type name l' i.
Proof.
  revert l' i. induction l as [|t l IH]; intros [|t' l'] i H; simpl in *; try discriminate; [reflexivity|].
  inversion H as [[H1 H2]]. rewrite H1. destruct (str_eqb (td_name t') name); [reflexivity|]. apply IH. exact H2.
Qed.

(* one extension *)
Lemma apply_extension_step file lines td raw :
  Forall meta_some raw -> ext_has_meta td -> NoDup (keys (td_rels td)) ->
  exists raw' more,
    apply_extension file lines td raw = Some (raw', more) /\
    map td_name raw' = map td_name raw /\ Forall meta_some raw' /\
    (more = [] <-> In (td_name td) (map td_name raw) /\ forall n, In n (keys (td_rels td)) -> ~ In n (rk raw (td_name td))) /\
    (more = [] -> Permutation (rk raw' (td_name td)) (rk raw (td_name td) ++ keys (td_rels td)) /\
                  forall T', T' <> td_name td -> rk raw' T' = rk raw T').
Proof.
  intros Hms Hwf Hnd. unfold apply_extension.
  destruct (index_of_type (td_name td) raw 0) as [i|] eqn:Ei.
  - destruct (index_of_type_bound _ _ _ _ Ei) as [Hb Hn]. rewrite Nat.sub_0_r in Hn.
    assert (Hin : In (td_name td) (map td_name raw)).
    { destruct (in_dec (list_eq_dec N.eq_dec) (td_name td) (map td_name raw)) as [H|H]; [exact H|].
      apply index_of_type_none with (i := 0%nat) in H. congruence. }
    set (orig := nth i raw empty_typedef) in *.
    assert (Hrk : rk raw (td_name td) = keys (td_rels orig)) by (unfold rk; rewrite Ei; reflexivity).
    rewrite Hrk.
    assert (Hmo : meta_some orig).
    { rewrite Forall_forall in Hms. apply Hms. apply nth_In. lia. }
    (* reading the lists back after the replacement *)
    assert (Hread : forall orig', td_name orig' = td_name orig ->
              rk (replace_nth i orig' raw) (td_name td) = keys (td_rels orig') /\
              forall T', T' <> td_name td -> rk (replace_nth i orig' raw) T' = rk raw T').
    { intros orig' Hname.
      assert (Hnames : map td_name (replace_nth i orig' raw) = map td_name raw) by (apply replace_nth_names; [exact Hname|lia]).
      split.
      - unfold rk. rewrite (index_of_type_names _ _ raw 0 Hnames), Ei. rewrite nth_replace_nth_same by lia. reflexivity.
      - intros T' HT'. unfold rk. rewrite (index_of_type_names _ _ raw 0 Hnames).
        destruct (index_of_type T' raw 0) as [j|] eqn:Ej; [|reflexivity].
        destruct (index_of_type_bound _ _ _ _ Ej) as [_ Hnj]. rewrite Nat.sub_0_r in Hnj.
        rewrite nth_replace_nth_other; [reflexivity|]. intros ->. apply HT'. rewrite <- Hnj. fold orig. exact Hn. }
    destruct (td_rels orig) as [|r0 rs] eqn:Er.
    + (* the target has no relation yet: it takes the extension's *)
      eexists. exists []. split; [reflexivity|].
      match goal with |- context [replace_nth i ?o raw] => set (orig' := o) end.
      assert (Hname : td_name orig' = td_name orig) by reflexivity.
      destruct (Hread orig' Hname) as [R1 R2].
      split; [apply replace_nth_names; [exact Hname|lia]|].
      split; [apply Forall_replace_nth; [exact Hms|unfold meta_some, orig'; cbn; discriminate]|].
      split; [split; [intros _; split; [exact Hin|intros n _ []]|reflexivity]|].
      intros _. split; [rewrite R1; unfold orig'; cbn [td_rels]; cbn [app]; apply Permutation_refl|exact R2].
    + rewrite <- Er.
      destruct (merge_relations_full file lines (td_name td) (keys (td_rels orig)) td
                  (stable_sort str_compare (keys (td_rels td))) orig []) as (orig' & more & E & M & N & Hiff & Hk).
      * intros n Hn'. apply Hwf. apply (Permutation_in n (Permutation_sym (stable_sort_perm str_compare _))). exact Hn'.
      * exact Hmo.
      * apply (Permutation_NoDup (stable_sort_perm str_compare _)). exact Hnd.
      * rewrite E. cbn [app]. exists (replace_nth i orig' raw), more. split; [reflexivity|].
        destruct (Hread orig' N) as [R1 R2].
        split; [apply replace_nth_names; [exact N|lia]|].
        split; [apply Forall_replace_nth; [exact Hms|exact M]|].
        assert (Hsame : (forall n, In n (stable_sort str_compare (keys (td_rels td))) -> ~ In n (keys (td_rels orig))) <->
                        (forall n, In n (keys (td_rels td)) -> ~ In n (keys (td_rels orig)))).
        { split; intros H n Hn'; apply H.
          - apply (Permutation_in n (stable_sort_perm str_compare _)). exact Hn'.
          - apply (Permutation_in n (Permutation_sym (stable_sort_perm str_compare _))). exact Hn'. }
        split; [rewrite Hiff, Hsame; tauto|].
        intros Hmore. split; [|exact R2]. rewrite R1. rewrite (Hk Hmore) by (apply Hiff; exact Hmore).
        apply Permutation_app_head. apply Permutation_sym, stable_sort_perm.
  - (* no such type *)
    eexists. eexists. split; [reflexivity|]. split; [reflexivity|]. split; [exact Hms|].
    split; [split; [discriminate|]|discriminate].
    intros [Hin _]. exfalso. apply (proj1 (index_of_type_none _ _ 0%nat) Ei). exact Hin.
Qed.

(* ---- a sequence of extensions ---- *)
Definition contrib (T : str) (E : list typedef) : list str :=
  flat_map (fun td => keys (td_rels td)) (filter (fun td => str_eqb (td_name td) T) E).

(* the order-free condition for a list of extensions over given base types *)
Definition ext_free (raw : list typedef) (E : list typedef) : Prop :=
  (forall td, In td E -> In (td_name td) (map td_name raw)) /\
  forall T, NoDup (contrib T E) /\ forall n, In n (contrib T E) -> ~ In n (rk raw T).

Lemma contrib_app T E1 E2 : contrib T (E1 ++ E2) = contrib T E1 ++ contrib T E2.
Proof. unfold contrib. rewrite filter_app, flat_map_app. reflexivity. Qed.

Lemma NoDup_app_iff {A} (a b : list A) : NoDup (a ++ b) <-> NoDup a /\ NoDup b /\ forall x, In x a -> ~ In x b.
Proof.
  induction a as [|x a IH]; simpl.
  - split; [intros H; split; [constructor|split; [exact H|intros x []]]|tauto].
  - split.
    + intros H. inversion H as [|? ? Hx Hr]; subst. apply IH in Hr. destruct Hr as (Ha & Hb & Hd). split; [|split; [exact Hb|]].
      * constructor; [|exact Ha]. intros Hin. apply Hx. apply in_or_app. left. exact Hin.
      * intros y [<-|Hy]; [intros Hin; apply Hx; apply in_or_app; right; exact Hin|apply Hd; exact Hy].
    + intros (Ha & Hb & Hd). inversion Ha as [|? ? Hx Ha']; subst. constructor.
      * intros Hin. apply in_app_or in Hin. destruct Hin as [Hin|Hin]; [contradiction|]. apply (Hd x); [left; reflexivity|exact Hin].
      * apply IH. split; [exact Ha'|split; [exact Hb|]]. intros y Hy. apply Hd. right. exact Hy.
Qed.

Lemma ext_free_prefix raw E1 E2 : ext_free raw (E1 ++ E2) -> ext_free raw E1.
Proof.
  intros [Ht Hc]. split.
  - intros td Hin. apply Ht. apply in_or_app. left. exact Hin.
  - intros T. destruct (Hc T) as [Hn Hd]. rewrite contrib_app in Hn, Hd. apply NoDup_app_iff in Hn. destruct Hn as (Hn1 & _ & _).
    split; [exact Hn1|]. intros n Hin. apply Hd. apply in_or_app. left. exact Hin.
Qed.

Lemma ext_free_app raw raw1 E1 E2 :
  map td_name raw1 = map td_name raw ->
  (forall T, Permutation (rk raw1 T) (rk raw T ++ contrib T E1)) ->
  (ext_free raw (E1 ++ E2) <-> ext_free raw E1 /\ ext_free raw1 E2).
Proof.
  intros Hnames Hperm. split.
  - intros H. split; [eapply ext_free_prefix; eauto|]. destruct H as [Ht Hc]. split.
    + intros td Hin. rewrite Hnames. apply Ht. apply in_or_app. right. exact Hin.
    + intros T. destruct (Hc T) as [Hn Hd]. rewrite contrib_app in Hn, Hd. apply NoDup_app_iff in Hn. destruct Hn as (_ & Hn2 & Hdis).
      split; [exact Hn2|]. intros n Hin Hrk. apply (Permutation_in n (Hperm T)) in Hrk. apply in_app_or in Hrk.
      destruct Hrk as [Hrk|Hrk]; [apply (Hd n); [apply in_or_app; right; exact Hin|exact Hrk]|apply (Hdis n Hrk Hin)].
  - intros [[Ht1 Hc1] [Ht2 Hc2]]. split.
    + intros td Hin. apply in_app_or in Hin. destruct Hin as [Hin|Hin]; [apply Ht1; exact Hin|rewrite <- Hnames; apply Ht2; exact Hin].
    + intros T. destruct (Hc1 T) as [Hn1 Hd1]. destruct (Hc2 T) as [Hn2 Hd2]. rewrite contrib_app. split.
      * apply NoDup_app_iff. split; [exact Hn1|split; [exact Hn2|]]. intros n H1 H2. apply (Hd2 n H2).
        apply (Permutation_in n (Permutation_sym (Hperm T))). apply in_or_app. right. exact H1.
      * intros n Hin. apply in_app_or in Hin. destruct Hin as [Hin|Hin]; [apply Hd1; exact Hin|].
        intros Hrk. apply (Hd2 n Hin). apply (Permutation_in n (Permutation_sym (Hperm T))). apply in_or_app. left. exact Hrk.
Qed.

Definition ext_wf_all (E : list typedef) : Prop := Forall (fun td => ext_has_meta td /\ NoDup (keys (td_rels td))) E.

Lemma ext_free_single raw td :
  NoDup (keys (td_rels td)) ->
  (ext_free raw [td] <-> In (td_name td) (map td_name raw) /\ forall n, In n (keys (td_rels td)) -> ~ In n (rk raw (td_name td))).
Proof.
  intros Hnd. unfold ext_free. split.
  - intros [Ht Hc]. split; [apply Ht; left; reflexivity|]. intros n Hn. destruct (Hc (td_name td)) as [_ Hd]. apply Hd.
    unfold contrib. cbn [filter]. rewrite str_eqb_refl. cbn [flat_map]. rewrite app_nil_r. exact Hn.
  - intros [Hin Hd]. split; [intros td' [<-|[]]; exact Hin|]. intros T. unfold contrib. cbn [filter].
    destruct (str_eqb_spec (td_name td) T) as [<-|Hne]; cbn [flat_map]; [rewrite app_nil_r; split; [exact Hnd|exact Hd]|].
    split; [constructor|intros n []].
Qed.

Lemma contrib_single_other td T : T <> td_name td -> contrib T [td] = [].
Proof. intros H. unfold contrib. cbn [filter]. destruct (str_eqb_spec (td_name td) T) as [E|_]; [exfalso; apply H; symmetry; exact E|reflexivity]. Qed.
Lemma contrib_single_same td : contrib (td_name td) [td] = keys (td_rels td).
Proof. unfold contrib. cbn [filter]. rewrite str_eqb_refl. cbn [flat_map]. apply app_nil_r. Qed.

Lemma apply_extensions_seq file lines : forall tds raw errs,
  Forall meta_some raw -> ext_wf_all tds ->
  exists raw' more,
    apply_extensions file lines tds raw errs = Some (raw', errs ++ more) /\
    map td_name raw' = map td_name raw /\ Forall meta_some raw' /\
    (more = [] <-> ext_free raw tds) /\
    (more = [] -> forall T, Permutation (rk raw' T) (rk raw T ++ contrib T tds)).
Proof.
  induction tds as [|td tds IH]; intros raw errs Hms Hwf.
  - exists raw, []. cbn. rewrite app_nil_r. split; [reflexivity|]. split; [reflexivity|]. split; [exact Hms|]. split.
    + split; [intros _|reflexivity]. split; [intros td []|]. intros T. split; [constructor|intros n []].
    + intros _ T. unfold contrib. cbn. rewrite app_nil_r. apply Permutation_refl.
  - inversion Hwf as [|? ? [Hm Hnd] Hwf']; subst. cbn [apply_extensions].
    destruct (apply_extension_step file lines td raw Hms Hm Hnd) as (raw1 & more1 & E1 & N1 & M1 & Hiff1 & Hp1). rewrite E1.
    destruct (IH raw1 (errs ++ more1) M1 Hwf') as (raw' & more2 & E2 & N2 & M2 & Hiff2 & Hp2).
    exists raw', (more1 ++ more2). split; [rewrite E2, <- app_assoc; reflexivity|]. split; [congruence|]. split; [exact M2|].
    assert (Hperm1 : more1 = [] -> forall T, Permutation (rk raw1 T) (rk raw T ++ contrib T [td])).
    { intros H T. destruct (Hp1 H) as [P1 P2]. destruct (list_eq_dec N.eq_dec T (td_name td)) as [->|Hne].
      - rewrite contrib_single_same. exact P1.
      - rewrite (contrib_single_other td T Hne), app_nil_r, (P2 T Hne). apply Permutation_refl. }
    split.
    + change (td :: tds) with ([td] ++ tds). split.
      * intros H. apply app_eq_nil in H. destruct H as [H1 H2].
        apply (ext_free_app raw raw1 [td] tds N1 (Hperm1 H1)). split; [apply ext_free_single; [exact Hnd|apply Hiff1; exact H1]|apply Hiff2; exact H2].
      * intros H. assert (H1 : more1 = []) by (apply Hiff1; apply ext_free_single; [exact Hnd|]; apply (ext_free_prefix raw [td] tds H)).
        apply (ext_free_app raw raw1 [td] tds N1 (Hperm1 H1)) in H. destruct H as [_ H2]. apply Hiff2 in H2. rewrite H1, H2. reflexivity.
    + intros H T. apply app_eq_nil in H. destruct H as [H1 H2]. change (td :: tds) with ([td] ++ tds). rewrite contrib_app.
      eapply Permutation_trans; [apply (Hp2 H2 T)|]. rewrite app_assoc. apply Permutation_app_tail. apply (Hperm1 H1 T).
Qed.

Lemma apply_all_seq all_lines : forall exts raw errs,
  Forall meta_some raw -> ext_wf_all (flat_map snd exts) ->
  exists raw' more,
    apply_all exts all_lines raw errs = Some (raw', errs ++ more) /\
    map td_name raw' = map td_name raw /\ Forall meta_some raw' /\
    (more = [] <-> ext_free raw (flat_map snd exts)) /\
    (more = [] -> forall T, Permutation (rk raw' T) (rk raw T ++ contrib T (flat_map snd exts))).
Proof.
  induction exts as [|[file tds] exts IH]; intros raw errs Hms Hwf.
  - exists raw, []. cbn. rewrite app_nil_r. split; [reflexivity|]. split; [reflexivity|]. split; [exact Hms|]. split.
    + split; [intros _|reflexivity]. split; [intros td []|]. intros T. split; [constructor|intros n []].
    + intros _ T. unfold contrib. cbn. rewrite app_nil_r. apply Permutation_refl.
  - cbn [flat_map snd] in *. unfold ext_wf_all in Hwf. apply Forall_app in Hwf. destruct Hwf as [Hwf1 Hwf2]. cbn [apply_all].
    destruct (apply_extensions_seq file (match assoc file all_lines with Some l => l | None => [] end) tds raw errs Hms Hwf1)
      as (raw1 & more1 & E1 & N1 & M1 & Hiff1 & Hp1). rewrite E1.
    destruct (IH raw1 (errs ++ more1) M1 Hwf2) as (raw' & more2 & E2 & N2 & M2 & Hiff2 & Hp2).
    exists raw', (more1 ++ more2). split; [rewrite E2, <- app_assoc; reflexivity|]. split; [congruence|]. split; [exact M2|].
    split.
    + split.
      * intros H. apply app_eq_nil in H. destruct H as [H1 H2].
        apply (ext_free_app raw raw1 tds _ N1 (Hp1 H1)). split; [apply Hiff1; exact H1|apply Hiff2; exact H2].
      * intros H. assert (H1 : more1 = []) by (apply Hiff1; apply (ext_free_prefix raw tds _ H)).
        apply (ext_free_app raw raw1 tds _ N1 (Hp1 H1)) in H. destruct H as [_ H2]. apply Hiff2 in H2. rewrite H1, H2. reflexivity.
    + intros H T. apply app_eq_nil in H. destruct H as [H1 H2]. rewrite contrib_app.
      eapply Permutation_trans; [apply (Hp2 H2 T)|]. rewrite app_assoc. apply Permutation_app_tail. apply (Hp1 H1 T).
Qed.

(* ---------------------------------------------------------------------------------------- *)
(* 3. the sequential checker of the collection phase, order-free                             *)
(* ---------------------------------------------------------------------------------------- *)
Lemma defs_ok_iff defs : forall types,
  defs_ok types defs = true <->
  Forall (fun td => td_meta td <> None) defs /\ NoDup (map td_name defs) /\ forall td, In td defs -> ~ In (td_name td) types.
Proof.
  induction defs as [|td defs IH]; intros types; cbn [defs_ok map].
  - split; [intros _; split; [constructor|split; [constructor|intros td []]]|reflexivity].
  - rewrite !andb_true_iff, IH. rewrite negb_true_iff. split.
    + intros [[Hm Hmd] (Hf & Hn & Hd)]. split; [|split].
      * constructor; [destruct (td_meta td); [discriminate|discriminate]|exact Hf].
      * constructor; [|exact Hn]. intros Hin. apply in_map_iff in Hin. destruct Hin as [td' [E Hin]].
        apply (Hd td' Hin). rewrite E. apply in_or_app. right. left. reflexivity.
      * intros td' [<-|Hin]; [intros Hin; apply mem_str_in in Hin; congruence|].
        intros H. apply (Hd td' Hin). apply in_or_app. left. exact H.
    + intros (Hf & Hn & Hd). inversion Hf as [|? ? Hm Hf']; subst. inversion Hn as [|? ? Hx Hn']; subst. split; [split|].
      * destruct (mem_str (td_name td) types) eqn:E; [|reflexivity]. exfalso. apply (Hd td); [left; reflexivity|apply mem_str_in; exact E].
      * destruct (td_meta td); [reflexivity|contradiction].
      * split; [exact Hf'|split; [exact Hn'|]]. intros td' Hin H. apply in_app_or in H. destruct H as [H|[E|[]]].
        -- apply (Hd td'); [right; exact Hin|exact H].
        -- apply Hx. rewrite E. apply in_map. exact Hin.
Qed.

Lemma conds_ok_iff cs : forall seen,
  conds_ok seen cs = true <->
  Forall (fun p : str * condition => c_meta (snd p) <> None) cs /\ NoDup (keys cs) /\ forall n, In n (keys cs) -> ~ In n seen.
Proof.
  induction cs as [|[n c] cs IH]; intros seen; cbn [conds_ok keys map fst].
  - split; [intros _; split; [constructor|split; [constructor|intros n []]]|reflexivity].
  - rewrite !andb_true_iff, IH. rewrite negb_true_iff. fold (keys cs). split.
    + intros [[Hm Hmd] (Hf & Hn & Hd)]. split; [|split].
      * constructor; [cbn; destruct (c_meta c); [discriminate|discriminate]|exact Hf].
      * constructor; [|exact Hn]. intros Hin. apply (Hd n Hin). apply in_or_app. right. left. reflexivity.
      * intros n' [<-|Hin]; [intros Hin; apply mem_str_in in Hin; congruence|].
        intros H. apply (Hd n' Hin). apply in_or_app. left. exact H.
    + intros (Hf & Hn & Hd). inversion Hf as [|? ? Hm Hf']; subst. inversion Hn as [|? ? Hx Hn']; subst. cbn in Hm. split; [split|].
      * destruct (mem_str n seen) eqn:E; [|reflexivity]. exfalso. apply (Hd n); [left; reflexivity|apply mem_str_in; exact E].
      * destruct (c_meta c); [reflexivity|contradiction].
      * split; [exact Hf'|split; [exact Hn'|]]. intros n' Hin H. apply in_app_or in H. destruct H as [H|[E|[]]].
        -- apply (Hd n'); [right; exact Hin|exact H].
        -- apply Hx. rewrite E. exact Hin.
Qed.

Lemma files_ok_iff fs : forall types conds,
  files_ok fs types conds = true <->
  Forall (fun f => module_of f <> None) fs /\
  Forall (fun td => td_meta td <> None) (defs_of fs) /\ NoDup (map td_name (defs_of fs)) /\
  (forall td, In td (defs_of fs) -> ~ In (td_name td) types) /\
  Forall (fun p : str * condition => c_meta (snd p) <> None) (conds_of fs) /\ NoDup (keys (conds_of fs)) /\
  (forall n, In n (keys (conds_of fs)) -> ~ In n conds).
Proof.
  induction fs as [|f fs IH]; intros types conds; cbn [files_ok].
  - unfold defs_of, conds_of. cbn. split; [intros _|reflexivity]. repeat split; try constructor; intros ? [].
  - unfold defs_of, conds_of in *. cbn [flat_map]. destruct (module_of f) as [mo|] eqn:Em.
    + rewrite !andb_true_iff, defs_ok_iff, conds_ok_iff, IH. unfold keys. rewrite !map_app. rewrite !Forall_app. split.
      * intros [[(D1 & D2 & D3) (C1 & C2 & C3)] (M & F1 & F2 & F3 & G1 & G2 & G3)].
        split; [constructor; [congruence|exact M]|]. split; [split; assumption|]. split.
        { apply NoDup_app_iff. split; [exact D2|split; [exact F2|]]. intros x Hx Hy. apply in_map_iff in Hy. destruct Hy as [td [E Hin]].
          apply (F3 td Hin). rewrite E. apply in_or_app. right. exact Hx. }
        split.
        { intros td Hin H. apply in_app_or in Hin. destruct Hin as [Hin|Hin]; [apply (D3 td Hin H)|].
          apply (F3 td Hin). apply in_or_app. left. exact H. }
        split; [split; assumption|]. split.
        { apply NoDup_app_iff. split; [exact C2|split; [exact G2|]]. intros x Hx Hy. apply (G3 x Hy). apply in_or_app. right. exact Hx. }
        intros n Hin H. apply in_app_or in Hin. destruct Hin as [Hin|Hin]; [apply (C3 n Hin H)|].
        apply (G3 n Hin). apply in_or_app. left. exact H.
      * intros (M & [D1 F1] & ND & Dis & [C1 G1] & NC & Cis). inversion M as [|? ? _ M']; subst.
        apply NoDup_app_iff in ND. destruct ND as (D2 & F2 & Dx). apply NoDup_app_iff in NC. destruct NC as (C2 & G2 & Cx).
        split; [split|].
        { split; [exact D1|split; [exact D2|]]. intros td Hin. apply Dis. apply in_or_app. left. exact Hin. }
        { split; [exact C1|split; [exact C2|]]. intros n Hin. apply Cis. apply in_or_app. left. exact Hin. }
        split; [exact M'|]. split; [exact F1|]. split; [exact F2|]. split.
        { intros td Hin H. apply in_app_or in H. destruct H as [H|H]; [apply (Dis td); [apply in_or_app; right; exact Hin|exact H]|].
          apply (Dx (td_name td) H). apply in_map. exact Hin. }
        split; [exact G1|]. split; [exact G2|].
        intros n Hin H. apply in_app_or in H. destruct H as [H|H]; [apply (Cis n); [apply in_or_app; right; exact Hin|exact H]|].
        apply (Cx n H Hin).
    + split; [discriminate|]. intros (M & _). inversion M; subst. contradiction.
Qed.

(* ---------------------------------------------------------------------------------------- *)
(* 4. the extensions the collection leaves behind, and the relation names of the base types  *)
(* ---------------------------------------------------------------------------------------- *)
Lemma assoc_app_notin {A} k (l1 l2 : list (str * A)) : ~ In k (keys l1) -> assoc k (l1 ++ l2) = assoc k l2.
Proof.
  induction l1 as [|[k0 v0] l1 IH]; simpl; intros H; [reflexivity|].
  destruct (str_eqb_spec k k0) as [->|Hne]; [exfalso; apply H; left; reflexivity|]. apply IH. intros Hin. apply H. right. exact Hin.
Qed.
Lemma assoc_set_app_notin {A} k (v : A) (l1 l2 : list (str * A)) : ~ In k (keys l1) -> assoc_set k v (l1 ++ l2) = l1 ++ assoc_set k v l2.
Proof.
  induction l1 as [|[k0 v0] l1 IH]; simpl; intros H; [reflexivity|].
  destruct (str_eqb_spec k k0) as [->|Hne]; [exfalso; apply H; left; reflexivity|]. f_equal. apply IH. intros Hin. apply H. right. exact Hin.
Qed.

Lemma fold_assoc_append_started name : forall (tds l : list typedef) (ext : list (str * list typedef)),
  ~ In name (keys ext) ->
  fold_left (fun e td => assoc_append name td e) tds (ext ++ [(name, l)]) = ext ++ [(name, l ++ tds)].
Proof.
  induction tds as [|td tds IH]; intros l ext H; cbn [fold_left]; [rewrite app_nil_r; reflexivity|].
  unfold assoc_append at 2. rewrite assoc_app_notin by exact H. cbn [assoc]. rewrite str_eqb_refl.
  rewrite assoc_set_app_notin by exact H. cbn [assoc_set]. rewrite str_eqb_refl.
  rewrite IH by exact H. rewrite <- app_assoc. reflexivity.
Qed.

Lemma fold_assoc_append name tds (ext : list (str * list typedef)) :
  ~ In name (keys ext) ->
  fold_left (fun e td => assoc_append name td e) tds ext = ext ++ match tds with [] => [] | _ => [(name, tds)] end.
Proof.
  intros H. destruct tds as [|td tds]; [cbn; rewrite app_nil_r; reflexivity|]. cbn [fold_left].
  unfold assoc_append at 2. rewrite (assoc_notin name ext H).
  rewrite (fold_assoc_append_started name tds [td] ext H). reflexivity.
Qed.

Lemma ext_after_is_all_exts : forall fs ext,
  NoDup (map mf_name fs) -> (forall f, In f fs -> ~ In (mf_name f) (keys ext)) ->
  ext_after fs ext = ext ++ all_exts fs.
Proof.
  induction fs as [|f fs IH]; intros ext Hnd Hfresh; [unfold ext_after, all_exts; cbn; rewrite app_nil_r; reflexivity|].
  inversion Hnd as [|? ? Hx Hnd']; subst.
  assert (Hstep : ext_after (f :: fs) ext = ext_after fs (fold_left (fun e td => assoc_append (mf_name f) td e) (file_exts f) ext)) by reflexivity.
  rewrite Hstep. rewrite fold_assoc_append by (apply Hfresh; left; reflexivity).
  assert (Hall : all_exts (f :: fs) = match file_exts f with [] => [] | _ => [(mf_name f, file_exts f)] end ++ all_exts fs).
  { unfold all_exts. cbn [flat_map]. destruct (file_exts f); reflexivity. }
  rewrite Hall. rewrite IH; [rewrite <- app_assoc; reflexivity|exact Hnd'|].
  intros f' Hin H. unfold keys in H. rewrite map_app in H. apply in_app_or in H. destruct H as [H|H].
  - apply (Hfresh f'); [right; exact Hin|exact H].
  - destruct (file_exts f); [destruct H|]. destruct H as [H|[]]. cbn in H. apply Hx. rewrite H. apply in_map. exact Hin.
Qed.

Lemma all_exts_flat fs : flat_map snd (all_exts fs) = exts_of fs.
Proof.
  unfold all_exts, exts_of. induction fs as [|f fs IH]; cbn [flat_map]; [reflexivity|].
  rewrite flat_map_app, IH. destruct (file_exts f); [reflexivity|]. cbn. rewrite app_nil_r. reflexivity.
Qed.

(* the base types after collection: names, relations and metadata of the definitions *)
Lemma attributed_name file td : td_name (attributed file td) = td_name td.
Proof. unfold attributed. destruct (td_meta td); reflexivity. Qed.
Lemma attributed_rels file td : td_rels (attributed file td) = td_rels td.
Proof. unfold attributed. destruct (td_meta td); reflexivity. Qed.

Lemma all_defs_names fs : map td_name (all_defs fs) = map td_name (defs_of fs).
Proof.
  unfold all_defs, defs_of. induction fs as [|f fs IH]; cbn [flat_map]; [reflexivity|].
  rewrite !map_app, IH, map_map. f_equal. apply map_ext. intros td. apply attributed_name.
Qed.

Lemma all_defs_meta fs : Forall (fun td => td_meta td <> None) (defs_of fs) -> Forall meta_some (all_defs fs).
Proof.
  unfold all_defs, defs_of. induction fs as [|f fs IH]; cbn [flat_map]; intros H; [constructor|].
  apply Forall_app in H. destruct H as [H1 H2]. apply Forall_app. split; [|apply IH; exact H2].
  apply Forall_forall. intros t Ht. apply in_map_iff in Ht. destruct Ht as [td [<- Hin]]. rewrite Forall_forall in H1. specialize (H1 td Hin).
  unfold meta_some, attributed. destruct (td_meta td); [cbn; discriminate|contradiction].
Qed.

(* with distinct names, the relation names of T are those of its one definition *)
Lemma index_find T : forall raw k,
  match index_of_type T raw k with
  | Some i => find (fun t => str_eqb (td_name t) T) raw = Some (nth (i - k) raw empty_typedef)
  | None => find (fun t => str_eqb (td_name t) T) raw = None
  end.
Proof.
  induction raw as [|t raw IH]; intros k; cbn [index_of_type find]; [reflexivity|].
  destruct (str_eqb (td_name t) T); [rewrite Nat.sub_diag; reflexivity|].
  specialize (IH (S k)). destruct (index_of_type T raw (S k)) as [i|] eqn:E; [|exact IH].
  destruct (index_of_type_bound _ _ _ _ E) as [Hb _]. replace (i - k)%nat with (S (i - S k)) by lia. exact IH.
Qed.

Lemma filter_none_named T raw : ~ In T (map td_name raw) -> filter (fun t => str_eqb (td_name t) T) raw = [].
Proof.
  induction raw as [|t raw IH]; intros H; [reflexivity|]. cbn [filter].
  destruct (str_eqb_spec (td_name t) T) as [E|_]; [exfalso; apply H; left; exact E|]. apply IH. intros Hin. apply H. right. exact Hin.
Qed.

Lemma filter_find_nodup T raw : NoDup (map td_name raw) ->
  filter (fun t => str_eqb (td_name t) T) raw = match find (fun t => str_eqb (td_name t) T) raw with Some t => [t] | None => [] end.
Proof.
  induction raw as [|t raw IH]; intros Hnd; cbn [filter find]; [reflexivity|].
  inversion Hnd as [|a b Hx Hnd' Eab]. destruct (str_eqb_spec (td_name t) T) as [E|E]; [|apply IH; exact Hnd'].
  f_equal. apply filter_none_named. rewrite <- E. exact Hx.
Qed.

Lemma rk_filter raw T : NoDup (map td_name raw) ->
  rk raw T = flat_map (fun td => keys (td_rels td)) (filter (fun td => str_eqb (td_name td) T) raw).
Proof.
  intros Hnd. rewrite (filter_find_nodup T raw Hnd). unfold rk. pose proof (index_find T raw 0) as H.
  destruct (index_of_type T raw 0) as [i|]; rewrite H; [rewrite Nat.sub_0_r; cbn; rewrite app_nil_r; reflexivity|reflexivity].
Qed.

Lemma all_defs_contrib fs T :
  flat_map (fun td => keys (td_rels td)) (filter (fun td => str_eqb (td_name td) T) (all_defs fs)) =
  flat_map (fun td => keys (td_rels td)) (filter (fun td => str_eqb (td_name td) T) (defs_of fs)).
Proof.
  unfold all_defs, defs_of. induction fs as [|f fs IH]; cbn [flat_map]; [reflexivity|].
  rewrite !filter_app, !flat_map_app, IH. f_equal.
  induction (file_defs f) as [|td l IHl]; [reflexivity|]. cbn [map filter]. rewrite attributed_name.
  destruct (str_eqb (td_name td) T); [cbn [flat_map]; rewrite attributed_rels, IHl; reflexivity|exact IHl].
Qed.

(* ---------------------------------------------------------------------------------------- *)
(* 5. the theorem                                                                            *)
(* ---------------------------------------------------------------------------------------- *)
Lemma ext_free_iff_declarative fs :
  wf_modules fs -> NoDup (map td_name (defs_of fs)) ->
  (ext_free (all_defs fs) (exts_of fs) <->
   (forall td, In td (exts_of fs) -> In (td_name td) (map td_name (defs_of fs))) /\ forall T, NoDup (contributed fs T)).
Proof.
  intros Hwf Hnd. unfold ext_free. rewrite all_defs_names.
  assert (Hrk : forall T, rk (all_defs fs) T =
                flat_map (fun td => keys (td_rels td)) (filter (fun td => str_eqb (td_name td) T) (defs_of fs))).
  { intros T. rewrite rk_filter by (rewrite all_defs_names; exact Hnd). apply all_defs_contrib. }
  assert (Hkeys : forall T, NoDup (rk (all_defs fs) T)).
  { intros T. rewrite Hrk. rewrite (filter_find_nodup T (defs_of fs) Hnd).
    destruct (find _ (defs_of fs)) as [t|] eqn:Ef; [|constructor]. cbn. rewrite app_nil_r.
    apply find_some in Ef. destruct Ef as [Hin _]. pose proof (wf_rel_keys _ Hwf) as W. rewrite Forall_forall in W.
    apply W. apply in_or_app. left. exact Hin. }
  split.
  - intros [Ht Hc]. split; [exact Ht|]. intros T. unfold contributed, contributed_in. rewrite <- Hrk. fold (contrib T (exts_of fs)).
    destruct (Hc T) as [Hn Hd]. apply NoDup_app_iff. split; [apply Hkeys|split; [exact Hn|]]. intros x Hx Hy. apply (Hd x Hy Hx).
  - intros [Ht Hc]. split; [exact Ht|]. intros T. specialize (Hc T). unfold contributed, contributed_in in Hc. rewrite <- Hrk in Hc.
    fold (contrib T (exts_of fs)) in Hc. apply NoDup_app_iff in Hc. destruct Hc as (_ & Hn & Hd). split; [exact Hn|].
    intros n Hin Hr. apply (Hd n Hr Hin).
Qed.

Theorem merge_ok_iff fs v :
  wf_modules fs -> ((exists m, merge fs v = Ok m) <-> conflict_free fs).
Proof.
  intros Hwf. unfold merge.
  assert (Hext : ext_wf_all (exts_of fs)).
  { unfold ext_wf_all. apply Forall_forall. intros td Hin. split.
    - pose proof (wf_ext_meta _ Hwf) as W. rewrite Forall_forall in W. exact (W td Hin).
    - pose proof (wf_rel_keys _ Hwf) as W. rewrite Forall_forall in W. apply W. apply in_or_app. right. exact Hin. }
  destruct (files_ok fs [] []) eqn:Eok.
  - (* the collection phase raises nothing *)
    destruct (collect_files_good fs 0 init_mstate Eok) as (s & Es & Ee & Er & Et & Ex & Ec). rewrite Es.
    cbn [init_mstate ms_errs ms_raw ms_types ms_ext ms_conds app] in *.
    rewrite (ext_after_is_all_exts fs [] (wf_names _ Hwf)) in Ex by (intros f _ []). cbn [app] in Ex.
    apply files_ok_iff in Eok. destruct Eok as (M & DM & DN & _ & CM & CN & _).
    destruct (apply_all_seq (ms_lines s) (all_exts fs) (all_defs fs) [] (all_defs_meta fs DM)) as (raw' & more & Ea & Na & Ma & Hiff & _).
    { rewrite all_exts_flat. exact Hext. }
    rewrite Ex, Er, Ee, Ea. cbn [app]. rewrite all_exts_flat in Hiff.
    rewrite (ext_free_iff_declarative fs Hwf DN) in Hiff.
    split.
    + intros [m Hm]. destruct more as [|e0 more]; [|discriminate Hm].
      destruct (proj1 Hiff eq_refl) as [Ht Hc]. constructor; assumption.
    + intros [_ _ _ Ht Hc]. rewrite (proj2 Hiff (conj Ht Hc)). eauto.
  - (* the collection phase raises an error (or would dereference nil): not conflict-free *)
    split.
    + intros [m Hm]. exfalso. pose proof (collect_files_bad fs 0 init_mstate Eok) as Hb.
      destruct (collect_files fs 0 init_mstate) as [s| |]; try discriminate Hm.
      destruct Hb as [more [E Hne]]. cbn [init_mstate ms_errs app] in E.
      destruct (apply_all _ _ _ _) as [[raw es]|] eqn:Ea; [|discriminate Hm].
      destruct (apply_all_errs _ _ _ _ _ _ Ea) as [more2 E2]. rewrite E in E2. destruct es; [|discriminate Hm].
      symmetry in E2. apply app_eq_nil in E2. destruct E2 as [E2 _]. contradiction.
    + intros [M DN CN _ _]. exfalso.
      assert (files_ok fs [] [] = true); [|congruence].
      apply files_ok_iff. split; [exact M|]. split; [apply (wf_def_meta _ Hwf)|]. split; [exact DN|]. split; [intros td _ []|].
      split; [apply (wf_cond_meta _ Hwf)|]. split; [exact CN|intros n _ []].
Qed.

(* ---------------------------------------------------------------------------------------- *)
(* 6. the order of the files (C12)                                                           *)
(* ---------------------------------------------------------------------------------------- *)
Lemma perm_flat_map {A B} (g : A -> list B) l l' : Permutation l l' -> Permutation (flat_map g l) (flat_map g l').
Proof.
  induction 1 as [|x l l' _ IH|x y l|l l' l'' _ IH1 _ IH2]; cbn [flat_map].
  - apply Permutation_refl.
  - apply Permutation_app_head. exact IH.
  - rewrite !app_assoc. apply Permutation_app_tail. apply Permutation_app_comm.
  - eapply Permutation_trans; eauto.
Qed.

Lemma perm_filter {A} (f : A -> bool) l l' : Permutation l l' -> Permutation (filter f l) (filter f l').
Proof.
  induction 1 as [|x l l' _ IH|x y l|l l' l'' _ IH1 _ IH2]; cbn [filter].
  - apply Permutation_refl.
  - destruct (f x); [apply perm_skip|]; exact IH.
  - destruct (f x), (f y); try apply Permutation_refl. apply perm_swap.
  - eapply Permutation_trans; eauto.
Qed.

Lemma perm_Forall {A} (P : A -> Prop) l l' : Permutation l l' -> Forall P l -> Forall P l'.
Proof. intros Hp H. apply Forall_forall. rewrite Forall_forall in H. intros x Hx. apply H. apply (Permutation_in x (Permutation_sym Hp)). exact Hx. Qed.

Lemma conflict_free_perm fs fs' : Permutation fs fs' -> conflict_free fs -> conflict_free fs'.
Proof.
  intros Hp [M DN CN Ht Hc].
  assert (Pd : Permutation (defs_of fs) (defs_of fs')) by (apply perm_flat_map; exact Hp).
  assert (Pe : Permutation (exts_of fs) (exts_of fs')) by (apply perm_flat_map; exact Hp).
  assert (Pc : Permutation (conds_of fs) (conds_of fs')) by (apply perm_flat_map; exact Hp).
  constructor.
  - eapply perm_Forall; eauto.
  - apply (Permutation_NoDup (Permutation_map td_name Pd)). exact DN.
  - apply (Permutation_NoDup (Permutation_map fst Pc)). exact CN.
  - intros td Hin. apply (Permutation_in _ (Permutation_map td_name Pd)). apply Ht.
    apply (Permutation_in td (Permutation_sym Pe)). exact Hin.
  - intros T. specialize (Hc T). unfold contributed, contributed_in in *.
    eapply Permutation_NoDup; [|exact Hc]. apply Permutation_app; apply perm_flat_map; apply perm_filter; assumption.
Qed.

Lemma wf_modules_perm fs fs' : Permutation fs fs' -> wf_modules fs -> wf_modules fs'.
Proof.
  intros Hp [N DM CM EM RK].
  assert (Pd : Permutation (defs_of fs) (defs_of fs')) by (apply perm_flat_map; exact Hp).
  assert (Pe : Permutation (exts_of fs) (exts_of fs')) by (apply perm_flat_map; exact Hp).
  assert (Pc : Permutation (conds_of fs) (conds_of fs')) by (apply perm_flat_map; exact Hp).
  constructor.
  - apply (Permutation_NoDup (Permutation_map mf_name Hp)). exact N.
  - eapply perm_Forall; eauto.
  - eapply perm_Forall; eauto.
  - eapply perm_Forall; eauto.
  - eapply perm_Forall; [|exact RK]. apply Permutation_app; assumption.
Qed.

(* permuting the list of files never changes whether the merge succeeds *)
Theorem merge_success_order_independent fs fs' v :
  wf_modules fs -> Permutation fs fs' -> ((exists m, merge fs v = Ok m) <-> (exists m', merge fs' v = Ok m')).
Proof.
  intros Hwf Hp. rewrite (merge_ok_iff fs v Hwf), (merge_ok_iff fs' v (wf_modules_perm fs fs' Hp Hwf)).
  split; apply conflict_free_perm; [exact Hp|apply Permutation_sym; exact Hp].
Qed.

(* what a successful merge returns: the declared types in file order, each with exactly the relation names
   contributed to it, and the declared conditions attributed to their files *)
Theorem merge_ok_result fs v m :
  wf_modules fs -> merge fs v = Ok m ->
  m_schema m = v /\ map td_name (m_types m) = map td_name (defs_of fs) /\ m_conds m = all_conds fs /\
  forall T, Permutation (rk (m_types m) T) (contributed fs T).
Proof.
  intros Hwf Hm. assert (Hcf : conflict_free fs) by (apply (merge_ok_iff fs v Hwf); eauto).
  destruct Hcf as [M DN CN Ht Hc]. unfold merge in Hm.
  assert (Eok : files_ok fs [] [] = true).
  { apply files_ok_iff. split; [exact M|]. split; [apply (wf_def_meta _ Hwf)|]. split; [exact DN|]. split; [intros td _ []|].
    split; [apply (wf_cond_meta _ Hwf)|]. split; [exact CN|intros n _ []]. }
  destruct (collect_files_good fs 0 init_mstate Eok) as (s & Es & Ee & Er & Et & Ex & Ec). rewrite Es in Hm.
  cbn [init_mstate ms_errs ms_raw ms_types ms_ext ms_conds app] in *.
  rewrite (ext_after_is_all_exts fs [] (wf_names _ Hwf)) in Ex by (intros f _ []). cbn [app] in Ex.
  assert (Hext : ext_wf_all (flat_map snd (all_exts fs))).
  { rewrite all_exts_flat. unfold ext_wf_all. apply Forall_forall. intros td Hin. split.
    - pose proof (wf_ext_meta _ Hwf) as W. rewrite Forall_forall in W. exact (W td Hin).
    - pose proof (wf_rel_keys _ Hwf) as W. rewrite Forall_forall in W. apply W. apply in_or_app. right. exact Hin. }
  destruct (apply_all_seq (ms_lines s) (all_exts fs) (all_defs fs) [] (all_defs_meta fs (wf_def_meta _ Hwf)) Hext)
    as (raw' & more & Ea & Na & Ma & Hiff & Hp).
  rewrite Ex, Er, Ee, Ea in Hm. cbn [app] in Hm. destruct more as [|e0 more]; [|discriminate Hm]. inversion Hm; subst m. cbn.
  split; [reflexivity|]. split; [rewrite Na; apply all_defs_names|]. split; [exact Ec|].
  intros T. eapply Permutation_trans; [apply (Hp eq_refl T)|]. rewrite all_exts_flat. unfold contributed, contributed_in.
  rewrite rk_filter by (rewrite all_defs_names; exact DN). rewrite all_defs_contrib. apply Permutation_refl.
Qed.

(* ---------------------------------------------------------------------------------------- *)
(* 7. totality (C08): on files as the parser delivers them the merge never dereferences nil  *)
(* ---------------------------------------------------------------------------------------- *)
Definition mstate_ok (s : mstate) : Prop := Forall meta_some (ms_raw s) /\ ext_wf_all (flat_map snd (ms_ext s)).

Lemma Forall_assoc_append (P : typedef -> Prop) file td (ext : list (str * list typedef)) :
  Forall P (flat_map snd ext) -> P td -> Forall P (flat_map snd (assoc_append file td ext)).
Proof.
  intros H Ht. unfold assoc_append. destruct (assoc file ext) as [vs|] eqn:Ea.
  - clear -H Ht Ea. revert Ea. induction ext as [|[k v] ext IH]; cbn [assoc assoc_set flat_map snd]; [discriminate|].
    cbn [flat_map snd] in H. apply Forall_app in H. destruct H as [H1 H2].
    destruct (str_eqb file k); intros Ea.
    + inversion Ea; subst. cbn [flat_map snd]. apply Forall_app. split; [|exact H2]. apply Forall_app. split; [exact H1|constructor; [exact Ht|constructor]].
    + cbn [flat_map snd]. apply Forall_app. split; [exact H1|]. apply IH; assumption.
  - rewrite flat_map_app. apply Forall_app. split; [exact H|]. cbn. constructor; [exact Ht|constructor].
Qed.

Lemma collect_types_keeps file lines exts : forall tds i s,
  Forall (fun td => ext_has_meta td /\ NoDup (keys (td_rels td))) (ct_exts exts tds i) ->
  mstate_ok s -> mstate_ok (collect_types file lines exts tds i s).
Proof.
  induction tds as [|td tds IH]; intros i s Hx Hs; [exact Hs|].
  cbn [collect_types]. cbn [ct_exts] in Hx. fold (is_ext exts i td) in *. destruct (is_ext exts i td) eqn:Ex.
  - rewrite andb_false_r. inversion Hx as [|? ? Ht Hx']; subst. apply IH; [exact Hx'|].
    destruct Hs as [H1 H2]. split; [exact H1|]. cbn [ms_ext]. apply Forall_assoc_append; assumption.
  - rewrite andb_true_r. destruct (mem_str (td_name td) (ms_types s)); [apply IH; [exact Hx|exact Hs]|].
    destruct (td_meta td) as [md|] eqn:Em; apply IH; try exact Hx.
    + destruct Hs as [H1 H2]. split; [|exact H2]. cbn [ms_raw]. apply Forall_app. split; [exact H1|].
      constructor; [unfold meta_some; cbn; discriminate|constructor].
    + exact Hs.
Qed.

Lemma collect_conds_total file lines : forall cs s,
  Forall (fun p : str * condition => c_meta (snd p) <> None) cs ->
  exists s', collect_conds file lines cs s = Some s' /\ ms_raw s' = ms_raw s /\ ms_ext s' = ms_ext s.
Proof.
  induction cs as [|[n c] cs IH]; intros s H; [exists s; auto|]. inversion H as [|? ? Hm H']; subst. cbn [collect_conds].
  destruct (assoc n (ms_conds s)).
  - destruct (IH (with_errs s [MConflict (lit "duplicate condition " ++ n) file (construct_position lines (condition_line n lines) n)]) H')
      as (s' & E & R & X). exists s'. auto.
  - cbn in Hm. destruct (c_meta c) as [md|]; [|contradiction].
    match goal with |- context [collect_conds file lines cs ?s1] => destruct (IH s1 H') as (s' & E & R & X) end.
    exists s'. auto.
Qed.

Lemma collect_files_total : forall fs k s,
  (forall f, In f fs -> match dsl_to_model (mf_text f) with DPanic _ => False | _ => True end) ->
  Forall (fun td => ext_has_meta td /\ NoDup (keys (td_rels td))) (exts_of fs) ->
  Forall (fun p : str * condition => c_meta (snd p) <> None) (conds_of fs) ->
  mstate_ok s ->
  exists s', collect_files fs k s = Ok s' /\ mstate_ok s'.
Proof.
  induction fs as [|f fs IH]; intros k s Hp Hx Hc Hs; [exists s; auto|].
  unfold exts_of, conds_of in Hx, Hc. cbn [flat_map] in Hx, Hc. apply Forall_app in Hx. apply Forall_app in Hc.
  destruct Hx as [Hx1 Hx2]. destruct Hc as [Hc1 Hc2].
  assert (Hp' : forall f0, In f0 fs -> match dsl_to_model (mf_text f0) with DPanic _ => False | _ => True end)
    by (intros f0 Hin; apply Hp; right; exact Hin).
  specialize (Hp f (or_introl eq_refl)). cbn [collect_files].
  unfold file_exts, file_conds, module_of in Hx1, Hc1.
  destruct (dsl_to_model (mf_text f)) as [m exts md| | |]; [| | |contradiction].
  - destruct (is_empty (m_schema m)) eqn:Es; cbn [negb].
    + match goal with |- context [collect_types ?a ?b ?c ?d ?e ?s0] =>
        assert (Hs1 : mstate_ok (collect_types a b c d e s0)) by (apply collect_types_keeps; [exact Hx1|exact Hs]);
        destruct (collect_conds_total a b (stable_sort pair_cmp (m_conds m)) (collect_types a b c d e s0) Hc1) as (s2 & E2 & R2 & X2)
      end.
      rewrite E2. apply IH; auto. destruct Hs1 as [A B]. split; [rewrite R2; exact A|rewrite X2; exact B].
    + apply IH; auto.
  - apply IH; auto.
  - apply IH; auto.
Qed.

Theorem merge_total fs v :
  (forall f, In f fs -> match dsl_to_model (mf_text f) with DPanic _ => False | _ => True end) ->
  wf_modules fs -> is_panic (merge fs v) = false.
Proof.
  intros Hp Hwf. unfold merge.
  assert (Hx : Forall (fun td => ext_has_meta td /\ NoDup (keys (td_rels td))) (exts_of fs)).
  { apply Forall_forall. intros td Hin. split.
    - pose proof (wf_ext_meta _ Hwf) as W. rewrite Forall_forall in W. exact (W td Hin).
    - pose proof (wf_rel_keys _ Hwf) as W. rewrite Forall_forall in W. apply W. apply in_or_app. right. exact Hin. }
  destruct (collect_files_total fs 0 init_mstate Hp Hx (wf_cond_meta _ Hwf)) as (s & Es & [A B]).
  { split; [constructor|constructor]. }
  rewrite Es. destruct (apply_all_seq (ms_lines s) (ms_ext s) (ms_raw s) (ms_errs s) A B) as (raw' & more & Ea & _).
  rewrite Ea. destruct (ms_errs s ++ more); reflexivity.
Qed.

(* Proofs/DocNatural.v — the parser model reads token KINDS only, on whole documents: relabelling the tokens without
   changing their kinds commutes with [parse]. *)
From Coq Require Import Lia.
From Verif Require Import Base.Str Model.Token Model.Parser Spec.Sem Proofs.ParserComplete Proofs.ParserNatural Proofs.DeclRoundTrip.

Section Natural.
  Variable g : tok -> tok.
  Hypothesis g_kind : forall t, tk (g t) = tk t.

  Definition typedecl_map (t : typedecl) : typedecl :=
    {| ty_extend := ty_extend t; ty_name := g (ty_name t); ty_rels := map (reldecl_map g) (ty_rels t) |}.
  Definition pdecl_map (p : pdecl) : pdecl :=
    {| pd_name := g (pd_name p); pd_container := option_map g (pd_container p); pd_type := g (pd_type p) |}.
  Definition conddecl_map (c : conddecl) : conddecl :=
    {| cd_name := g (cd_name c); cd_params := map pdecl_map (cd_params c); cd_expr := map g (cd_expr c) |}.
  Definition header_map (h : header) : header :=
    match h with HModel v => HModel (g v) | HModule n => HModule (g n) end.
  Definition file_map (f : file) : file :=
    {| f_header := header_map (f_header f); f_types := map typedecl_map (f_types f); f_conds := map conddecl_map (f_conds f) |}.

  Lemma starts_with_map ks ts : starts_with ks (map g ts) = starts_with ks ts.
  Proof.
    unfold starts_with. rewrite (lead_in_map g g_kind). destruct (lead_in ts) as [r|]; cbn [option_map]; [|reflexivity].
    induction ks as [|k ks IH]; [reflexivity|]. cbn [existsb]. rewrite (is_tk_map g g_kind k r), IH. reflexivity.
  Qed.

  Lemma p_reldecls_map fuel : forall ts, p_reldecls fuel (map g ts) = pmap g (map (reldecl_map g)) (p_reldecls fuel ts).
  Proof.
    induction fuel as [|f IH]; intros ts; [reflexivity|]. cbn [p_reldecls]. rewrite starts_with_map.
    destruct (starts_with [DEFINE] ts); [|reflexivity].
    rewrite (p_reldecl_map g g_kind). destruct (p_reldecl ts) as [[r r1]|]; cbn [pmap option_map fst snd]; [|reflexivity].
    rewrite IH. destruct (p_reldecls f r1) as [[rs r2]|]; cbn [pmap option_map fst snd]; reflexivity.
  Qed.

  Definition td_tail (ext : bool) (ts : list tok) : P typedecl :=
    do (_, ts) <- expect TYPE ts;
    do (_, ts) <- expect WHITESPACE ts;
    do (nm, ts) <- expect_p is_ext_identifier_tk ts;
    if is_tk NEWLINE ts && is_tk2 RELATIONS ts then
      do (r, ts) <- p_reldecl (tl (tl ts));
      do (rs, ts) <- p_reldecls (S (length ts)) ts;
      Some ({| ty_extend := ext; ty_name := nm; ty_rels := r :: rs |}, ts)
    else Some ({| ty_extend := ext; ty_name := nm; ty_rels := [] |}, ts).

  Lemma p_typedef_parts ts :
    p_typedef ts = match lead_in ts with
                   | None => None
                   | Some r0 => if is_tk EXTEND r0 then match expect WHITESPACE (tl r0) with Some (_, r1) => td_tail true r1 | None => None end
                                else td_tail false r0
                   end.
  Proof.
    unfold p_typedef, td_tail. destruct (lead_in ts) as [r0|]; cbn [option_map fst]; [|reflexivity].
    destruct (is_tk EXTEND r0); [|reflexivity]. destruct (expect WHITESPACE (tl r0)) as [[x r1]|]; reflexivity.
  Qed.

  Lemma td_tail_map ext r1 : td_tail ext (map g r1) = pmap g typedecl_map (td_tail ext r1).
  Proof.
    unfold td_tail.
    rewrite (expect_map g g_kind). destruct (expect TYPE r1) as [[x2 r2]|]; cbn [pmap option_map fst snd]; [|reflexivity].
    rewrite (expect_map g g_kind). destruct (expect WHITESPACE r2) as [[x3 r3]|]; cbn [pmap option_map fst snd]; [|reflexivity].
    rewrite (expect_p_map g g_kind). destruct (expect_p is_ext_identifier_tk r3) as [[nm r4]|]; cbn [pmap option_map fst snd]; [|reflexivity].
    rewrite (is_tk_map g g_kind NEWLINE r4), (is_tk2_map g g_kind RELATIONS r4).
    destruct (is_tk NEWLINE r4 && is_tk2 RELATIONS r4); [|reflexivity].
    rewrite !(tl_map g), (p_reldecl_map g g_kind). destruct (p_reldecl (tl (tl r4))) as [[r r5]|]; cbn [pmap option_map fst snd]; [|reflexivity].
    rewrite map_length, p_reldecls_map. destruct (p_reldecls (S (length r5)) r5) as [[rs r6]|]; cbn [pmap option_map fst snd]; reflexivity.
  Qed.

  Lemma p_typedef_map ts : p_typedef (map g ts) = pmap g typedecl_map (p_typedef ts).
  Proof.
    rewrite !p_typedef_parts, (lead_in_map g g_kind). destruct (lead_in ts) as [r0|]; cbn [option_map]; [|reflexivity].
    rewrite (is_tk_map g g_kind EXTEND r0). destruct (is_tk EXTEND r0); [|apply td_tail_map].
    rewrite (tl_map g), (expect_map g g_kind). destruct (expect WHITESPACE (tl r0)) as [[x1 r1]|]; cbn [pmap option_map fst snd]; [|reflexivity].
    apply td_tail_map.
  Qed.

  Lemma p_typedefs_map fuel : forall ts, p_typedefs fuel (map g ts) = pmap g (map typedecl_map) (p_typedefs fuel ts).
  Proof.
    induction fuel as [|f IH]; intros ts; [reflexivity|]. cbn [p_typedefs]. rewrite starts_with_map.
    destruct (starts_with [EXTEND; TYPE] ts); [|reflexivity].
    rewrite p_typedef_map. destruct (p_typedef ts) as [[t r1]|]; cbn [pmap option_map fst snd]; [|reflexivity].
    rewrite IH. destruct (p_typedefs f r1) as [[tds r2]|]; cbn [pmap option_map fst snd]; reflexivity.
  Qed.

  Lemma p_param_map ts : p_param (map g ts) = pmap g pdecl_map (p_param ts).
  Proof.
    unfold p_param. rewrite (skip_opt_map g g_kind), (expect_map g g_kind).
    destruct (expect IDENTIFIER (skip_opt NEWLINE ts)) as [[nm r1]|]; cbn [pmap option_map fst snd]; [|reflexivity].
    rewrite (skip_opt_map g g_kind), (expect_map g g_kind).
    destruct (expect COLON (skip_opt WHITESPACE r1)) as [[x r2]|]; cbn [pmap option_map fst snd]; [|reflexivity].
    rewrite (skip_opt_map g g_kind WHITESPACE r2), (is_tk_map g g_kind CONDITION_PARAM_CONTAINER (skip_opt WHITESPACE r2)).
    destruct (is_tk CONDITION_PARAM_CONTAINER (skip_opt WHITESPACE r2)).
    - rewrite (expect_map g g_kind). destruct (expect CONDITION_PARAM_CONTAINER (skip_opt WHITESPACE r2)) as [[c r3]|]; cbn [pmap option_map fst snd]; [|reflexivity].
      rewrite (expect_map g g_kind). destruct (expect LESS r3) as [[x4 r4]|]; cbn [pmap option_map fst snd]; [|reflexivity].
      rewrite (expect_map g g_kind). destruct (expect CONDITION_PARAM_TYPE r4) as [[t r5]|]; cbn [pmap option_map fst snd]; [|reflexivity].
      rewrite (expect_map g g_kind). destruct (expect GREATER r5) as [[x6 r6]|]; cbn [pmap option_map fst snd]; reflexivity.
    - rewrite (expect_map g g_kind). destruct (expect CONDITION_PARAM_TYPE (skip_opt WHITESPACE r2)) as [[t r3]|]; cbn [pmap option_map fst snd]; reflexivity.
  Qed.

  Lemma p_params_more_map fuel : forall ts, p_params_more fuel (map g ts) = pmap g (map pdecl_map) (p_params_more fuel ts).
  Proof.
    induction fuel as [|f IH]; intros ts; [reflexivity|]. cbn [p_params_more]. rewrite (is_tk_map g g_kind COMMA ts).
    destruct (is_tk COMMA ts); [|reflexivity].
    rewrite (tl_map g), (skip_opt_map g g_kind), p_param_map.
    destruct (p_param (skip_opt WHITESPACE (tl ts))) as [[p r1]|]; cbn [pmap option_map fst snd]; [|reflexivity].
    rewrite (skip_opt_map g g_kind), IH. destruct (p_params_more f (skip_opt WHITESPACE r1)) as [[ps r2]|]; cbn [pmap option_map fst snd]; reflexivity.
  Qed.

  Lemma take_expr_map ts : take_expr (map g ts) = (map g (fst (take_expr ts)), map g (snd (take_expr ts))).
  Proof.
    induction ts as [|t r IH]; [reflexivity|]. cbn [map take_expr]. rewrite g_kind. destruct (tk_eqb (tk t) RBRACE); [reflexivity|].
    rewrite IH. destruct (take_expr r) as [e r']. reflexivity.
  Qed.

  Lemma p_condition_map ts : p_condition (map g ts) = pmap g conddecl_map (p_condition ts).
  Proof.
    unfold p_condition. rewrite (lead_in_map g g_kind). destruct (lead_in ts) as [r0|]; cbn [option_map fst pmap]; [|reflexivity].
    rewrite (expect_map g g_kind). destruct (expect CONDITION r0) as [[x1 r1]|]; cbn [pmap option_map fst snd]; [|reflexivity].
    rewrite (expect_map g g_kind). destruct (expect WHITESPACE r1) as [[x2 r2]|]; cbn [pmap option_map fst snd]; [|reflexivity].
    rewrite (expect_map g g_kind). destruct (expect IDENTIFIER r2) as [[nm r3]|]; cbn [pmap option_map fst snd]; [|reflexivity].
    rewrite (skip_opt_map g g_kind), (expect_map g g_kind). destruct (expect LPAREN (skip_opt WHITESPACE r3)) as [[x4 r4]|]; cbn [pmap option_map fst snd]; [|reflexivity].
    rewrite (skip_opt_map g g_kind), p_param_map. destruct (p_param (skip_opt WHITESPACE r4)) as [[p r5]|]; cbn [pmap option_map fst snd]; [|reflexivity].
    rewrite (skip_opt_map g g_kind), map_length, p_params_more_map.
    destruct (p_params_more (S (length r5)) (skip_opt WHITESPACE r5)) as [[ps r6]|]; cbn [pmap option_map fst snd]; [|reflexivity].
    rewrite (skip_opt_map g g_kind), (expect_map g g_kind). destruct (expect RPAREN (skip_opt NEWLINE r6)) as [[x7 r7]|]; cbn [pmap option_map fst snd]; [|reflexivity].
    rewrite (skip_opt_map g g_kind), (expect_map g g_kind). destruct (expect LBRACE (skip_opt WHITESPACE r7)) as [[x8 r8]|]; cbn [pmap option_map fst snd]; [|reflexivity].
    rewrite !(skip_opt_map g g_kind), take_expr_map. destruct (take_expr (skip_opt WHITESPACE (skip_opt NEWLINE r8))) as [e r9]. cbn [fst snd].
    rewrite (expect_map g g_kind). destruct (expect RBRACE r9) as [[x10 r10]|]; cbn [pmap option_map fst snd]; reflexivity.
  Qed.

  Lemma p_conditions_map fuel : forall ts, p_conditions fuel (map g ts) = pmap g (map conddecl_map) (p_conditions fuel ts).
  Proof.
    induction fuel as [|f IH]; intros ts; [reflexivity|]. cbn [p_conditions]. rewrite starts_with_map.
    destruct (starts_with [CONDITION] ts); [|reflexivity].
    rewrite p_condition_map. destruct (p_condition ts) as [[c r1]|]; cbn [pmap option_map fst snd]; [|reflexivity].
    rewrite IH. destruct (p_conditions f r1) as [[cs r2]|]; cbn [pmap option_map fst snd]; reflexivity.
  Qed.

  Lemma skip_dup_newline_map ts : skip_dup_newline (map g ts) = map g (skip_dup_newline ts).
  Proof.
    unfold skip_dup_newline. rewrite (is_tk_map g g_kind NEWLINE ts), (is_tk2_map g g_kind NEWLINE ts). destruct (is_tk NEWLINE ts && is_tk2 NEWLINE ts); [apply (tl_map g)|reflexivity].
  Qed.

  Lemma p_header_map ts : p_header (map g ts) = pmap g header_map (p_header ts).
  Proof.
    unfold p_header. rewrite (is_tk_map g g_kind HASH ts), map_length, (skip_comment_map g g_kind).
    assert (E : (if is_tk HASH ts then match option_map (map g) (skip_comment (S (length ts)) ts) with
                                        | Some r => if is_tk NEWLINE r then Some (tl r, tl r) else None | None => None end
                 else Some (map g ts, map g ts))
              = option_map (fun p : list tok * list tok => (map g (fst p), map g (snd p)))
                  (if is_tk HASH ts then match skip_comment (S (length ts)) ts with
                                        | Some r => if is_tk NEWLINE r then Some (tl r, tl r) else None | None => None end
                   else Some (ts, ts))).
    { destruct (is_tk HASH ts); [|reflexivity]. destruct (skip_comment (S (length ts)) ts) as [r|]; cbn [option_map]; [|reflexivity].
      rewrite (is_tk_map g g_kind NEWLINE r), (tl_map g). destruct (is_tk NEWLINE r); reflexivity. }
    rewrite E. clear E.
    match goal with |- context [option_map (fun p : list tok * list tok => (map g (fst p), map g (snd p))) ?X] => destruct X as [[a b]|] end;
      cbn [option_map fst snd pmap]; [|reflexivity].
    rewrite (is_tk_map g g_kind MODEL a), (is_tk_map g g_kind MODULE a). destruct (is_tk MODEL a).
    - rewrite (tl_map g), (expect_map g g_kind). destruct (expect NEWLINE (tl a)) as [[x1 r1]|]; cbn [pmap option_map fst snd]; [|reflexivity].
      rewrite (expect_map g g_kind). destruct (expect SCHEMA r1) as [[x2 r2]|]; cbn [pmap option_map fst snd]; [|reflexivity].
      rewrite (expect_map g g_kind). destruct (expect WHITESPACE r2) as [[x3 r3]|]; cbn [pmap option_map fst snd]; [|reflexivity].
      rewrite (expect_map g g_kind). destruct (expect SCHEMA_VERSION r3) as [[v r4]|]; cbn [pmap option_map fst snd]; [|reflexivity].
      rewrite (skip_opt_map g g_kind). reflexivity.
    - destruct (is_tk MODULE a); [|reflexivity].
      rewrite (tl_map g), (expect_map g g_kind). destruct (expect WHITESPACE (tl a)) as [[x1 r1]|]; cbn [pmap option_map fst snd]; [|reflexivity].
      rewrite (expect_p_map g g_kind). destruct (expect_p is_identifier_tk r1) as [[n r2]|]; cbn [pmap option_map fst snd]; [|reflexivity].
      rewrite (skip_opt_map g g_kind). reflexivity.
  Qed.

  Theorem parse_map ts : parse (map g ts) = option_map file_map (parse ts).
  Proof.
    unfold parse. rewrite !(skip_opt_map g g_kind), p_header_map.
    destruct (p_header (skip_opt NEWLINE (skip_opt WHITESPACE ts))) as [[h r1]|]; cbn [pmap option_map fst snd]; [|reflexivity].
    rewrite skip_dup_newline_map, map_length, p_typedefs_map.
    destruct (p_typedefs (S (length r1)) (skip_dup_newline r1)) as [[tds r2]|]; cbn [pmap option_map fst snd]; [|reflexivity].
    rewrite skip_dup_newline_map, map_length, p_conditions_map.
    destruct (p_conditions (S (length r2)) (skip_dup_newline r2)) as [[cs r3]|]; cbn [pmap option_map fst snd]; [|reflexivity].
    rewrite (skip_opt_map g g_kind). destruct (skip_opt NEWLINE r3); reflexivity.
  Qed.
End Natural.

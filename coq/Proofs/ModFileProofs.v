(* Proofs/ModFileProofs.v — fga.mod: every accepted path is safe, plain paths come back verbatim and in
   order, every offending entry contributes exactly one error (C15). *)
From Verif Require Import Base.Str Base.Outcome Model.ModFile.

(* ---- substring facts ---- *)
Lemma is_prefix_app p s : is_prefix p (p ++ s) = true.
Proof. induction p as [|x p IH]; simpl; [reflexivity|]. rewrite N.eqb_refl. exact IH. Qed.

Lemma contains_unfold sub s :
  contains sub s = is_prefix sub s || match s with [] => false | _ :: s' => contains sub s' end.
Proof. destruct s; reflexivity. Qed.

Lemma contains_app_intro sub a c : contains sub (a ++ sub ++ c) = true.
Proof.
  induction a as [|x a IH].
  - simpl. rewrite contains_unfold, is_prefix_app. reflexivity.
  - simpl. rewrite IH. apply orb_true_r.
Qed.

Lemma is_prefix_length p s : is_prefix p s = true -> (length p <= length s)%nat.
Proof. revert s; induction p as [|x p IH]; intros [|y s]; simpl; try discriminate; try lia. intros H. apply andb_prop in H. destruct H as [_ H]. apply IH in H. lia. Qed.

(* ---- the path predicate of the property ---- *)
(* p has a path segment equal to ".." : it is delimited by '/' or by the ends of the string *)
Definition dotdot_segment (p : str) : Prop :=
  exists a b, p = a ++ lit ".." ++ b /\ (a = [] \/ exists a', a = a' ++ [47]) /\ (b = [] \/ exists b', b = 47 :: b').

Definition safe_path (p : str) : Prop :=
  is_prefix (lit "/") p = false /\ ~ dotdot_segment p /\ ~ In 92 p /\ is_suffix (lit ".fga") p = true.

Lemma no_backslash_after_normalize s : ~ In 92 (normalize_path s).
Proof.
  intros H. unfold normalize_path, replace_char in H. apply in_map_iff in H.
  destruct H as [c [Hc _]]. destruct (N.eqb_spec c 92); subst; [discriminate|congruence].
Qed.

Lemma suffix_fga_not_dotdot a : is_suffix (lit ".fga") (a ++ lit "..") = false.
Proof. unfold is_suffix. rewrite rev_app_distr. reflexivity. Qed.

Theorem no_traversal p :
  contains (lit "../") p = false -> is_suffix (lit ".fga") p = true -> ~ dotdot_segment p.
Proof.
  intros Hc Hs [a [b [Ep [_ Hb]]]]. destruct Hb as [->|[b' ->]].
  - rewrite app_nil_r in Ep. subst p. rewrite suffix_fga_not_dotdot in Hs. discriminate.
  - subst p. change (lit ".." ++ 47 :: b') with (lit "../" ++ b') in Hc.
    rewrite contains_app_intro in Hc. discriminate.
Qed.

(* ---- one entry ---- *)
Theorem check_item_safe it p : check_item it = IOk p -> safe_path (p_value p) /\ p_line p = pred (i_line it) /\ p_col p = pred (i_col it).
Proof.
  unfold check_item. destruct (negb (str_eqb (i_tag it) str_node)); [discriminate|].
  destruct (query_unescape (i_value it)) as [d|]; [|discriminate].
  destruct (contains (lit "../") (normalize_path d) || is_prefix (lit "/") (normalize_path d)) eqn:E1; [discriminate|].
  destruct (is_suffix (lit ".fga") (normalize_path d)) eqn:E2; simpl; [|discriminate].
  intros H; inversion H; subst; simpl. apply orb_false_elim in E1. destruct E1 as [Ec Ep].
  repeat split; auto.
  - apply no_traversal; auto.
  - apply no_backslash_after_normalize.
Qed.

(* ---- percent-decoding leaves plain strings alone ---- *)
Definition plain (s : str) : Prop := ~ In 37 s /\ ~ In 43 s /\ ~ In 92 s.

Lemma escapes_ok_plain s : ~ In 37 s -> escapes_ok s = true.
Proof.
  induction s as [|c s IH]; simpl; intros H; [reflexivity|].
  destruct (N.eqb_spec c 37) as [->|_]; [exfalso; apply H; left; reflexivity|]. apply IH. tauto.
Qed.

Lemma unescape_plain fuel s : ~ In 37 s -> ~ In 43 s -> (length s <= fuel)%nat -> unescape_fuel fuel s = s.
Proof.
  revert s; induction fuel as [|f IH]; intros [|c s] H1 H2 Hl; simpl in *; try reflexivity; try lia.
  destruct (N.eqb_spec c 37) as [->|_]; [exfalso; apply H1; left; reflexivity|].
  destruct (N.eqb_spec c 43) as [->|_]; [exfalso; apply H2; left; reflexivity|].
  f_equal. apply IH; try tauto. lia.
Qed.

Lemma normalize_plain s : ~ In 92 s -> normalize_path s = s.
Proof.
  unfold normalize_path, replace_char. induction s as [|c s IH]; simpl; intros H; [reflexivity|].
  destruct (N.eqb_spec c 92) as [->|_]; [exfalso; apply H; left; reflexivity|]. f_equal. apply IH. tauto.
Qed.

Theorem check_item_verbatim it p : plain (i_value it) -> check_item it = IOk p -> p_value p = i_value it.
Proof.
  intros [H1 [H2 H3]]. unfold check_item. destruct (negb (str_eqb (i_tag it) str_node)); [discriminate|].
  unfold query_unescape. rewrite (escapes_ok_plain _ H1). rewrite (unescape_plain _ _ H1 H2 (le_n _)).
  rewrite (normalize_plain _ H3).
  destruct (contains _ _ || is_prefix _ _); [discriminate|]. destruct (is_suffix _ _); simpl; [|discriminate].
  intros H; inversion H; reflexivity.
Qed.

(* ---- the whole manifest ---- *)
Lemma errs_nil_all_ok rs : errs rs = [] -> rs = map IOk (oks rs).
Proof.
  induction rs as [|[p|e] rs IH]; simpl; intros H; [reflexivity| |discriminate].
  f_equal. apply IH. exact H.
Qed.

Theorem transform_mod_ok schema contents f :
  transform_mod schema contents = Ok f ->
  exists n, contents = Some n /\ p_value (mf_schema f) = lit "1.2" /\
            map check_item (y_content n) = map IOk (mf_contents f).
Proof.
  unfold transform_mod. destruct contents as [n|]; [|discriminate].
  destruct (negb (str_eqb (y_tag n) seq_node)); [discriminate|].
  destruct (check_schema schema) as [sp|e] eqn:Es.
  - destruct (errs (map check_item (y_content n))) eqn:Ee; [|discriminate].
    intros H; inversion H; subst; simpl. exists n. repeat split.
    + unfold check_schema in Es. destruct schema as [sn|]; [|discriminate].
      destruct (negb (str_eqb (y_tag sn) str_node)); [discriminate|].
      destruct (str_eqb_spec (y_value sn) (lit "1.2")) as [E|_]; simpl in Es; [|discriminate].
      inversion Es; subst; simpl. exact E.
    + apply errs_nil_all_ok. exact Ee.
  - destruct (errs (map check_item (y_content n))); discriminate.
Qed.

(* every returned path is safe, positioned on its entry, and they come in manifest order, one per entry *)
Theorem transform_mod_safe schema contents f :
  transform_mod schema contents = Ok f ->
  Forall (fun p => safe_path (p_value p)) (mf_contents f) /\
  exists n, contents = Some n /\ length (mf_contents f) = length (y_content n) /\
            forall k it p, nth_error (y_content n) k = Some it -> nth_error (mf_contents f) k = Some p ->
                           check_item it = IOk p.
Proof.
  intros H. destruct (transform_mod_ok _ _ _ H) as [n [Ec [_ Em]]].
  split.
  - apply Forall_forall. intros p Hp.
    assert (Hin : In (IOk p) (map check_item (y_content n))) by (rewrite Em; apply in_map; exact Hp).
    apply in_map_iff in Hin. destruct Hin as [it [Hit _]]. apply (check_item_safe it p Hit).
  - exists n. split; [exact Ec|]. split.
    + apply (f_equal (@length item_result)) in Em. rewrite !map_length in Em. symmetry. exact Em.
    + intros k it p Hk Hp.
      assert (E1 : nth_error (map check_item (y_content n)) k = Some (check_item it)) by (rewrite nth_error_map, Hk; reflexivity).
      rewrite Em, nth_error_map, Hp in E1. simpl in E1. inversion E1. reflexivity.
Qed.

(* one error per offending entry, in manifest order, nothing filtered: the error list of the contents is the
   list of the entries' own errors *)
Theorem contents_errors_one_per_entry items :
  errs (map check_item items) = flat_map (fun it => match check_item it with IErr e => [e] | IOk _ => [] end) items.
Proof. induction items as [|it items IH]; simpl; [reflexivity|]. rewrite IH. destruct (check_item it); reflexivity. Qed.

Theorem transform_mod_rejects_offending schema n :
  str_eqb (y_tag n) seq_node = true ->
  (exists it e, In it (y_content n) /\ check_item it = IErr e) ->
  exists es, transform_mod schema (Some n) = Err es.
Proof.
  intros Ht [it [e [Hin He]]]. unfold transform_mod. rewrite Ht. simpl.
  assert (Hne : errs (map check_item (y_content n)) <> []).
  { rewrite contents_errors_one_per_entry. intros E.
    assert (Hin' : In e (flat_map (fun it => match check_item it with IErr e => [e] | IOk _ => [] end) (y_content n))).
    { apply in_flat_map. exists it. split; auto. rewrite He. left; reflexivity. }
    rewrite E in Hin'. contradiction. }
  destruct (check_schema schema); destruct (errs (map check_item (y_content n))); try contradiction; eexists; reflexivity.
Qed.

Theorem transform_mod_total schema contents : is_panic (transform_mod schema contents) = false.
Proof.
  unfold transform_mod. destruct contents as [n|]; [|reflexivity].
  destruct (negb (str_eqb (y_tag n) seq_node)); [reflexivity|].
  destruct (check_schema schema); destruct (errs (map check_item (y_content n))); reflexivity.
Qed.

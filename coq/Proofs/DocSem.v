(* Proofs/DocSem.v — the denotation of a document reads the TEXTS of its name tokens and of the version only:
   a syntax tree that forget2 maps to a canonical tree has the canonical tree's denotation, is grammatical when that
   tree is, and declares nothing twice when that tree does not. *)
From Coq Require Import Lia.
From Verif Require Import Base.Str Base.Outcome Model.Ast Model.Token Model.Lexer Model.Parser Model.Listener Model.Transform Spec.Sem Spec.Normalize
  Proofs.ListenerSem Proofs.ListenerFile Proofs.ParserComplete Proofs.LexInversion Proofs.LexRender Proofs.ParserNatural Proofs.RoundTripChars
  Proofs.DeclRoundTrip Proofs.DocLex Proofs.DocParse Proofs.DocNatural Proofs.DocChars.

Lemma forget2_keeps t : tk t = IDENTIFIER \/ tk t = SCHEMA_VERSION -> ttext (forget2 t) = ttext t.
Proof. intros [H|H]; unfold forget2; rewrite H; reflexivity. Qed.

(* names of a tree that forget2 maps to a tree with plain names *)
Lemma forget2_keeps_names e' e : relem_map forget2 e' = e -> lex_ok e -> forall t, In t (names_elem e') -> ttext (forget2 t) = ttext t.
Proof.
  intros E Hok t Hin. pose proof (names_ident e Hok) as H. rewrite <- E, names_elem_map in H. rewrite Forall_forall in H.
  specialize (H (forget2 t) (in_map forget2 _ _ Hin)). rewrite forget2_kind in H. apply forget2_keeps. left. exact H.
Qed.

Lemma lex_ok_all_in x l : lex_ok_all l -> In x l -> lex_ok x.
Proof. induction l as [|y l IH]; [intros _ []|]. cbn. intros [H1 H2] [<-|Hin]; [exact H1|apply IH; assumption]. Qed.

Lemma forallb_map' {A B} (f : A -> B) (p : B -> bool) l : forallb p (map f l) = forallb (fun x => p (f x)) l.
Proof. induction l as [|x l IH]; [reflexivity|]. cbn. rewrite IH. reflexivity. Qed.
Lemma forallb_ext_in' {A} (p q : A -> bool) l : (forall x, In x l -> p x = q x) -> forallb p l = forallb q l.
Proof. induction l as [|x l IH]; intros H; [reflexivity|]. cbn. rewrite (H x (or_introl eq_refl)), IH; [reflexivity|]. intros y Hy. apply H. right. exact Hy. Qed.

(* ---- shape: relabelling changes no grammatical judgement ---- *)
Section Shape.
  Variable g : tok -> tok.
  Lemma wf_operand_map e : wf_operand (relem_map g e) = wf_operand e.
  Proof.
    induction e as [rs|cu ts|nd first op rest IHf IHr] using relem_ind'; try reflexivity.
    cbn [relem_map wf_operand]. destruct nd; [|reflexivity]. rewrite IHf. f_equal; [f_equal|].
    - destruct op, rest as [|? [|? ?]]; reflexivity.
    - rewrite forallb_map'. apply forallb_ext_in'. rewrite Forall_forall in IHr. exact IHr.
  Qed.
  Lemma partials_ok_map op rest : partials_ok op (map (relem_map g) rest) = partials_ok op rest.
  Proof. destruct op, rest as [|? [|? ?]]; reflexivity. Qed.
  Lemma wf_leading_map e : wf_leading (relem_map g e) = wf_leading e.
  Proof.
    induction e as [rs|cu ts|nd first op rest IHf IHr] using relem_ind'; try reflexivity.
    cbn [relem_map wf_leading]. destruct nd; [reflexivity|]. rewrite IHf, partials_ok_map. f_equal.
    rewrite forallb_map'. apply forallb_ext_in'. intros x _. apply wf_operand_map.
  Qed.
End Shape.

(* ---- one relation line ---- *)
Lemma decl_sem r' r : reldecl_map forget2 r' = r -> decl_lex_ok r ->
  ttext (rl_name r') = ttext (rl_name r) /\ sem_rdef (rl_def r') = sem_rdef (rl_def r) /\
  restrictions_elem (rd_first (rl_def r')) = restrictions_elem (rd_first (rl_def r)) /\
  wf_rdef (rl_def r') = wf_rdef (rl_def r).
Proof.
  intros E [Hn (Hf & Hr & Hop)].
  pose proof (f_equal rl_name E) as En. pose proof (f_equal (fun x => rd_first (rl_def x)) E) as Ef.
  pose proof (f_equal (fun x => rd_op (rl_def x)) E) as Eo. pose proof (f_equal (fun x => rd_rest (rl_def x)) E) as Er.
  cbn [reldecl_map rl_name rl_def rd_first rd_op rd_rest] in En, Ef, Eo, Er.
  assert (Hname : ttext (rl_name r') = ttext (rl_name r)).
  { rewrite <- En. symmetry. apply forget2_keeps. left. rewrite <- (forget2_kind (rl_name r')), En. destruct Hn as [Hn _]. rewrite Hn. reflexivity. }
  assert (Hfirst : forall t, In t (names_elem (rd_first (rl_def r'))) -> ttext (forget2 t) = ttext t)
    by (apply (forget2_keeps_names _ (rd_first (rl_def r))); assumption).
  assert (Hrest : forall x, In x (rd_rest (rl_def r')) -> forall t, In t (names_elem x) -> ttext (forget2 t) = ttext t).
  { intros x Hx. apply (forget2_keeps_names x (relem_map forget2 x) eq_refl). apply (lex_ok_all_in _ (rd_rest (rl_def r)) Hr). rewrite <- Er. apply in_map. exact Hx. }
  split; [exact Hname|]. split; [|split].
  - unfold sem_rdef. rewrite <- Ef, <- Eo, <- Er, (sem_elem_map forget2 _ Hfirst). f_equal. f_equal.
    rewrite map_map. symmetry. apply map_ext_in. intros x Hx. apply sem_elem_map. apply Hrest. exact Hx.
  - rewrite <- Ef. symmetry. apply restrictions_elem_map. exact Hfirst.
  - unfold wf_rdef. rewrite <- Ef, <- Eo, <- Er, wf_leading_map, partials_ok_map. f_equal.
    rewrite forallb_map'. apply forallb_ext_in'. intros x _. symmetry. apply wf_operand_map.
Qed.

Lemma decls_sem rs' : forall rs, map (reldecl_map forget2) rs' = rs -> Forall decl_lex_ok rs ->
  map (fun r => ttext (rl_name r)) rs' = map (fun r => ttext (rl_name r)) rs /\
  map (fun r => sem_rdef (rl_def r)) rs' = map (fun r => sem_rdef (rl_def r)) rs /\
  map (fun r => restrictions_elem (rd_first (rl_def r))) rs' = map (fun r => restrictions_elem (rd_first (rl_def r))) rs /\
  map (fun r => wf_rdef (rl_def r)) rs' = map (fun r => wf_rdef (rl_def r)) rs.
Proof.
  induction rs' as [|r' rs' IH]; intros rs E Hok; cbn [map] in E; subst rs; [repeat split|].
  inversion Hok as [|? ? Hr Hok']; subst. destruct (decl_sem r' _ eq_refl Hr) as (A & B & C & D).
  destruct (IH _ eq_refl Hok') as (A' & B' & C' & D'). cbn [map]. rewrite A, B, C, D, A', B', C', D'. repeat split.
Qed.

Lemma decls_sem_pairs rs' : forall rs, map (reldecl_map forget2) rs' = rs -> Forall decl_lex_ok rs ->
  forall modular ext module_,
  map (fun r => (ttext (rl_name r), sem_rdef (rl_def r))) rs' = map (fun r => (ttext (rl_name r), sem_rdef (rl_def r))) rs /\
  map (fun r => (ttext (rl_name r), sem_relmeta modular ext module_ r)) rs' = map (fun r => (ttext (rl_name r), sem_relmeta modular ext module_ r)) rs.
Proof.
  induction rs' as [|r' rs' IH]; intros rs E Hok modular ext module_; cbn [map] in E; subst rs; [split; reflexivity|].
  inversion Hok as [|? ? Hr Hok']; subst. destruct (decl_sem r' _ eq_refl Hr) as (A & B & C & _).
  destruct (IH _ eq_refl Hok' modular ext module_) as (A' & B'). cbn [map]. rewrite A', B', A, B. unfold sem_relmeta at 1 3. rewrite C. split; reflexivity.
Qed.

(* ---- one type block ---- *)
Lemma type_sem t' t : typedecl_map forget2 t' = t -> type_lex_ok t ->
  ty_extend t' = ty_extend t /\ ttext (ty_name t') = ttext (ty_name t) /\
  map (fun r => ttext (rl_name r)) (ty_rels t') = map (fun r => ttext (rl_name r)) (ty_rels t) /\
  map (fun r => wf_rdef (rl_def r)) (ty_rels t') = map (fun r => wf_rdef (rl_def r)) (ty_rels t) /\
  forall modular module_, sem_type modular module_ t' = sem_type modular module_ t.
Proof.
  intros E [Hn Hrs].
  pose proof (f_equal ty_extend E) as Ee. pose proof (f_equal ty_name E) as En. pose proof (f_equal ty_rels E) as Er.
  cbn [typedecl_map ty_extend ty_name ty_rels] in Ee, En, Er.
  assert (Hname : ttext (ty_name t') = ttext (ty_name t)).
  { rewrite <- En. symmetry. apply forget2_keeps. left. rewrite <- (forget2_kind (ty_name t')), En. destruct Hn as [Hn _]. rewrite Hn. reflexivity. }
  destruct (decls_sem _ _ Er Hrs) as (A & _ & _ & D).
  split; [exact Ee|]. split; [exact Hname|]. split; [exact A|]. split; [exact D|].
  intros modular module_. destruct (decls_sem_pairs _ _ Er Hrs modular (ty_extend t) module_) as [P1 P2].
  unfold sem_type. rewrite Hname, Ee, P1, P2. reflexivity.
Qed.

(* ---- the document ---- *)
Theorem doc_sem f' v ts : file_map forget2 f' = doc_file v ts -> Forall type_lex_ok ts ->
  sem_file f' = sem_file (doc_file v ts) /\
  (wf_file (doc_file v ts) -> wf_file f') /\
  (distinct_decls (doc_file v ts) -> distinct_decls f').
Proof.
  intros E Hts.
  pose proof (f_equal f_header E) as Eh. pose proof (f_equal f_types E) as Et. pose proof (f_equal f_conds E) as Ec.
  cbn [file_map doc_file f_header f_types f_conds] in Eh, Et, Ec.
  assert (Hc : f_conds f' = []) by (destruct (f_conds f'); [reflexivity|discriminate Ec]).
  destruct (f_header f') as [v'|n'] eqn:Eh'; cbn [header_map] in Eh; [|discriminate Eh].
  assert (Hv : ttext v' = v).
  { assert (E1 : forget2 v' = vtok v) by congruence. rewrite <- (forget2_keeps v'); [rewrite E1; reflexivity|].
    right. rewrite <- (forget2_kind v'), E1. reflexivity. }
  assert (Htypes : forall modular module_, map (sem_type modular module_) (f_types f') = map (sem_type modular module_) ts /\
                   Forall2 (fun t' t => ty_extend t' = ty_extend t /\ ttext (ty_name t') = ttext (ty_name t) /\
                                        map (fun r => ttext (rl_name r)) (ty_rels t') = map (fun r => ttext (rl_name r)) (ty_rels t) /\
                                        map (fun r => wf_rdef (rl_def r)) (ty_rels t') = map (fun r => wf_rdef (rl_def r)) (ty_rels t)) (f_types f') ts).
  { intros modular module_. clear Eh' E Ec Hc. revert ts Et Hts. induction (f_types f') as [|t' l IH]; intros ts Et Hts; cbn [map] in Et; subst ts; [split; constructor|].
    inversion Hts as [|? ? Ht Hts']; subst. destruct (type_sem t' _ eq_refl Ht) as (A & B & C & D & S). destruct (IH _ eq_refl Hts') as [I1 I2].
    cbn [map]. rewrite S, I1. split; [reflexivity|]. constructor; [repeat split; assumption|exact I2]. }
  split; [|split].
  - unfold sem_file. rewrite Eh', Hc. cbn [f_header f_types f_conds doc_file header_modular header_module header_schema vtok ttext map].
    rewrite Hv. destruct (Htypes false []) as [H1 _]. rewrite H1. reflexivity.
  - unfold wf_file. cbn [doc_file f_types]. destruct (Htypes false []) as [_ H2]. clear -H2. induction H2 as [|t' t l' l (_ & _ & _ & D) _ IH]; intros H; [constructor|].
    inversion H as [|? ? Ht Hl]; subst. constructor; [|apply IH; exact Hl].
    rewrite Forall_forall in Ht |- *. intros r' Hr'. 
    assert (Hin : In (wf_rdef (rl_def r')) (map (fun r => wf_rdef (rl_def r)) (ty_rels t))) by (rewrite <- D; apply (in_map (fun r => wf_rdef (rl_def r))); exact Hr').
    apply in_map_iff in Hin. destruct Hin as [r [Er Hr]]. rewrite <- Er. apply Ht. exact Hr.
  - destruct (Htypes false []) as [_ H2]. unfold distinct_decls. rewrite Eh', Hc. cbn [doc_file f_header f_types f_conds header_modular map].
    intros (D1 & _ & _ & D4 & D5 & D6). split; [|split; [constructor|split; [constructor|split; [|split]]]].
    + clear -H2 D1. induction H2 as [|t' t l' l (_ & _ & C & _) _ IH]; [constructor|]. inversion D1; subst. constructor; [rewrite C; assumption|apply IH; assumption].
    + intros _. specialize (D4 eq_refl). clear -H2 D4. induction H2 as [|t' t l' l (A & _) _ IH]; [constructor|]. inversion D4; subst. constructor; [rewrite A; assumption|apply IH; assumption].
    + assert (Hf : map (fun t => ttext (ty_name t)) (filter ty_extend (f_types f')) = map (fun t => ttext (ty_name t)) (filter ty_extend ts)).
      { clear -H2. induction H2 as [|t' t l' l (A & B & _) _ IH]; [reflexivity|]. cbn [filter]. rewrite A. destruct (ty_extend t); [cbn [map]; rewrite B, IH; reflexivity|exact IH]. }
      rewrite Hf. exact D5.
    + clear -H2 D6. induction H2 as [|t' t l' l (_ & B & _) _ IH]; [constructor|]. inversion D6; subst. constructor; [rewrite B; assumption|apply IH; assumption].
Qed.

Lemma type_ok_wf ts : Forall type_ok ts -> forall v, wf_file (doc_file v ts).
Proof.
  intros H v. unfold wf_file. cbn [doc_file f_types]. eapply Forall_impl; [|exact H]. intros t (_ & _ & Hrs).
  eapply Forall_impl; [|exact Hrs]. intros r (_ & Hwf & _). exact Hwf.
Qed.

(* THE CANONICAL TEXT OF A DOCUMENT DENOTES ITS TREE: lexer model, parser model and listener model, run on the characters *)
Theorem canonical_document_denotes v ts :
  std_version v = true -> Forall type_lex_ok ts -> Forall type_ok ts -> distinct_decls (doc_file v ts) ->
  let s := text_of (ctoks_doc v ts) in
  snd (lex s) = [] /\ exists exts md, parse_walk (fst (lex s)) = DOk (sem_file (doc_file v ts)) exts md.
Proof.
  intros Hv Hlex Hok Hdist s. destruct (canonical_document_reads_back v ts Hv Hlex Hok) as [Herr (f' & Hp & Hf)]. fold s in Herr, Hp.
  split; [exact Herr|]. destruct (doc_sem f' v ts Hf Hlex) as (Hsem & Hwf & Hd).
  destruct (walk_is_sem f' (Hwf (type_ok_wf ts Hok v)) (Hd Hdist)) as (st & Hw & He & Hm).
  exists (ls_exts st), (ls_modular st). unfold parse_walk. rewrite Hp, Hw, He, Hm, Hsem. reflexivity.
Qed.
Print Assumptions canonical_document_denotes.

(* ... AND SO DOES EVERY OTHER LAYOUT WITH THE SAME TOKENS: any non-empty run of blanks and tabs where the canonical text
   has a blank, any line break (line feed, then line feeds, blanks and tabs: indentation, blank lines) where it has one *)
Theorem every_layout_denotes v ts L :
  std_version v = true -> Forall type_lex_ok ts -> Forall type_ok ts -> distinct_decls (doc_file v ts) ->
  Forall2 relay (kts (ctoks_doc v ts)) L ->
  let s := concat (map snd L) in
  snd (lex s) = [] /\ exists exts md, parse_walk (fst (lex s)) = DOk (sem_file (doc_file v ts)) exts md.
Proof.
  intros Hv Hlex Hok Hdist HL s. destruct (every_layout_reads_back v ts L Hv Hlex Hok HL) as (Herr & _ & f' & Hp & Hf). fold s in Herr, Hp.
  split; [exact Herr|]. destruct (doc_sem f' v ts Hf Hlex) as (Hsem & Hwf & Hd).
  destruct (walk_is_sem f' (Hwf (type_ok_wf ts Hok v)) (Hd Hdist)) as (st & Hw & He & Hm).
  exists (ls_exts st), (ls_modular st). unfold parse_walk. rewrite Hp, Hw, He, Hm, Hsem. reflexivity.
Qed.
Print Assumptions every_layout_denotes.

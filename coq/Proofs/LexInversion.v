(* Proofs/LexInversion.v — the lexer model inverts the printer on relation definitions: the characters the printer
   writes for a relation definition (Spec/Normalize.render_rdef) lex, without error, to the canonical token
   sequence of Proofs/ParserComplete.v (kinds and texts), provided every name is a plain identifier that is not a
   keyword.  The keyword tables are those of Gen/Keywords.v (regenerated from the generated Go lexer on every run):
   the facts about them are proved by computation on the tables as they are now. *)
From Coq Require Import Lia.
From Verif Require Export Spec.DocDomain.
From Verif Require Import Base.Str Model.Token Gen.Keywords Model.Lexer.

(* ---------------------------------------------------------------------------------------- *)
(* 1. the lexer without positions                                                            *)
(* ---------------------------------------------------------------------------------------- *)
Definition kt := (tkind * str)%type.

Fixpoint lexk (fuel : nat) (s : str) (depth : nat) : list kt * nat :=
  match fuel with
  | O => ([], 0%nat)
  | S f =>
      match s with
      | [] => ([], 0%nat)
      | c :: r =>
          let rules := if (depth =? 0)%nat then default_rules else condition_rules in
          let '(k, n) := best_rule rules s TEOF 0%nat in
          if (n =? 0)%nat then let '(ts, es) := lexk f r depth in (ts, S es)
          else
            let depth' :=
              if (depth =? 0)%nat then (if tk_eqb k CONDITION then 1%nat else 0%nat)
              else (if tk_eqb k RPAREN then pred depth else depth) in
            let '(ts, es) := lexk f (skipn n s) depth' in
            ((k, firstn n s) :: ts, es)
      end
  end.

Lemma lex_loop_lexk : forall f s d l c,
  map (fun t => (tk t, ttext t)) (fst (lex_loop f s d l c)) = fst (lexk f s d) /\
  length (snd (lex_loop f s d l c)) = snd (lexk f s d).
Proof.
  induction f as [|f IH]; intros s d l c; [split; reflexivity|]. cbn [lex_loop lexk].
  destruct s as [|ch r]; [split; reflexivity|].
  destruct (best_rule (if (d =? 0)%nat then default_rules else condition_rules) (ch :: r) TEOF 0) as [k n].
  destruct (n =? 0)%nat.
  - destruct (advance [ch] l c) as [l' c']. specialize (IH r d l' c').
    destruct (lex_loop f r d l' c') as [ts es]. destruct (lexk f r d) as [ts' es']. cbn in *. destruct IH as [A B]. split; [exact A|f_equal; exact B].
  - destruct (advance (firstn n (ch :: r)) l c) as [l' c'].
    match goal with |- context [lex_loop f ?s' ?d' l' c'] => specialize (IH s' d' l' c'); destruct (lex_loop f s' d' l' c') as [ts es]; destruct (lexk f s' d') as [ts' es'] end.
    cbn in *. destruct IH as [A B]. split; [f_equal; exact A|exact B].
Qed.

(* one token [t] of kind [k] is recognised in front of [rest] (default mode, not the keyword that changes mode) *)
Definition rec_at (k : tkind) (t rest : str) : Prop :=
  best_rule default_rules (t ++ rest) TEOF 0%nat = (k, length t) /\ t <> [] /\ tk_eqb k CONDITION = false.

Lemma firstn_app_exact {A} (a b : list A) : firstn (length a) (a ++ b) = a.
Proof. induction a; cbn; [reflexivity|f_equal; assumption]. Qed.
Lemma skipn_app_exact {A} (a b : list A) : skipn (length a) (a ++ b) = b.
Proof. induction a; cbn; [reflexivity|assumption]. Qed.

Lemma lexk_step f k t rest :
  rec_at k t rest ->
  lexk (S f) (t ++ rest) 0 = ((k, t) :: fst (lexk f rest 0), snd (lexk f rest 0)).
Proof.
  intros (Hb & Hne & Hk). destruct t as [|c t']; [contradiction|].
  cbn [lexk app Nat.eqb]. change (c :: t' ++ rest) with ((c :: t') ++ rest). rewrite Hb.
  change (length (c :: t') =? 0)%nat with false. cbv iota.
  rewrite Hk, firstn_app_exact, skipn_app_exact. destruct (lexk f rest 0); reflexivity.
Qed.

(* a sequence of tokens, each recognised in front of what follows *)
Fixpoint recs (ts : list kt) (rest : str) : Prop :=
  match ts with
  | [] => True
  | (k, t) :: r => rec_at k t (concat (map snd r) ++ rest) /\ recs r rest
  end.

Lemma lexk_tokens ts : forall rest f,
  recs ts rest -> (length ts <= f)%nat ->
  lexk (f + 0) (concat (map snd ts) ++ rest) 0 = (ts ++ fst (lexk (f - length ts) rest 0), snd (lexk (f - length ts) rest 0)).
Proof.
  induction ts as [|[k t] ts IH]; intros rest f Hr Hf.
  - cbn. rewrite Nat.add_0_r, Nat.sub_0_r. destruct (lexk f rest 0); reflexivity.
  - cbn [recs] in Hr. destruct Hr as [H1 H2]. cbn [map snd concat length] in *. destruct f as [|f]; [lia|].
    rewrite <- app_assoc. cbn [Nat.add]. rewrite (lexk_step (f + 0) k t _ H1).
    rewrite (IH rest f H2 ltac:(lia)). cbn [fst snd Nat.sub app]. reflexivity.
Qed.

(* ---------------------------------------------------------------------------------------- *)
(* 2. fixed tokens: punctuation in front of anything, keywords and blanks in front of what the printer puts there *)
(* ---------------------------------------------------------------------------------------- *)
Lemma rec_lbracket rest : rec_at LBRACKET (lit "[") rest.
Proof. split; [destruct rest as [|? [|? ?]]; vm_compute; reflexivity|split; [discriminate|reflexivity]]. Qed.
Lemma rec_rbracket rest : rec_at RPRACKET (lit "]") rest.
Proof. split; [destruct rest as [|? [|? ?]]; vm_compute; reflexivity|split; [discriminate|reflexivity]]. Qed.
Lemma rec_lparen rest : rec_at LPAREN (lit "(") rest.
Proof. split; [destruct rest as [|? [|? ?]]; vm_compute; reflexivity|split; [discriminate|reflexivity]]. Qed.
Lemma rec_rparen rest : rec_at RPAREN (lit ")") rest.
Proof. split; [destruct rest as [|? [|? ?]]; vm_compute; reflexivity|split; [discriminate|reflexivity]]. Qed.
Lemma rec_hash rest : rec_at HASH (lit "#") rest.
Proof. split; [destruct rest as [|? [|? ?]]; vm_compute; reflexivity|split; [discriminate|reflexivity]]. Qed.
Lemma rec_comma rest : rec_at COMMA (lit ",") rest.
Proof. split; [destruct rest as [|? [|? ?]]; vm_compute; reflexivity|split; [discriminate|reflexivity]]. Qed.
Lemma rec_colon rest : rec_at COLON (lit ":") rest.
Proof. split; [destruct rest as [|? [|? ?]]; vm_compute; reflexivity|split; [discriminate|reflexivity]]. Qed.
Lemma rec_star rest : rec_at STAR (lit "*") rest.
Proof. split; [destruct rest as [|? [|? ?]]; vm_compute; reflexivity|split; [discriminate|reflexivity]]. Qed.

Lemma rec_or rest : rec_at OR (lit "or") (32 :: rest).
Proof. split; [destruct rest as [|? [|? ?]]; vm_compute; reflexivity|split; [discriminate|reflexivity]]. Qed.
Lemma rec_and rest : rec_at AND (lit "and") (32 :: rest).
Proof. split; [destruct rest as [|? [|? ?]]; vm_compute; reflexivity|split; [discriminate|reflexivity]]. Qed.
Lemma rec_but_not rest : rec_at BUT_NOT (lit "but not") (32 :: rest).
Proof. split; [destruct rest as [|? [|? ?]]; vm_compute; reflexivity|split; [discriminate|reflexivity]]. Qed.
Lemma rec_from rest : rec_at FROM (lit "from") (32 :: rest).
Proof. split; [destruct rest as [|? [|? ?]]; vm_compute; reflexivity|split; [discriminate|reflexivity]]. Qed.
Lemma rec_with rest : rec_at KEYWORD_WITH (lit "with") (32 :: rest).
Proof. split; [destruct rest as [|? [|? ?]]; vm_compute; reflexivity|split; [discriminate|reflexivity]]. Qed.

(* ---------------------------------------------------------------------------------------- *)
(* 3. longest match, first rule on ties — in general                                         *)
(* ---------------------------------------------------------------------------------------- *)
Lemma best_rule_app a b s bk bn :
  best_rule (a ++ b) s bk bn = let '(k, n) := best_rule a s bk bn in best_rule b s k n.
Proof.
  revert bk bn. induction a as [|[k f] a IH]; intros bk bn; cbn [app best_rule]; [reflexivity|].
  destruct (bn <? f s)%nat; apply IH.
Qed.

Lemma best_rule_le rules s k n : Forall (fun r : rule => (snd r s <= n)%nat) rules -> best_rule rules s k n = (k, n).
Proof.
  induction 1 as [|[k' f] rules Hf _ IH]; cbn [best_rule]; [reflexivity|]. cbn [snd] in Hf.
  destruct (Nat.ltb_spec n (f s)); [lia|exact IH].
Qed.

Lemma best_rule_lt rules s m : forall k n,
  Forall (fun r : rule => (snd r s < m)%nat) rules -> (n < m)%nat -> (snd (best_rule rules s k n) < m)%nat.
Proof.
  induction rules as [|[k' f] rules IH]; intros k n H Hn; cbn [best_rule]; [exact Hn|].
  inversion H as [|? ? Hf H']; subst. cbn [snd] in Hf. destruct (n <? f s)%nat; apply IH; assumption.
Qed.

(* the rule (k, f) wins with length m: everything declared before is strictly shorter, nothing after is longer *)
Lemma best_rule_wins pre k (f : str -> nat) post s m :
  f s = m -> (0 < m)%nat ->
  Forall (fun r : rule => (snd r s < m)%nat) pre -> Forall (fun r : rule => (snd r s <= m)%nat) post ->
  best_rule (pre ++ (k, f) :: post) s TEOF 0 = (k, m).
Proof.
  intros Hf Hm Hpre Hpost. rewrite best_rule_app.
  pose proof (best_rule_lt pre s m TEOF 0%nat Hpre Hm) as Hlt. destruct (best_rule pre s TEOF 0) as [k0 n0]. cbn [snd] in Hlt.
  cbn [best_rule]. rewrite Hf. destruct (Nat.ltb_spec n0 m); [|lia]. apply best_rule_le. exact Hpost.
Qed.

(* ---- the rule table in three parts ---- *)
Definition recognisers : list rule :=
  [(WHITESPACE, rec_whitespace); (CEL_COMMENT, rec_cel_comment); (NUM_FLOAT, rec_num_float);
   (NUM_INT, rec_num_int); (NUM_UINT, rec_num_uint); (STRING_, rec_string); (BYTES, rec_bytes);
   (IDENTIFIER, rec_identifier); (EXTENDED_IDENTIFIER, rec_ext_identifier); (NEWLINE, rec_newline)].
Definition literals : list rule :=
  literal_rules kw_default_before_schema_version ++ [(SCHEMA_VERSION, rec_schema_version)] ++ literal_rules kw_default_after_schema_version.

Lemma default_rules_parts : default_rules = literals ++ recognisers.
Proof. unfold default_rules, literals, recognisers. rewrite <- !app_assoc. reflexivity. Qed.


Lemma literal_rules_in tbl k f : In (k, f) (literal_rules tbl) -> exists l, In l (map snd tbl) /\ f = rec_literal l.
Proof.
  induction tbl as [|[nm l] tbl IH]; cbn [literal_rules]; [intros []|].
  destruct (tk_of_name nm).
  - intros [E|H]; [inversion E; exists l; split; [left; reflexivity|reflexivity]|].
    destruct (IH H) as [l' [Hin E]]. exists l'. split; [right; exact Hin|exact E].
  - intros H. destruct (IH H) as [l' [Hin E]]. exists l'. split; [right; exact Hin|exact E].
Qed.

(* every literal rule (and SCHEMA_VERSION) is bounded on s by a bound that holds for each spelling *)
Lemma literals_bound s (P : nat -> Prop) :
  (forall l, In l all_literal_spellings -> P (rec_literal l s)) -> P (rec_schema_version s) ->
  Forall (fun r : rule => P (snd r s)) literals.
Proof.
  intros Hl Hs. unfold literals. apply Forall_app. split; [|apply Forall_app; split; [constructor; [exact Hs|constructor]|]];
    apply Forall_forall; intros [k f] Hin; apply literal_rules_in in Hin; destruct Hin as [l [Hin ->]]; cbn [snd]; apply Hl;
    unfold all_literal_spellings; rewrite map_app; apply in_or_app; [left|right]; exact Hin.
Qed.

(* ---- a blank in front of something that is neither blank nor line break ---- *)
Lemma no_literal_starts_with_blank : forallb (fun l => match l with c :: _ => negb (c =? 32) | [] => false end) all_literal_spellings = true.
Proof. vm_compute. reflexivity. Qed.

Lemma rec_blank c rest : is_nlish c = false -> rec_at WHITESPACE (lit " ") (c :: rest).
Proof.
  intros Hc. split; [|split; [discriminate|reflexivity]].
  assert (Hws : is_ws_char c = false) by (unfold is_nlish in Hc; apply orb_false_iff in Hc; destruct Hc as [Hc _]; apply orb_false_iff in Hc; tauto).
  rewrite default_rules_parts. change recognisers with ([] ++ (WHITESPACE, rec_whitespace) :: tl recognisers). rewrite app_assoc.
  apply best_rule_wins.
  - cbn. rewrite Hws. reflexivity.
  - cbn. lia.
  - rewrite app_nil_r. apply (literals_bound _ (fun n => (n < 1)%nat)).
    + intros l Hl. pose proof no_literal_starts_with_blank as H. rewrite forallb_forall in H. specialize (H l Hl).
      unfold rec_literal. destruct l as [|c0 l]; [discriminate|]. cbn [is_prefix app]. destruct (c0 =? 32) eqn:E; [discriminate|].
      cbn. rewrite E. cbn. lia.
    + cbn. lia.
  - cbn [tl recognisers]. repeat apply Forall_cons; try apply Forall_nil; cbn [snd];
      try (cbn; lia).
    unfold rec_newline. change (lit " " ++ c :: rest) with (32 :: c :: rest). cbn [run_len]. change (is_nlish 32) with true. cbv iota. rewrite Hc. cbn. lia.
Qed.

(* ---------------------------------------------------------------------------------------- *)
(* 4. names                                                                                  *)
(* ---------------------------------------------------------------------------------------- *)
(* what may stand after a name: blank, comma, closing bracket or parenthesis, colon, hash, line feed (what the printer
   puts there), or a tab *)
Definition is_delim (c : N) : bool :=
  (c =? 32) || (c =? 44) || (c =? 93) || (c =? 41) || (c =? 58) || (c =? 35) || (c =? 10) || (c =? 9).


Lemma delim_cases d : is_delim d = true -> d = 32 \/ d = 44 \/ d = 93 \/ d = 41 \/ d = 58 \/ d = 35 \/ d = 10 \/ d = 9.
Proof.
  unfold is_delim. intros H. repeat (apply orb_true_iff in H; destruct H as [H|H]); apply N.eqb_eq in H; tauto.
Qed.

Lemma id_start_ge c : is_id_start c = true -> 65 <= c.
Proof.
  unfold is_id_start, is_letter, is_lower, is_upper. intros H.
  repeat (apply orb_true_iff in H; destruct H as [H|H]); try (apply andb_true_iff in H; destruct H as [H _]; apply N.leb_le in H; lia).
  apply N.eqb_eq in H. lia.
Qed.
Lemma id_char_ge c : is_id_char c = true -> 45 <= c.
Proof.
  unfold is_id_char, is_letter, is_lower, is_upper, is_digit. intros H.
  repeat (apply orb_true_iff in H; destruct H as [H|H]); try (apply andb_true_iff in H; destruct H as [H _]; apply N.leb_le in H; lia);
    apply N.eqb_eq in H; lia.
Qed.
Lemma eqb_small c k : k < c -> (c =? k) = false.
Proof. intros H. apply N.eqb_neq. lia. Qed.

Lemma delim_not_id d : is_delim d = true -> is_id_char d = false.
Proof. intros H. destruct (delim_cases d H) as [->|[->|[->|[->|[->|[->|[->| ->]]]]]]]; reflexivity. Qed.

Lemma run_len_app p a d rest : forallb p a = true -> p d = false -> run_len p (a ++ d :: rest) = length a.
Proof.
  induction a as [|x a IH]; cbn; intros Ha Hd; [rewrite Hd; reflexivity|]. apply andb_true_iff in Ha. destruct Ha as [Hx Ha].
  rewrite Hx, IH by assumption. reflexivity.
Qed.

(* "not a quote", for the string and bytes rules *)
Definition nq (x : N) : Prop := (x =? 34) = false /\ (x =? 39) = false.
Lemma nq_id x : is_id_char x = true -> nq x.
Proof. intros H. apply id_char_ge in H. split; apply eqb_small; lia. Qed.
Lemma nq_delim d : is_delim d = true -> nq d /\ (d =? 114) = false /\ (d =? 82) = false.
Proof. intros H. destruct (delim_cases d H) as [->|[->|[->|[->|[->|[->|[->| ->]]]]]]]; repeat split; reflexivity. Qed.

Lemma quoted_zero q esc x t : (x =? q) = false -> quoted q esc (x :: t) = 0%nat.
Proof. intros H. unfold quoted. rewrite H. reflexivity. Qed.

(* rec_string looks at one character, or at two when the first is r/R *)
Lemma rec_string_zero x t :
  nq x -> ((x =? 114) || (x =? 82) = true -> match t with y :: _ => nq y | [] => True end) -> rec_string (x :: t) = 0%nat.
Proof.
  intros [H1 H2] Hr. unfold rec_string. rewrite (quoted_zero 34 true x t H1), (quoted_zero 39 true x t H2). cbn [Nat.max].
  destruct ((x =? 114) || (x =? 82)) eqn:E; [|reflexivity]. specialize (Hr eq_refl).
  destruct t as [|y t']; [reflexivity|]. destruct Hr as [Y1 Y2]. rewrite (quoted_zero 34 false y t' Y1), (quoted_zero 39 false y t' Y2). reflexivity.
Qed.

(* characters of a name followed by a delimiter: each is an identifier character or the delimiter *)
Lemma name_tail_hd r d rest : forallb is_id_char r = true -> is_delim d = true ->
  match r ++ d :: rest with y :: _ => nq y | [] => True end.
Proof.
  intros Hr Hd. destruct r as [|y r']; cbn; [apply (nq_delim d Hd)|]. cbn in Hr. apply andb_true_iff in Hr. apply nq_id. tauto.
Qed.

Lemma ext_tail_le d rest : is_delim d = true -> forall f a, forallb is_id_char a = true -> (ext_tail f (a ++ d :: rest) <= length a)%nat.
Proof.
  intros Hd. assert (Hda : is_alnum_ d = false /\ is_ext_sep d = false).
  { destruct (delim_cases d Hd) as [->|[->|[->|[->|[->|[->|[->| ->]]]]]]]; split; reflexivity. }
  destruct Hda as [Hda Hds].
  induction f as [|f IH]; intros a Ha; [cbn; lia|]. destruct a as [|x a]; cbn [app ext_tail length].
  - rewrite Hda, Hds. lia.
  - cbn in Ha. apply andb_true_iff in Ha. destruct Ha as [Hx Ha]. destruct (is_alnum_ x).
    + specialize (IH a Ha). lia.
    + destruct (is_ext_sep x); [|lia]. destruct a as [|y a']; cbn [app].
      * rewrite Hda. lia.
      * cbn in Ha. apply andb_true_iff in Ha. destruct Ha as [_ Ha']. destruct (is_alnum_ y); [|lia].
        specialize (IH a' Ha'). cbn [length]. lia.
Qed.

Lemma prefix_cases l s d rest :
  is_prefix l (s ++ d :: rest) = true ->
  (length l < length s)%nat \/ l = s \/ ((length s < length l)%nat /\ firstn (length s) l = s /\ nth (length s) l 0 = d).
Proof.
  revert s. induction l as [|c l IH]; intros s H.
  - destruct s; [right; left; reflexivity|left; cbn; lia].
  - destruct s as [|c' s]; cbn [app is_prefix] in H.
    + right. right. apply andb_true_iff in H. destruct H as [H _]. apply N.eqb_eq in H. cbn. split; [lia|]. split; [reflexivity|exact H].
    + apply andb_true_iff in H. destruct H as [Hc H]. apply N.eqb_eq in Hc. subst c'. destruct (IH s H) as [A|[A|(A & B & C)]].
      * left. cbn. lia.
      * right. left. f_equal. exact A.
      * right. right. cbn [length firstn nth]. split; [lia|]. split; [f_equal; exact B|exact C].
Qed.

(* the only literal with a delimiter inside is "but not", after "but" *)
Lemma literals_and_delimiters :
  forallb (fun l => forallb (fun i => negb (is_delim (nth i l 0)) || str_eqb (firstn i l) (lit "but")) (seq 1 (length l - 1)))
          all_literal_spellings = true.
Proof. vm_compute. reflexivity. Qed.

Lemma rec_name s d rest : plain_name s = true -> is_delim d = true -> rec_at IDENTIFIER s (d :: rest).
Proof.
  intros Hp Hd. unfold plain_name in Hp. apply andb_true_iff in Hp. destruct Hp as [Hp Hbut]. apply andb_true_iff in Hp. destruct Hp as [Hid Hlit].
  destruct s as [|c r]; [discriminate|]. apply andb_true_iff in Hid. destruct Hid as [Hc Hr].
  split; [|split; [discriminate|reflexivity]].
  pose proof (id_start_ge c Hc) as Hge.
  assert (Hnd : is_id_char d = false) by (apply delim_not_id; exact Hd).
  rewrite default_rules_parts.
  change recognisers with (firstn 7 recognisers ++ (IDENTIFIER, rec_identifier) :: skipn 8 recognisers). rewrite app_assoc.
  apply best_rule_wins.
  - change ((c :: r) ++ d :: rest) with (c :: (r ++ d :: rest)). cbn [rec_identifier]. rewrite Hc, (run_len_app _ _ _ _ Hr Hnd). reflexivity.
  - cbn. lia.
  - apply Forall_app. split.
    + (* literal rules *)
      apply (literals_bound _ (fun n => (n < length (c :: r))%nat)).
      * intros l Hl. unfold rec_literal. destruct (is_prefix l ((c :: r) ++ d :: rest)) eqn:Epre; [|cbn; lia].
        destruct (prefix_cases l (c :: r) d rest Epre) as [A|[A|(A & B & C)]]; [exact A| |].
        -- exfalso. subst l. apply negb_true_iff in Hlit. assert (X : existsb (str_eqb (c :: r)) all_literal_spellings = true)
             by (apply existsb_exists; exists (c :: r); split; [exact Hl|apply str_eqb_refl]). congruence.
        -- exfalso. pose proof literals_and_delimiters as T. rewrite forallb_forall in T. specialize (T l Hl). rewrite forallb_forall in T.
           specialize (T (length (c :: r))). rewrite C, Hd, B in T. cbn [negb orb] in T.
           assert (Hin : In (length (c :: r)) (seq 1 (length l - 1))) by (apply in_seq; cbn [length] in *; lia).
           specialize (T Hin). apply negb_true_iff in Hbut. congruence.
      * change ((c :: r) ++ d :: rest) with (c :: (r ++ d :: rest)). unfold rec_schema_version. cbn [run_len].
        assert (Hdg : is_digit c = false) by (unfold is_digit; apply andb_false_iff; right; apply N.leb_gt; lia).
        rewrite Hdg. cbn. lia.
    + (* the recognisers declared before IDENTIFIER *)
      change ((c :: r) ++ d :: rest) with (c :: (r ++ d :: rest)).
      assert (Hdg : is_digit c = false) by (unfold is_digit; apply andb_false_iff; right; apply N.leb_gt; lia).
      assert (Hws : is_ws_char c = false) by (unfold is_ws_char; rewrite !eqb_small by lia; reflexivity).
      assert (Hnqc : nq c) by (split; apply eqb_small; lia).
      pose proof (name_tail_hd r d rest Hr Hd) as Htl.
      cbn [firstn recognisers]. repeat apply Forall_cons; try apply Forall_nil; cbn [snd length].
      * unfold rec_whitespace. cbn [run_len]. rewrite Hws. lia.
      * unfold rec_cel_comment. destruct (r ++ d :: rest); [lia|]. rewrite (eqb_small c 47) by lia. cbn. lia.
      * unfold rec_num_float. cbn [run_len]. rewrite Hdg. cbn [skipn Nat.eqb Nat.add]. rewrite (eqb_small c 46) by lia. cbn. lia.
      * unfold rec_num_int, hex_prefix. cbn [run_len]. rewrite Hdg. destruct (r ++ d :: rest); [cbn; lia|]. rewrite (eqb_small c 48) by lia. cbn. lia.
      * unfold rec_num_uint, hex_prefix, u_after. cbn [run_len]. rewrite Hdg. destruct (r ++ d :: rest); [cbn; lia|]. rewrite (eqb_small c 48) by lia. cbn. lia.
      * rewrite rec_string_zero; [cbn; lia|exact Hnqc|intros _; exact Htl].
      * unfold rec_bytes. destruct ((c =? 98) || (c =? 66)); [|lia].
        destruct (r ++ d :: rest) as [|y t] eqn:Et; [cbn; lia|]. rewrite rec_string_zero; [cbn; lia|exact Htl|].
        intros Hy. (* y is r/R: it is a character of the name, and what follows is a name character or the delimiter *)
        destruct r as [|y0 r']; cbn [app] in Et; inversion Et; subst.
        -- destruct (nq_delim y Hd) as (_ & N1 & N2). rewrite N1, N2 in Hy. discriminate.
        -- cbn in Hr. apply andb_true_iff in Hr. destruct Hr as [_ Hr']. exact (name_tail_hd r' d rest Hr' Hd).
  - (* EXTENDED_IDENTIFIER is not longer, NEWLINE does not start here *)
    change ((c :: r) ++ d :: rest) with (c :: (r ++ d :: rest)). cbn [skipn recognisers]. repeat apply Forall_cons; try apply Forall_nil; cbn [snd length].
    + unfold rec_ext_identifier. rewrite Hc. pose proof (ext_tail_le d rest Hd (length (r ++ d :: rest)) r Hr). lia.
    + unfold rec_newline. cbn [run_len]. assert (Hnl : is_nlish c = false) by (unfold is_nlish, is_ws_char; rewrite !eqb_small by lia; reflexivity).
      rewrite Hnl. cbn. lia.
Qed.

(* Proofs/ValidateProofs.v — the nine validators of the model (built from the rule strings that
   the translator reads out of validation-rules.go) decide exactly the character-level
   specification of Spec/ValidateSpec.v, for every string. *)
From Coq Require Import Btauto.
From Verif Require Import Base.Str Model.Regex Gen.Rules Model.Validate Spec.ValidateSpec Proofs.RegexFacts.

(* ---------- the regexes the rule strings are expected to denote ---------- *)

Definition tr_cls := {| c_neg := true; c_items := [CI_char 58; CI_char 35; CI_char 64; CI_char 42; CI_space] |}.
Definition cond_cls := {| c_neg := true; c_items := [CI_char 42; CI_space] |}.
Definition id1_cls := {| c_neg := true; c_items := [CI_char 35; CI_char 58; CI_space; CI_char 42] |}.
Definition id2_cls :=
  {| c_neg := false;
     c_items := [CI_range 97 122; CI_range 65 90; CI_range 48 57; CI_char 95; CI_char 124;
                 CI_char 42; CI_char 64; CI_char 46; CI_char 43] |}.
Definition obj_cls := {| c_neg := true; c_items := [CI_space] |}.

Definition re_type := RRep (RCls tr_cls) 1 254.
Definition re_relation := RRep (RCls tr_cls) 1 50.
Definition re_condition := RRep (RCls cond_cls) 1 50.
Definition re_idtail := RCat (RCls id1_cls) (RStar (RCls id2_cls)).
Definition re_objlen := RRep (RCls obj_cls) 2 256.
Definition re_typeid := RCat re_type (RCat (RChar 58) re_idtail).
Definition re_userset :=
  RCat re_type (RCat (RChar 58) (RCat (RCls id1_cls) (RCat (RStar (RCls id2_cls)) (RCat (RChar 35) re_relation)))).
Definition re_wildcard := RCat re_type (RCat (RChar 58) (RChar 42)).

Ltac compute_regexes :=
  repeat match goal with
         | |- context [regex_of_string ?x] =>
             let r := eval vm_compute in (regex_of_string x) in
             replace (regex_of_string x) with r by (vm_compute; reflexivity)
         end.

(* These nine lemmas are the obligations that tie the proofs to the rule strings and to the
   shape of the Go functions: they fail to check when a rule, a format string or the boolean
   structure of a validator changes. *)
Lemma validate_type_re s : validate_type s = Some (matches re_type s).
Proof. unfold validate_type, go_validate_type; cbn [veval]; compute_regexes; reflexivity. Qed.
Lemma validate_relation_re s : validate_relation s = Some (matches re_relation s).
Proof. unfold validate_relation, go_validate_relation; cbn [veval]; compute_regexes; reflexivity. Qed.
Lemma validate_condition_re s : validate_condition s = Some (matches re_condition s).
Proof. unfold validate_condition, go_validate_relationship_condition; cbn [veval]; compute_regexes; reflexivity. Qed.
Lemma validate_object_id_re s : validate_object_id s = Some (matches re_idtail s).
Proof. unfold validate_object_id, go_validate_objectid; cbn [veval]; compute_regexes; reflexivity. Qed.
Lemma validate_object_re s : validate_object s = Some (matches re_typeid s && matches re_objlen s).
Proof. unfold validate_object, go_validate_object; cbn [veval]; compute_regexes; reflexivity. Qed.
Lemma validate_user_object_re s : validate_user_object s = Some (matches re_typeid s && matches re_objlen s).
Proof. unfold validate_user_object, go_validate_user_object; cbn [veval]; compute_regexes; reflexivity. Qed.
Lemma validate_user_set_re s : validate_user_set s = Some (matches re_userset s).
Proof. unfold validate_user_set, go_validate_user_set; cbn [veval]; compute_regexes; reflexivity. Qed.
Lemma validate_user_wildcard_re s : validate_user_wildcard s = Some (matches re_wildcard s).
Proof. unfold validate_user_wildcard, go_validate_user_wildcard; cbn [veval]; compute_regexes; reflexivity. Qed.
Lemma validate_user_re s :
  validate_user s = Some (matches re_userset s || (matches re_typeid s && matches re_objlen s) || matches re_wildcard s).
Proof. unfold validate_user, go_validate_user; cbn [veval]; compute_regexes; reflexivity. Qed.

(* ---------- character classes = character predicates of the specification ---------- *)

Lemma ws_sws c : ws c = sws c.
Proof. reflexivity. Qed.

Lemma tr_cls_spec c : cls_match tr_cls c = negb (bad_tr c).
Proof. unfold cls_match, tr_cls, bad_tr; simpl; unfold sws, ws. btauto. Qed.
Lemma cond_cls_spec c : cls_match cond_cls c = negb (bad_cond c).
Proof. unfold cls_match, cond_cls, bad_cond; simpl; unfold sws, ws. btauto. Qed.
Lemma id1_cls_spec c : cls_match id1_cls c = id_first c.
Proof. unfold cls_match, id1_cls, id_first; simpl; unfold sws, ws. btauto. Qed.
Lemma id2_cls_spec c : cls_match id2_cls c = id_rest c.
Proof. unfold cls_match, id2_cls, id_rest, is_lower, is_upper, is_digit; simpl. btauto. Qed.
Lemma obj_cls_spec c : cls_match obj_cls c = negb (sws c).
Proof. unfold cls_match, obj_cls; simpl; unfold sws, ws. btauto. Qed.

Lemma forallb_ext' {A} (f g : A -> bool) l : (forall x, f x = g x) -> forallb f l = forallb g l.
Proof. intros H; induction l as [|x l IH]; simpl; [reflexivity | rewrite H, IH; reflexivity]. Qed.

Lemma bool_iff (a b : bool) : (a = true <-> b = true) -> a = b.
Proof. destruct a, b; intuition congruence. Qed.

Lemma len_in_iff lo hi s : len_in lo hi s = true <-> (lo <= length s)%nat /\ (length s <= hi)%nat.
Proof. unfold len_in. rewrite andb_true_iff, !Nat.leb_le. tauto. Qed.

(* ---------- simple validators ---------- *)

Lemma m_rep_cls k lo hi s (f : N -> bool) :
  (lo <= hi)%nat -> (forall c, cls_match k c = f c) ->
  matches (RRep (RCls k) lo hi) s = len_in lo hi s && forallb f s.
Proof.
  intros Hle Hf. apply bool_iff.
  rewrite matches_spec by (simpl; apply Nat.leb_le; assumption).
  rewrite lang_rep_cls, andb_true_iff, len_in_iff, (forallb_ext' _ _ s Hf). tauto.
Qed.

Lemma m_type s : matches re_type s = spec_type s.
Proof. apply m_rep_cls; [lia | apply tr_cls_spec]. Qed.
Lemma m_relation s : matches re_relation s = spec_relation s.
Proof. apply m_rep_cls; [lia | apply tr_cls_spec]. Qed.
Lemma m_condition s : matches re_condition s = spec_condition s.
Proof. apply m_rep_cls; [lia | apply cond_cls_spec]. Qed.
Lemma m_objlen s : matches re_objlen s = spec_objlen s.
Proof. apply m_rep_cls; [lia | apply obj_cls_spec]. Qed.

Lemma lang_idtail s : lang re_idtail s <-> spec_id s = true.
Proof.
  unfold re_idtail. rewrite lang_cat_iff. split.
  - intros (u & v & -> & Hu & Hv). apply lang_cls_iff in Hu as (c & -> & Hc).
    apply lang_star_cls in Hv. simpl.
    rewrite <- id1_cls_spec, Hc, (forallb_ext' _ _ v id2_cls_spec) in *. exact Hv.
  - destruct s as [|c r]; simpl; [discriminate|]. intros H.
    apply andb_true_iff in H as [Hc Hr].
    exists [c], r. split; [reflexivity|]. split.
    + apply lang_cls_iff. exists c. rewrite id1_cls_spec. auto.
    + apply lang_star_cls. rewrite (forallb_ext' _ _ r id2_cls_spec). exact Hr.
Qed.

Lemma m_id s : matches re_idtail s = spec_id s.
Proof. apply bool_iff. rewrite matches_spec by reflexivity. apply lang_idtail. Qed.

(* ---------- splitting ---------- *)

Lemma split_first_some c s t i :
  split_first c s = Some (t, i) -> s = t ++ c :: i /\ forallb (fun x => negb (x =? c)) t = true.
Proof.
  revert t i; induction s as [|x r IH]; simpl; intros t i H; [discriminate|].
  destruct (N.eqb_spec x c) as [->|Hn].
  - injection H as <- <-. auto.
  - destruct (split_first c r) as [[a b]|] eqn:E; [|discriminate].
    injection H as <- <-. destruct (IH _ _ eq_refl) as [-> Hf].
    simpl. rewrite Hf. apply N.eqb_neq in Hn. rewrite Hn. auto.
Qed.

Lemma split_first_app c t i :
  forallb (fun x => negb (x =? c)) t = true -> split_first c (t ++ c :: i) = Some (t, i).
Proof.
  induction t as [|x t IH]; simpl; intros H.
  - rewrite N.eqb_refl. reflexivity.
  - apply andb_true_iff in H as [Hx Ht]. apply negb_true_iff in Hx. rewrite Hx, IH by assumption.
    reflexivity.
Qed.

Lemma split_first_none c s :
  forallb (fun x => negb (x =? c)) s = true -> split_first c s = None.
Proof.
  induction s as [|x r IH]; simpl; intros H; [reflexivity|].
  apply andb_true_iff in H as [Hx Hr]. apply negb_true_iff in Hx. rewrite Hx, IH by assumption.
  reflexivity.
Qed.

Lemma forallb_impl {A} (f g : A -> bool) l :
  (forall x, f x = true -> g x = true) -> forallb f l = true -> forallb g l = true.
Proof.
  intros H; induction l as [|x l IH]; simpl; [auto|].
  rewrite !andb_true_iff. intros [Hx Hl]. auto.
Qed.

Lemma bad_tr_not c x : bad_tr x = true -> negb (bad_tr c) = true -> negb (c =? x) = true.
Proof.
  intros Hx Hc. destruct (N.eqb_spec c x) as [->|]; [|reflexivity].
  rewrite Hx in Hc. discriminate.
Qed.

Lemma type_no c s : bad_tr c = true -> spec_type s = true -> forallb (fun x => negb (x =? c)) s = true.
Proof.
  intros Hc H. apply andb_true_iff in H as [_ H].
  revert H; apply forallb_impl. intros x; apply bad_tr_not; assumption.
Qed.

Lemma relation_no c s : bad_tr c = true -> spec_relation s = true -> forallb (fun x => negb (x =? c)) s = true.
Proof.
  intros Hc H. apply andb_true_iff in H as [_ H].
  revert H; apply forallb_impl. intros x; apply bad_tr_not; assumption.
Qed.

Lemma id_no c s :
  id_first c = false -> id_rest c = false -> spec_id s = true -> forallb (fun x => negb (x =? c)) s = true.
Proof.
  intros H1 H2. destruct s as [|x r]; simpl; [discriminate|]. intros H.
  apply andb_true_iff in H as [Hx Hr]. apply andb_true_iff. split.
  - destruct (N.eqb_spec x c) as [->|]; [congruence | reflexivity].
  - revert Hr; apply forallb_impl. intros y Hy.
    destruct (N.eqb_spec y c) as [->|]; [congruence | reflexivity].
Qed.

Lemma lang_type s : lang re_type s <-> spec_type s = true.
Proof. rewrite <- m_type. symmetry. apply matches_spec. reflexivity. Qed.
Lemma lang_relation s : lang re_relation s <-> spec_relation s = true.
Proof. rewrite <- m_relation. symmetry. apply matches_spec. reflexivity. Qed.

Lemma m_typeid s : matches re_typeid s = spec_typeid s.
Proof.
  apply bool_iff. rewrite matches_spec by reflexivity.
  unfold re_typeid, spec_typeid. rewrite lang_cat_iff. split.
  - intros (t & v & -> & Ht & Hv). apply lang_cat_iff in Hv as (u & i & -> & Hu & Hi).
    apply lang_char_iff in Hu as ->. apply lang_type in Ht. apply lang_idtail in Hi.
    simpl. rewrite split_first_app by (apply type_no; [reflexivity | assumption]).
    rewrite Ht, Hi. reflexivity.
  - destruct (split_first 58 s) as [[t i]|] eqn:E; [|discriminate].
    intros H. apply andb_true_iff in H as [Ht Hi].
    apply split_first_some in E as [-> _].
    exists t, (58 :: i). split; [reflexivity|]. split; [apply lang_type; assumption|].
    apply lang_cat_iff. exists [58], i. split; [reflexivity|]. split.
    + apply lang_char_iff. reflexivity.
    + apply lang_idtail. assumption.
Qed.

Lemma m_userset s : matches re_userset s = spec_userset s.
Proof.
  apply bool_iff. rewrite matches_spec by reflexivity.
  unfold re_userset, spec_userset. rewrite lang_cat_iff. split.
  - intros (t & v & -> & Ht & Hv).
    apply lang_cat_iff in Hv as (u & v1 & -> & Hu & Hv). apply lang_char_iff in Hu as ->.
    apply lang_cat_iff in Hv as (c1 & v2 & -> & Hc1 & Hv).
    apply lang_cat_iff in Hv as (r1 & v3 & -> & Hr1 & Hv).
    apply lang_cat_iff in Hv as (h & rel & -> & Hh & Hrel). apply lang_char_iff in Hh as ->.
    assert (Hid : spec_id (c1 ++ r1) = true).
    { apply lang_idtail. unfold re_idtail. apply lang_cat_iff. exists c1, r1. auto. }
    apply lang_type in Ht. apply lang_relation in Hrel.
    simpl. rewrite split_first_app by (apply type_no; [reflexivity | assumption]).
    replace (c1 ++ r1 ++ 35 :: rel) with ((c1 ++ r1) ++ 35 :: rel) by (rewrite <- app_assoc; reflexivity).
    rewrite split_first_app by (apply id_no; [reflexivity | reflexivity | assumption]).
    rewrite Ht, Hid, Hrel. reflexivity.
  - destruct (split_first 58 s) as [[t rest]|] eqn:E; [|discriminate].
    destruct (split_first 35 rest) as [[i rel]|] eqn:E2; [|discriminate].
    intros H. apply andb_true_iff in H as [H Hrel]. apply andb_true_iff in H as [Ht Hi].
    apply split_first_some in E as [-> _]. apply split_first_some in E2 as [-> _].
    apply lang_idtail in Hi. unfold re_idtail in Hi. apply lang_cat_iff in Hi as (c1 & r1 & -> & Hc1 & Hr1).
    exists t, (58 :: (c1 ++ r1) ++ 35 :: rel). split; [reflexivity|]. split; [apply lang_type; assumption|].
    apply lang_cat_iff. exists [58], ((c1 ++ r1) ++ 35 :: rel). split; [reflexivity|].
    split; [apply lang_char_iff; reflexivity|].
    apply lang_cat_iff. exists c1, (r1 ++ 35 :: rel). split; [rewrite app_assoc; reflexivity|]. split; [assumption|].
    apply lang_cat_iff. exists r1, (35 :: rel). split; [reflexivity|]. split; [assumption|].
    apply lang_cat_iff. exists [35], rel. split; [reflexivity|]. split; [apply lang_char_iff; reflexivity|].
    apply lang_relation. assumption.
Qed.

Lemma m_wildcard s : matches re_wildcard s = spec_wildcard s.
Proof.
  apply bool_iff. rewrite matches_spec by reflexivity.
  unfold re_wildcard, spec_wildcard. rewrite lang_cat_iff. split.
  - intros (t & v & -> & Ht & Hv).
    apply lang_cat_iff in Hv as (u & w & -> & Hu & Hw).
    apply lang_char_iff in Hu as ->. apply lang_char_iff in Hw as ->.
    apply lang_type in Ht. simpl.
    rewrite split_first_app by (apply type_no; [reflexivity | assumption]).
    rewrite Ht. reflexivity.
  - destruct (split_first 58 s) as [[t rest]|] eqn:E; [|discriminate].
    intros H. apply andb_true_iff in H as [Ht Hr]. apply str_eqb_eq in Hr as ->.
    apply split_first_some in E as [-> _].
    exists t, [58; 42]. split; [reflexivity|]. split; [apply lang_type; assumption|].
    apply lang_cat_iff. exists [58], [42]. split; [reflexivity|].
    split; apply lang_char_iff; reflexivity.
Qed.

(* ---------- exactness: model validator = specification, for every string ---------- *)

Theorem validate_type_exact s : validate_type s = Some (spec_type s).
Proof. rewrite validate_type_re, m_type. reflexivity. Qed.
Theorem validate_relation_exact s : validate_relation s = Some (spec_relation s).
Proof. rewrite validate_relation_re, m_relation. reflexivity. Qed.
Theorem validate_condition_exact s : validate_condition s = Some (spec_condition s).
Proof. rewrite validate_condition_re, m_condition. reflexivity. Qed.
Theorem validate_object_id_exact s : validate_object_id s = Some (spec_id s).
Proof. rewrite validate_object_id_re, m_id. reflexivity. Qed.
Theorem validate_object_exact s : validate_object s = Some (spec_object s).
Proof. rewrite validate_object_re, m_typeid, m_objlen. reflexivity. Qed.
Theorem validate_user_object_exact s : validate_user_object s = Some (spec_object s).
Proof. rewrite validate_user_object_re, m_typeid, m_objlen. reflexivity. Qed.
Theorem validate_user_set_exact s : validate_user_set s = Some (spec_userset s).
Proof. rewrite validate_user_set_re, m_userset. reflexivity. Qed.
Theorem validate_user_wildcard_exact s : validate_user_wildcard s = Some (spec_wildcard s).
Proof. rewrite validate_user_wildcard_re, m_wildcard. reflexivity. Qed.
Theorem validate_user_exact s : validate_user s = Some (spec_user s).
Proof. rewrite validate_user_re, m_userset, m_typeid, m_objlen, m_wildcard. reflexivity. Qed.

(* ---------- consequences named by the property ---------- *)

Lemma count_char_app c a b : count_char c (a ++ b) = (count_char c a + count_char c b)%nat.
Proof. induction a as [|x a IH]; simpl; [reflexivity | rewrite IH; lia]. Qed.

Lemma count_char_none c s : forallb (fun x => negb (x =? c)) s = true -> count_char c s = 0%nat.
Proof.
  induction s as [|x s IH]; simpl; [reflexivity|]. intros H.
  apply andb_true_iff in H as [Hx Hs]. apply negb_true_iff in Hx. rewrite Hx, IH by assumption. reflexivity.
Qed.

Lemma object_split s :
  spec_object s = true ->
  count_char 58 s = 1%nat /\
  exists t i, s = t ++ [58] ++ i /\ spec_type t = true /\ spec_id i = true.
Proof.
  unfold spec_object, spec_typeid. intros H. apply andb_true_iff in H as [H _].
  destruct (split_first 58 s) as [[t i]|] eqn:E; [|discriminate].
  apply andb_true_iff in H as [Ht Hi]. apply split_first_some in E as [-> Hn].
  split.
  - rewrite count_char_app. simpl. rewrite count_char_none by assumption.
    rewrite count_char_none by (apply id_no; [reflexivity | reflexivity | assumption]). reflexivity.
  - exists t, i. auto.
Qed.

Lemma userset_split s :
  spec_userset s = true ->
  count_char 58 s = 1%nat /\ count_char 35 s = 1%nat /\
  exists t i r, s = t ++ [58] ++ i ++ [35] ++ r /\
                spec_type t = true /\ spec_id i = true /\ spec_relation r = true.
Proof.
  unfold spec_userset. intros H.
  destruct (split_first 58 s) as [[t rest]|] eqn:E; [|discriminate].
  destruct (split_first 35 rest) as [[i rel]|] eqn:E2; [|discriminate].
  apply andb_true_iff in H as [H Hrel]. apply andb_true_iff in H as [Ht Hi].
  apply split_first_some in E as [-> Hn]. apply split_first_some in E2 as [-> Hn2].
  split; [|split].
  - rewrite !count_char_app. simpl. rewrite count_char_app. simpl.
    rewrite (count_char_none 58 t) by assumption.
    rewrite (count_char_none 58 i) by (apply id_no; [reflexivity | reflexivity | assumption]).
    rewrite (count_char_none 58 rel) by (apply relation_no; [reflexivity | assumption]). reflexivity.
  - rewrite !count_char_app. simpl. rewrite count_char_app. simpl.
    rewrite (count_char_none 35 t) by (apply type_no; [reflexivity | assumption]).
    rewrite (count_char_none 35 i) by assumption.
    rewrite (count_char_none 35 rel) by (apply relation_no; [reflexivity | assumption]). reflexivity.
  - exists t, i, rel. simpl. auto.
Qed.

Lemma user_exclusive s :
  spec_user s = true ->
  (spec_userset s = true /\ spec_object s = false /\ spec_wildcard s = false) \/
  (spec_userset s = false /\ spec_object s = true /\ spec_wildcard s = false) \/
  (spec_userset s = false /\ spec_object s = false /\ spec_wildcard s = true).
Proof.
  unfold spec_user, spec_userset, spec_object, spec_typeid, spec_wildcard.
  destruct (split_first 58 s) as [[t rest]|] eqn:E; [|simpl; discriminate].
  destruct (spec_type t) eqn:Ht; simpl.
  2:{ destruct (split_first 35 rest) as [[i r]|]; simpl; discriminate. }
  destruct (spec_id rest) eqn:Hid.
  - (* rest is an object id: it contains no '#', and it is not "*" *)
    rewrite (split_first_none 35 rest) by (apply id_no; [reflexivity | reflexivity | assumption]).
    assert (str_eqb rest [42] = false) as ->.
    { destruct (str_eqb_spec rest [42]) as [->|]; [discriminate Hid | reflexivity]. }
    simpl. destruct (spec_objlen _); simpl; intros H; [right; left; auto | discriminate].
  - simpl. destruct (str_eqb_spec rest [42]) as [->|Hne].
    + simpl. intros _. right; right. auto.
    + destruct (split_first 35 rest) as [[i r]|]; simpl.
      * rewrite !orb_false_r. intros H. left. auto.
      * discriminate.
Qed.

(* ---------- Prop-level readings ---------- *)

Definition no_ws (s : str) : Prop := Forall (fun c => sws c = false) s.
Definition none_of (l : list N) (s : str) : Prop := Forall (fun c => ~ In c l) s.

Lemma forallb_Forall {A} (f : A -> bool) l : forallb f l = true <-> Forall (fun x => f x = true) l.
Proof.
  induction l as [|x l IH]; simpl.
  - split; auto.
  - rewrite andb_true_iff, IH. split.
    + intros [H1 H2]; constructor; assumption.
    + intros H; inversion H; auto.
Qed.

Lemma bad_tr_iff c : negb (bad_tr c) = true <-> (~ In c [58; 35; 64; 42]) /\ sws c = false.
Proof.
  unfold bad_tr. rewrite negb_true_iff, !orb_false_iff, !N.eqb_neq. simpl. intuition.
Qed.

Lemma type_chars lo hi s :
  len_in lo hi s && forallb (fun c => negb (bad_tr c)) s = true <->
  (lo <= length s <= hi)%nat /\ none_of [58; 35; 64; 42] s /\ no_ws s.
Proof.
  rewrite andb_true_iff, len_in_iff, forallb_Forall. unfold none_of, no_ws.
  split.
  - intros [H1 H2]. split; [lia|]. split; eapply Forall_impl; try exact H2;
      intros c Hc; apply bad_tr_iff in Hc; tauto.
  - intros (H1 & H2 & H3). split; [lia|].
    rewrite Forall_forall in *. intros c Hc. apply bad_tr_iff. split; auto.
Qed.

Lemma id_no_ws s : spec_id s = true -> no_ws s.
Proof.
  destruct s as [|c r]; simpl; [discriminate|]. intros H. apply andb_true_iff in H as [Hc Hr].
  constructor.
  - unfold id_first in Hc. rewrite negb_true_iff, !orb_false_iff in Hc. tauto.
  - apply forallb_Forall in Hr. eapply Forall_impl; [|exact Hr].
    intros x Hx. destruct (sws x) eqn:E; [|reflexivity].
    unfold sws in E. rewrite !orb_true_iff, !N.eqb_eq in E.
    destruct E as [[[[->| ->]| ->]| ->]| ->]; discriminate Hx.
Qed.

Lemma rules_identical : go_rules = js_rules /\ go_rules = java_rules.
Proof. split; vm_compute; reflexivity. Qed.

(* Proofs/WGraphProofs.v — structure of the weighted graph the builder makes (C10): one node per unique
   label, one operator node per operator occurrence of the model, never a panic. *)
From Verif Require Import Base.Str Base.Outcome Model.Ast Model.Printer Model.WGraph.

(* ---- operator occurrences ---- *)
Fixpoint count_ops (u : userset) : N :=
  match u with
  | UUnion cs | UInter cs => 1 + fold_right (fun c n => count_ops c + n) 0 cs
  | UDiff b s => 1 + count_ops b + count_ops s
  | UUnset => 1            (* an unset userset is built as an operator node with an empty label *)
  | _ => 0
  end.

Lemma get_or_add_ops g id l t : g_ops (fst (get_or_add_node g id l t)) = g_ops g.
Proof. unfold get_or_add_node. destruct (find_node id (g_nodes g)); reflexivity. Qed.
Lemma push_edge_ops g e : g_ops (push_edge g e) = g_ops g. Proof. reflexivity. Qed.
Lemma add_edge_ops g a b t ts : g_ops (add_edge g a b t ts) = g_ops g. Proof. reflexivity. Qed.
Lemma upsert_edge_ops g a b t ts c : g_ops (upsert_edge g a b t ts c) = g_ops g.
Proof. unfold upsert_edge. destruct (upsert_in _ _ _ _ _); reflexivity. Qed.

Lemma parse_this_ops g p td rel : g_ops (parse_this g p td rel) = g_ops g.
Proof.
  unfold parse_this. generalize (rm_types_of (assoc rel (td_meta_rels td))). intros l. revert g.
  induction l as [|r l IH]; intros g; simpl; [reflexivity|]. rewrite IH.
  destruct (rr_kind r); destruct (get_or_add_node _ _ _ _) as [g1 n] eqn:E; rewrite upsert_edge_ops;
    change g1 with (fst (g1, n)); rewrite <- E; apply get_or_add_ops.
Qed.

Lemma parse_computed_ops g p td rel : g_ops (parse_computed g p td rel) = g_ops g.
Proof.
  unfold parse_computed. destruct (get_or_add_node _ _ _ _) as [g1 n] eqn:E. rewrite add_edge_ops.
  change g1 with (fst (g1, n)); rewrite <- E; apply get_or_add_ops.
Qed.

Lemma parse_ttu_refs_ops refs : forall g p m td ts cu g', parse_ttu_refs g p m td ts cu refs = Ok g' -> g_ops g' = g_ops g.
Proof.
  induction refs as [|r refs IH]; intros g p m td ts cu g' H; simpl in H; [inversion H; reflexivity|].
  destruct (negb (type_and_relation_exists m (rr_type r) cu)); [discriminate|].
  destruct (get_or_add_node _ _ _ _) as [g1 n] eqn:E.
  apply IH in H. rewrite H. destruct (has_edge _ _ _ _ _); rewrite ?upsert_edge_ops;
    change g1 with (fst (g1, n)); rewrite <- E; apply get_or_add_ops.
Qed.

Lemma parse_ttu_ops g p m td ts cu g' : parse_ttu g p m td ts cu = Ok g' -> g_ops g' = g_ops g.
Proof.
  unfold parse_ttu. destruct (assoc ts (td_meta_rels td)); [|discriminate].
  destruct (rm_types r) eqn:Er; [discriminate|]. rewrite <- Er. apply parse_ttu_refs_ops.
Qed.

(* the operator counter after building a rewrite = before + number of operator occurrences in it *)
Definition ops_spec (c : userset) : Prop :=
  forall g p m td rel g', parse_rewrite g p m td rel c = Ok g' -> g_ops g' = g_ops g + count_ops c.

Definition sum_ops (cs : list userset) : N := fold_right (fun c n => count_ops c + n) 0 cs.

Lemma operator_case g p m td rel op cs g' :
  Forall ops_spec cs ->
  (let '(g1, opn) := op_node g op in
   let g2 := add_edge g1 (n_id p) (n_id opn) ERewrite [] in
   (fix children (g : wgraph) (opn : wnode) (cs : list userset) : outcome wgraph werr :=
      match cs with
      | [] => Ok g
      | c :: r => obind (parse_rewrite g opn m td rel c) (fun g => children g opn r)
      end) g2 opn cs) = Ok g' ->
  g_ops g' = g_ops g + (1 + sum_ops cs).
Proof.
  intros Hcs. unfold op_node. cbn [g_nodes g_edges g_ops].
  destruct (get_or_add_node _ _ _ _) as [g1 n] eqn:E.
  assert (H1 : g_ops (add_edge g1 (n_id p) (n_id n) ERewrite []) = g_ops g + 1).
  { rewrite add_edge_ops. change g1 with (fst (g1, n)). rewrite <- E, get_or_add_ops. reflexivity. }
  replace (g_ops g + (1 + sum_ops cs)) with (g_ops g + 1 + sum_ops cs) by lia.
  revert H1. generalize (add_edge g1 (n_id p) (n_id n) ERewrite []). generalize (g_ops g + 1). clear E. induction Hcs as [|c cs Hc _ IHcs]; intros k g2 H2 H.
  - inversion H; subst. unfold sum_ops. cbn [fold_right]. lia.
  - cbn [obind] in H. destruct (parse_rewrite g2 n m td rel c) as [g3| |] eqn:E3; cbn [obind] in H; try discriminate.
    apply Hc in E3. rewrite (IHcs (k + count_ops c) g3); [|rewrite E3, H2; reflexivity|exact H].
    unfold sum_ops. cbn [fold_right]. lia.
Qed.

Theorem parse_rewrite_ops u : ops_spec u.
Proof.
  induction u as [| r | rel0 | ts cu | cs IH | cs IH | b s IHb IHs] using userset_ind'; intros g p m td rel g' H.
  - apply (operator_case g p m td rel [] [] g' (Forall_nil _)) in H. rewrite H. reflexivity.
  - simpl in H. inversion H. rewrite parse_this_ops. cbn [count_ops]. lia.
  - simpl in H. inversion H. rewrite parse_computed_ops. cbn [count_ops]. lia.
  - simpl in H. apply parse_ttu_ops in H. rewrite H. cbn [count_ops]. lia.
  - apply (operator_case g p m td rel (lit "union") cs g' IH) in H. rewrite H. reflexivity.
  - apply (operator_case g p m td rel (lit "intersection") cs g' IH) in H. rewrite H. reflexivity.
  - apply (operator_case g p m td rel (lit "exclusion") [b; s] g' (Forall_cons _ IHb (Forall_cons _ IHs (Forall_nil _)))) in H.
    rewrite H. unfold sum_ops. cbn [fold_right count_ops]. lia.
Qed.

(* ---- lifted to whole models ---- *)
From Coq Require Import Permutation.
From Verif Require Import Proofs.SortFacts Proofs.PrinterCanonical.

Definition rel_ops (td : typedef) (name : str) : N :=
  count_ops (match assoc name (td_rels td) with Some u => u | None => UUnset end).

Lemma build_relations_ops names : forall g m td g',
  build_relations g m td names = Ok g' -> g_ops g' = g_ops g + fold_right (fun n acc => rel_ops td n + acc) 0 names.
Proof.
  induction names as [|n names IH]; intros g m td g' H; simpl in H.
  - inversion H; subst. simpl. lia.
  - destruct (get_or_add_node _ _ _ _) as [g1 p] eqn:E.
    destruct (parse_rewrite g1 p m td n _) as [g2| |] eqn:E2; cbn [obind] in H; try discriminate.
    apply parse_rewrite_ops in E2. apply IH in H. rewrite H, E2.
    assert (Hg1 : g_ops g1 = g_ops g) by (change g1 with (fst (g1, p)); rewrite <- E; apply get_or_add_ops).
    rewrite Hg1. cbn [fold_right]. unfold rel_ops at 2. lia.
Qed.

Definition type_ops (td : typedef) : N :=
  fold_right (fun n acc => rel_ops td n + acc) 0 (stable_sort str_compare (keys (td_rels td))).

Lemma build_types_ops tds : forall g m g',
  build_types g m tds = Ok g' -> g_ops g' = g_ops g + fold_right (fun td acc => type_ops td + acc) 0 tds.
Proof.
  induction tds as [|td tds IH]; intros g m g' H; simpl in H.
  - inversion H; subst. simpl. lia.
  - destruct (get_or_add_node _ _ _ _) as [g1 p] eqn:E.
    destruct (build_relations g1 m td _) as [g2| |] eqn:E2; cbn [obind] in H; try discriminate.
    apply build_relations_ops in E2. apply IH in H. rewrite H, E2.
    assert (Hg1 : g_ops g1 = g_ops g) by (change g1 with (fst (g1, p)); rewrite <- E; apply get_or_add_ops).
    rewrite Hg1. cbn [fold_right]. unfold type_ops at 2. lia.
Qed.

(* C10_inventory (operators): the built graph has exactly one operator node counter step per operator
   occurrence of the model — none shared, none missing *)
Theorem wbuild_operator_count m g :
  wbuild m = Ok g -> g_ops g = fold_right (fun td acc => type_ops td + acc) 0 (stable_sort td_cmp (m_types m)).
Proof. intros H. apply build_types_ops in H. rewrite H. reflexivity. Qed.

(* ---- one node per unique label ---- *)
Definition nodes_unique (g : wgraph) : Prop := NoDup (map n_id (g_nodes g)).

Lemma find_node_none_notin id l : find_node id l = None -> ~ In id (map n_id l).
Proof.
  induction l as [|n l IH]; simpl; intros H; [tauto|].
  destruct (str_eqb_spec (n_id n) id) as [E|Hn]; [discriminate|]. intros [E|Hin]; [contradiction|]. apply IH; auto.
Qed.

Lemma NoDup_app_single {A} (l : list A) x : NoDup l -> ~ In x l -> NoDup (l ++ [x]).
Proof.
  induction l as [|y l IH]; simpl; intros Hnd Hn; [constructor; auto; constructor|].
  inversion Hnd; subst. constructor.
  - intros Hin. apply in_app_or in Hin. destruct Hin as [Hin|[E|[]]]; [contradiction|]. apply Hn. left; auto.
  - apply IH; auto.
Qed.

Lemma get_or_add_unique g id l t : nodes_unique g -> nodes_unique (fst (get_or_add_node g id l t)).
Proof.
  unfold get_or_add_node, nodes_unique. destruct (find_node id (g_nodes g)) eqn:E; simpl; auto.
  intros H. rewrite map_app. simpl. apply NoDup_app_single; auto. apply find_node_none_notin. exact E.
Qed.

(* an invariant that only depends on the node list and is kept by get_or_add_node is kept by the builder *)
Section NodeInvariant.
  Variable I : wgraph -> Prop.
  Hypothesis I_add : forall g id l t, I g -> I (fst (get_or_add_node g id l t)).
  Hypothesis I_nodes : forall g g', g_nodes g' = g_nodes g -> I g -> I g'.

  Lemma I_upsert g a b t ts c : I g -> I (upsert_edge g a b t ts c).
  Proof. intros H. apply (I_nodes g); auto. unfold upsert_edge. destruct (upsert_in _ _ _ _ _); reflexivity. Qed.
  Lemma I_add_edge g a b t ts : I g -> I (add_edge g a b t ts).
  Proof. intros H. apply (I_nodes g); auto. Qed.

  Lemma I_parse_this g p td rel : I g -> I (parse_this g p td rel).
  Proof.
    unfold parse_this. generalize (rm_types_of (assoc rel (td_meta_rels td))). intros l. revert g.
    induction l as [|r l IH]; intros g H; simpl; [exact H|]. apply IH.
    destruct (rr_kind r); destruct (get_or_add_node _ _ _ _) as [g1 n] eqn:E; apply I_upsert;
      change g1 with (fst (g1, n)); rewrite <- E; apply I_add; exact H.
  Qed.

  Lemma I_parse_computed g p td rel : I g -> I (parse_computed g p td rel).
  Proof.
    intros H. unfold parse_computed. destruct (get_or_add_node _ _ _ _) as [g1 n] eqn:E. apply I_add_edge.
    change g1 with (fst (g1, n)); rewrite <- E; apply I_add; exact H.
  Qed.

  Lemma I_parse_ttu_refs refs : forall g p m td ts cu g', I g -> parse_ttu_refs g p m td ts cu refs = Ok g' -> I g'.
  Proof.
    induction refs as [|r refs IH]; intros g p m td ts cu g' H E; simpl in E; [inversion E; subst; exact H|].
    destruct (negb (type_and_relation_exists m (rr_type r) cu)); [discriminate|].
    destruct (get_or_add_node _ _ _ _) as [g1 n] eqn:E1.
    assert (H1 : I g1) by (change g1 with (fst (g1, n)); rewrite <- E1; apply I_add; exact H).
    eapply IH; [|exact E]. destruct (has_edge _ _ _ _ _); [exact H1|apply I_upsert; exact H1].
  Qed.

  Lemma I_parse_ttu g p m td ts cu g' : I g -> parse_ttu g p m td ts cu = Ok g' -> I g'.
  Proof.
    unfold parse_ttu. destruct (assoc ts (td_meta_rels td)); [|discriminate].
    destruct (rm_types r) eqn:Er; [discriminate|]. rewrite <- Er. apply I_parse_ttu_refs.
  Qed.

  Definition I_spec (c : userset) : Prop := forall g p m td rel g', I g -> parse_rewrite g p m td rel c = Ok g' -> I g'.

  Lemma I_operator g p m td rel op cs g' :
    Forall I_spec cs -> I g ->
    (let '(g1, opn) := op_node g op in
     let g2 := add_edge g1 (n_id p) (n_id opn) ERewrite [] in
     (fix children (g : wgraph) (opn : wnode) (cs : list userset) : outcome wgraph werr :=
        match cs with
        | [] => Ok g
        | c :: r => obind (parse_rewrite g opn m td rel c) (fun g => children g opn r)
        end) g2 opn cs) = Ok g' -> I g'.
  Proof.
    intros Hcs H. unfold op_node.
    destruct (get_or_add_node _ _ _ _) as [g1 n] eqn:E.
    assert (H1 : I (add_edge g1 (n_id p) (n_id n) ERewrite [])).
    { apply I_add_edge. change g1 with (fst (g1, n)). rewrite <- E. apply I_add. apply (I_nodes g); auto. }
    revert H1. generalize (add_edge g1 (n_id p) (n_id n) ERewrite []). clear E.
    induction Hcs as [|c cs Hc _ IHcs]; intros g2 H2 E.
    - inversion E; subst. exact H2.
    - cbn [obind] in E. destruct (parse_rewrite g2 n m td rel c) as [g3| |] eqn:E3; cbn [obind] in E; try discriminate.
      eapply IHcs; [|exact E]. eapply Hc; eauto.
  Qed.

  Theorem I_parse_rewrite u : I_spec u.
  Proof.
    induction u as [| r | rel0 | ts cu | cs IH | cs IH | b s IHb IHs] using userset_ind'; intros g p m td rel g' H E.
    - eapply (I_operator g p m td rel [] []); eauto.
    - simpl in E. inversion E; subst. apply I_parse_this. exact H.
    - simpl in E. inversion E; subst. apply I_parse_computed. exact H.
    - simpl in E. eapply I_parse_ttu; eauto.
    - eapply (I_operator g p m td rel (lit "union") cs); eauto.
    - eapply (I_operator g p m td rel (lit "intersection") cs); eauto.
    - eapply (I_operator g p m td rel (lit "exclusion") [b; s]); eauto.
  Qed.

  Lemma I_build_relations names : forall g m td g', I g -> build_relations g m td names = Ok g' -> I g'.
  Proof.
    induction names as [|n names IH]; intros g m td g' H E; simpl in E; [inversion E; subst; exact H|].
    destruct (get_or_add_node _ _ _ _) as [g1 p] eqn:E1.
    destruct (parse_rewrite g1 p m td n _) as [g2| |] eqn:E2; cbn [obind] in E; try discriminate.
    eapply IH; [|exact E]. eapply I_parse_rewrite; [|exact E2].
    change g1 with (fst (g1, p)); rewrite <- E1; apply I_add; exact H.
  Qed.

  Lemma I_build_types tds : forall g m g', I g -> build_types g m tds = Ok g' -> I g'.
  Proof.
    induction tds as [|td tds IH]; intros g m g' H E; simpl in E; [inversion E; subst; exact H|].
    destruct (get_or_add_node _ _ _ _) as [g1 p] eqn:E1.
    destruct (build_relations g1 m td _) as [g2| |] eqn:E2; cbn [obind] in E; try discriminate.
    eapply IH; [|exact E]. eapply I_build_relations; [|exact E2].
    change g1 with (fst (g1, p)); rewrite <- E1; apply I_add; exact H.
  Qed.

  Theorem I_wbuild m g : I empty_graph -> wbuild m = Ok g -> I g.
  Proof. intros H E. eapply I_build_types; eauto. Qed.
End NodeInvariant.

(* C10: one node per unique label — a type, relation, referenced userset or wildcard never gets two nodes *)
Theorem wbuild_nodes_unique m g : wbuild m = Ok g -> nodes_unique g.
Proof.
  apply (I_wbuild nodes_unique).
  - intros; apply get_or_add_unique; assumption.
  - intros g0 g' E H. unfold nodes_unique in *. rewrite E. exact H.
  - constructor.
Qed.

(* ---- no panic (C08_builders_total) ---- *)
Lemma obind_no_panic {A B E} (o : outcome A E) (f : A -> outcome B E) :
  is_panic o = false -> (forall a, is_panic (f a) = false) -> is_panic (obind o f) = false.
Proof. destruct o; simpl; auto. Qed.

Lemma parse_ttu_refs_no_panic refs : forall g p m td ts cu, is_panic (parse_ttu_refs g p m td ts cu refs) = false.
Proof.
  induction refs as [|r refs IH]; intros; simpl; [reflexivity|].
  destruct (negb _); [reflexivity|]. destruct (get_or_add_node _ _ _ _). apply IH.
Qed.

Definition np_spec (c : userset) : Prop := forall g p m td rel, is_panic (parse_rewrite g p m td rel c) = false.

Lemma np_operator g p m td rel op cs :
  Forall np_spec cs ->
  is_panic (let '(g1, opn) := op_node g op in
            let g2 := add_edge g1 (n_id p) (n_id opn) ERewrite [] in
            (fix children (g : wgraph) (opn : wnode) (cs : list userset) : outcome wgraph werr :=
               match cs with
               | [] => Ok g
               | c :: r => obind (parse_rewrite g opn m td rel c) (fun g => children g opn r)
               end) g2 opn cs) = false.
Proof.
  intros Hcs. unfold op_node. destruct (get_or_add_node _ _ _ _) as [g1 n].
  generalize (add_edge g1 (n_id p) (n_id n) ERewrite []).
  induction Hcs as [|c cs Hc _ IHcs]; intros g2; [reflexivity|].
  apply obind_no_panic; [apply Hc|intros; apply IHcs].
Qed.

Theorem parse_rewrite_no_panic u : np_spec u.
Proof.
  induction u as [| r | rel0 | ts cu | cs IH | cs IH | b s IHb IHs] using userset_ind'; intros g p m td rel.
  - apply (np_operator g p m td rel [] []). constructor.
  - reflexivity.
  - reflexivity.
  - simpl. unfold parse_ttu. destruct (assoc ts (td_meta_rels td)); [|reflexivity].
    destruct (rm_types r); [reflexivity|]. apply parse_ttu_refs_no_panic.
  - apply (np_operator g p m td rel (lit "union") cs IH).
  - apply (np_operator g p m td rel (lit "intersection") cs IH).
  - apply (np_operator g p m td rel (lit "exclusion") [b; s]). repeat constructor; assumption.
Qed.

Lemma build_relations_no_panic names : forall g m td, is_panic (build_relations g m td names) = false.
Proof.
  induction names as [|n names IH]; intros; simpl; [reflexivity|]. destruct (get_or_add_node _ _ _ _).
  apply obind_no_panic; [apply parse_rewrite_no_panic|intros; apply IH].
Qed.

Lemma build_types_no_panic tds : forall g m, is_panic (build_types g m tds) = false.
Proof.
  induction tds as [|td tds IH]; intros; simpl; [reflexivity|]. destruct (get_or_add_node _ _ _ _).
  apply obind_no_panic; [apply build_relations_no_panic|intros; apply IH].
Qed.

Theorem wbuild_no_panic m : is_panic (wbuild m) = false.
Proof. apply build_types_no_panic. Qed.

(* Proofs/ListEq.v — boolean equality of lists of numbers / strings, reflected (for the finite theorems) *)
From Verif Require Import Base.Str.

Fixpoint lstr_eqb (a b : list str) : bool :=
  match a, b with
  | [], [] => true
  | x :: a', y :: b' => str_eqb x y && lstr_eqb a' b'
  | _, _ => false
  end.

Lemma lstr_eqb_eq a b : lstr_eqb a b = true -> a = b.
Proof.
  revert b; induction a as [|x a IH]; intros [|y b]; simpl; try discriminate; auto.
  intros H. apply andb_prop in H. destruct H as [H1 H2]. apply str_eqb_eq in H1. subst. f_equal. auto.
Qed.

Lemma str_eqb_true a b : str_eqb a b = true -> a = b.
Proof. apply str_eqb_eq. Qed.

Fixpoint all_in (xs ys : list str) : bool :=
  match xs with
  | [] => true
  | x :: r => existsb (str_eqb x) ys && all_in r ys
  end.

Lemma all_in_spec xs ys : all_in xs ys = true -> forall x, In x xs -> In x ys.
Proof.
  induction xs as [|a xs IH]; simpl; intros H x Hx; [contradiction|].
  apply andb_prop in H. destruct H as [H1 H2]. destruct Hx as [<-|Hx]; auto.
  apply existsb_exists in H1. destruct H1 as [y [Hy He]]. apply str_eqb_eq in He. subst; auto.
Qed.

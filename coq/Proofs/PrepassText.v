(* Proofs/PrepassText.v — the pre-pass of ParseDSL as a fact about the CHARACTERS of a text: if a text does not end in a line
   feed or a blank, does not start with '#', and nowhere has a blank or a line feed in front of '#' or a blank in front of a line
   feed, the pre-pass of the text followed by a line feed returns the text.  (Proofs/PrepassTidy.v says the same of a list of
   tidy lines; here the lines are those of an arbitrary text.) *)
From Coq Require Import Lia.
From Verif Require Import Base.Str Model.Token Model.Lexer Proofs.PrepassTidy.

(* the character a directly in front of the character b *)
Fixpoint haspair (a b : N) (s : str) : bool :=
  match s with
  | x :: r => (match r with y :: _ => (x =? a) && (y =? b) | [] => false end) || haspair a b r
  | [] => false
  end.

Lemma haspair_app a b x y : haspair a b (x ++ y) = false -> haspair a b x = false /\ haspair a b y = false.
Proof.
  induction x as [|c x IH]; cbn [app]; intros H; [split; [reflexivity|exact H]|].
  cbn [haspair] in H. apply orb_false_iff in H. destruct H as [H1 H2]. destruct (IH H2) as [I1 I2]. split; [|exact I2].
  cbn [haspair]. rewrite I1, orb_false_r. destruct x as [|d x]; [reflexivity|exact H1].
Qed.

Lemma haspair_mid a b p q : haspair a b (p ++ a :: b :: q) = true.
Proof.
  induction p as [|c p IH]; cbn [app haspair]; [rewrite !N.eqb_refl; reflexivity|]. rewrite IH. apply orb_true_r.
Qed.

Lemma haspair_none_b a b s : ~ In b s -> haspair a b s = false.
Proof.
  induction s as [|x s IH]; intros H; [reflexivity|]. cbn [haspair]. rewrite IH by (intros Hin; apply H; right; exact Hin).
  rewrite orb_false_r. destruct s as [|y s']; [reflexivity|]. assert (E : (y =? b) = false) by (apply N.eqb_neq; intros ->; apply H; right; left; reflexivity).
  rewrite E. apply andb_false_r.
Qed.
Lemma haspair_none_a a b s : ~ In a s -> haspair a b s = false.
Proof.
  induction s as [|x s IH]; intros H; [reflexivity|]. cbn [haspair]. rewrite IH by (intros Hin; apply H; right; exact Hin).
  rewrite orb_false_r. destruct s as [|y s']; [reflexivity|]. assert (E : (x =? a) = false) by (apply N.eqb_neq; intros ->; apply H; left; reflexivity).
  rewrite E. reflexivity.
Qed.

(* ---------------------------------------------------------------------------------------- *)
(* the lines of a text                                                                       *)
(* ---------------------------------------------------------------------------------------- *)
Lemma split_aux_nonempty s : forall cur, split_on_aux 10 s cur <> [].
Proof. induction s as [|x s IH]; intros cur; cbn [split_on_aux]; [discriminate|]. destruct (N.eqb x 10); [discriminate|apply IH]. Qed.

Lemma join_cons2 x l : l <> [] -> join [10] (x :: l) = x ++ [10] ++ join [10] l.
Proof. destruct l; [contradiction|reflexivity]. Qed.

Lemma join_split_aux s : forall cur, join [10] (split_on_aux 10 s cur) = rev cur ++ s.
Proof.
  induction s as [|x s IH]; intros cur; cbn [split_on_aux]; [cbn; rewrite app_nil_r; reflexivity|].
  destruct (N.eqb x 10) eqn:E.
  - apply N.eqb_eq in E. subst x. rewrite join_cons2 by apply split_aux_nonempty. rewrite IH. reflexivity.
  - rewrite IH. cbn [rev]. rewrite <- app_assoc. reflexivity.
Qed.

Lemma split_aux_no10 s : forall cur, ~ In 10 cur -> Forall (fun l => ~ In 10 l) (split_on_aux 10 s cur).
Proof.
  induction s as [|x s IH]; intros cur H; cbn [split_on_aux].
  - constructor; [|constructor]. intros Hin. apply H. apply in_rev. exact Hin.
  - destruct (N.eqb x 10) eqn:E.
    + constructor; [intros Hin; apply H; apply in_rev; exact Hin|apply IH; intros []].
    + apply IH. intros [->|Hin]; [discriminate E|exact (H Hin)].
Qed.

(* every line stands in the text between two line feeds (or the ends) *)
Lemma split_aux_lines s : forall cur l, In l (split_on_aux 10 s cur) ->
  exists pre post, rev cur ++ s = pre ++ l ++ post /\ (pre = [] \/ exists p, pre = p ++ [10]) /\ (post = [] \/ exists q, post = 10 :: q).
Proof.
  induction s as [|x s IH]; intros cur l Hin; cbn [split_on_aux] in Hin.
  - destruct Hin as [<-|[]]. exists [], []. rewrite !app_nil_r. cbn. tauto.
  - destruct (N.eqb x 10) eqn:E.
    + apply N.eqb_eq in E. subst x. destruct Hin as [<-|Hin].
      * exists [], (10 :: s). cbn [app]. split; [reflexivity|]. split; [left; reflexivity|right; exists s; reflexivity].
      * destruct (IH [] l Hin) as (pre & post & E & Hpre & Hpost). cbn [rev app] in E. exists (rev cur ++ 10 :: pre), post. split; [|split; [right|exact Hpost]].
        -- rewrite E, <- app_assoc. reflexivity.
        -- destruct Hpre as [->|[p ->]]; [exists (rev cur); reflexivity|exists (rev cur ++ 10 :: p); rewrite <- app_assoc; reflexivity].
    + destruct (IH (x :: cur) l Hin) as (pre & post & E' & Hpre & Hpost). exists pre, post. split; [|tauto].
      rewrite <- E'. cbn [rev]. rewrite <- app_assoc. reflexivity.
Qed.

(* the last line is not empty when the text does not end in a line feed *)
Lemma split_aux_last s : forall cur, rev cur ++ s <> [] -> (forall p, rev cur ++ s <> p ++ [10]) -> last (split_on_aux 10 s cur) [] <> [].
Proof.
  induction s as [|x s IH]; intros cur Hne Hnl; cbn [split_on_aux].
  - cbn [last]. rewrite app_nil_r in Hne. exact Hne.
  - destruct (N.eqb x 10) eqn:E.
    + apply N.eqb_eq in E. subst x. pose proof (split_aux_nonempty s []) as Hs.
      destruct (split_on_aux 10 s []) as [|l0 ls] eqn:El; [contradiction|]. change (last (rev cur :: l0 :: ls) []) with (last (l0 :: ls) []).
      rewrite <- El. apply IH.
      * cbn [rev app]. intros ->. apply (Hnl (rev cur)). reflexivity.
      * cbn [rev app]. intros p ->. apply (Hnl (rev cur ++ 10 :: p)). rewrite <- app_assoc. reflexivity.
    + apply IH; cbn [rev]; rewrite <- app_assoc; assumption.
Qed.

(* ---------------------------------------------------------------------------------------- *)
(* one line                                                                                  *)
(* ---------------------------------------------------------------------------------------- *)
Lemma cut_comment_id l : haspair 32 35 l = false -> cut_comment l = l.
Proof.
  induction l as [|c r IH]; intros H; [reflexivity|]. cbn [haspair] in H. apply orb_false_iff in H. destruct H as [H1 H2].
  cbn [cut_comment]. destruct r as [|d r']; [rewrite andb_false_r; rewrite (IH H2); reflexivity|]. rewrite H1, (IH H2). reflexivity.
Qed.

Lemma trim_left_ok l : l <> [] -> haspair 32 35 l = false -> hd 0 l <> 35 -> (forall l0, l <> l0 ++ [32]) ->
  exists c u, trim_left is_space l = c :: u /\ c <> 35.
Proof.
  induction l as [|x r IH]; intros Hne Hp Hh Hl; [contradiction|]. cbn [trim_left]. unfold is_space at 1.
  destruct (x =? 32) eqn:E; [|exists x, r; split; [reflexivity|exact Hh]].
  apply N.eqb_eq in E. subst x. cbn [haspair] in Hp. apply orb_false_iff in Hp. destruct Hp as [H1 H2].
  apply IH.
  - intros ->. apply (Hl []). reflexivity.
  - exact H2.
  - destruct r as [|d r']; [cbn; discriminate|]. cbn [hd]. change (32 =? 32) with true in H1. cbn [andb] in H1. apply N.eqb_neq. exact H1.
  - intros l0 ->. apply (Hl (32 :: l0)). reflexivity.
Qed.

Lemma clean_line_id l : haspair 32 35 l = false -> hd 0 l <> 35 -> (forall l0, l <> l0 ++ [32]) -> clean_line l = l.
Proof.
  intros Hp Hh Hl. destruct l as [|x r]; [reflexivity|].
  destruct (trim_left_ok (x :: r) ltac:(discriminate) Hp Hh Hl) as (c & u & E & Hc). unfold clean_line. rewrite E.
  apply N.eqb_neq in Hc. rewrite Hc, (cut_comment_id _ Hp). apply trim_right_keep.
  destruct (rev (x :: r)) as [|z zs] eqn:Er; [exact I|]. unfold is_space. apply N.eqb_neq. intros ->.
  apply (Hl (rev zs)). rewrite <- (rev_involutive (x :: r)), Er. reflexivity.
Qed.

(* ---------------------------------------------------------------------------------------- *)
(* the whole text                                                                            *)
(* ---------------------------------------------------------------------------------------- *)
Theorem prepass_id T :
  T <> [] -> (forall p, T <> p ++ [10]) -> (forall p, T <> p ++ [32]) -> hd 0 T <> 35 ->
  haspair 32 35 T = false -> haspair 10 35 T = false -> haspair 32 10 T = false ->
  prepass (T ++ [10]) = T.
Proof.
  intros Hne Hnl Hsp Hh H1 H2 H3.
  pose proof (join_split_aux T []) as HJ. cbn [rev app] in HJ. fold (split_on 10 T) in HJ.
  rewrite <- HJ. apply prepass_tidy.
  - apply split_aux_nonempty.
  - pose proof (split_aux_no10 T [] (fun H => H)) as Hno. fold (split_on 10 T) in Hno.
    apply Forall_forall. intros l Hin. split; [|rewrite Forall_forall in Hno; exact (Hno l Hin)].
    destruct (split_aux_lines T [] l Hin) as (pre & post & E & Hpre & Hpost). cbn [rev app] in E.
    assert (Hl1 : haspair 32 35 l = false).
    { rewrite E in H1. apply haspair_app in H1. destruct H1 as [_ H1]. apply haspair_app in H1. tauto. }
    apply clean_line_id; [exact Hl1| |].
    + destruct l as [|x r]; [cbn; discriminate|]. cbn [hd]. intros ->. destruct Hpre as [->|[p ->]].
      * apply Hh. rewrite E. reflexivity.
      * rewrite E, <- app_assoc in H2. cbn [app] in H2. rewrite haspair_mid in H2. discriminate.
    + intros l0 ->. destruct Hpost as [->|[q ->]].
      * apply (Hsp (pre ++ l0)). rewrite E, app_nil_r, app_assoc. reflexivity.
      * rewrite E in H3. rewrite <- !app_assoc in H3. cbn [app] in H3. rewrite app_assoc, haspair_mid in H3. discriminate.
  - apply (split_aux_last T []); cbn [rev app]; assumption.
Qed.
Print Assumptions prepass_id.

(* Proofs/PGraphProofs.v — the plain graph: reversal flips every line and nothing else; on graphs whose
   line IDs are 0,1,2,... in insertion order (every graph the builder makes) reversing twice gives
   back the very same graph; paths of the reversed graph are the reversed paths (C17). *)
From Coq Require Import Permutation.
From Verif Require Import Base.Str Base.Outcome Model.Ast Model.Printer Model.WGraph Model.PGraph Proofs.SortFacts.

Definition flip (l : pline) : pline :=
  {| pl_id := pl_id l; pl_from := pl_to l; pl_to := pl_from l; pl_type := pl_type l;
     pl_tupleset := pl_tupleset l; pl_conds := pl_conds l |}.

Lemma flip_flip l : flip (flip l) = l.
Proof. destruct l; reflexivity. Qed.

(* line IDs are 0, 1, 2, ... in list order *)
Definition ids_sequential_from (k : nat) (ls : list pline) : Prop := map pl_id ls = seq k (length ls).
Definition ids_sequential (g : pgraph) : Prop := ids_sequential_from 0 (pg_lines g).

(* insertion into a list whose elements are all strictly smaller puts the element at the end *)
Lemma insert_sorted_last x ls :
  Forall (fun y => pl_id y < pl_id x)%nat ls -> insert_sorted line_cmp x ls = ls ++ [x].
Proof.
  induction 1 as [|y ls Hy _ IH]; simpl; [reflexivity|].
  unfold line_cmp at 1. destruct (Nat.compare_spec (pl_id x) (pl_id y)); try lia. rewrite IH. reflexivity.
Qed.

(* a list with increasing IDs is a fixed point of the sort *)
Lemma stable_sort_sequential ls k : ids_sequential_from k ls -> stable_sort line_cmp ls = ls.
Proof.
  revert k. induction ls as [|x ls IH]; intros k H; [reflexivity|].
  unfold ids_sequential_from in H. simpl in H. injection H as Hx Hrest.
  change (stable_sort line_cmp (x :: ls)) with (insert_sorted line_cmp x (stable_sort line_cmp ls)).
  rewrite (IH (S k) Hrest).
  (* x has the smallest id: it stays in front *)
  destruct ls as [|y ls']; [reflexivity|]. simpl. unfold line_cmp.
  pose proof Hrest as Hrest'. unfold ids_sequential_from in Hrest'. simpl in Hrest'. injection Hrest' as Hy _. rewrite Hx, Hy.
  destruct (Nat.compare_spec k (S k)); try lia. reflexivity.
Qed.

Lemma renumber_sequential ls k : ids_sequential_from k ls -> renumber ls k = map flip ls.
Proof.
  revert k. induction ls as [|x ls IH]; intros k H; [reflexivity|].
  unfold ids_sequential_from in H. simpl in H. injection H as Hx Hrest.
  simpl. rewrite (IH (S k) Hrest). unfold flip at 2. rewrite Hx. reflexivity.
Qed.

Lemma map_flip_sequential ls k : ids_sequential_from k ls -> ids_sequential_from k (map flip ls).
Proof. unfold ids_sequential_from. rewrite map_map, map_length. intros H. rewrite <- H. apply map_ext. reflexivity. Qed.

(* on such graphs Reversed() flips every line in place *)
Theorem reversed_flips g : ids_sequential g ->
  reversed g = {| pg_nodes := pg_nodes g; pg_lines := map flip (pg_lines g); pg_ops := pg_ops g;
                  pg_listobjects := negb (pg_listobjects g) |}.
Proof.
  intros H. unfold reversed. rewrite (stable_sort_sequential _ 0 H), (renumber_sequential _ 0 H). reflexivity.
Qed.

Theorem reversed_involutive g : ids_sequential g -> reversed (reversed g) = g.
Proof.
  intros H. rewrite (reversed_flips g H).
  assert (H' : ids_sequential {| pg_nodes := pg_nodes g; pg_lines := map flip (pg_lines g); pg_ops := pg_ops g;
                                 pg_listobjects := negb (pg_listobjects g) |}) by (apply map_flip_sequential; exact H).
  rewrite (reversed_flips _ H'). simpl. rewrite map_map, negb_involutive.
  rewrite (map_ext _ (fun l => l) flip_flip), map_id. destruct g; reflexivity.
Qed.

(* in general (any IDs): the reversed graph has the same nodes, the opposite drawing direction, and its lines
   are the flipped lines up to their IDs *)
Definition no_id (l : pline) := (pl_from l, pl_to l, pl_type l, pl_tupleset l, pl_conds l).

Lemma renumber_no_id ls k : map no_id (renumber ls k) = map (fun l => no_id (flip l)) ls.
Proof. revert k; induction ls as [|x ls IH]; intros k; simpl; [reflexivity|]. rewrite IH. reflexivity. Qed.

Theorem reversed_lines_perm g :
  Permutation (map no_id (pg_lines (reversed g))) (map (fun l => no_id (flip l)) (pg_lines g)).
Proof.
  unfold reversed; simpl. rewrite renumber_no_id. apply Permutation_map. apply Permutation_sym, stable_sort_perm.
Qed.

(* ---- paths ---- *)
Inductive path (ls : list pline) : nat -> nat -> Prop :=
| path_refl x : path ls x x
| path_step x y z : (exists l, In l ls /\ pl_from l = x /\ pl_to l = y) -> path ls y z -> path ls x z.

Lemma path_trans ls x y z : path ls x y -> path ls y z -> path ls x z.
Proof. induction 1; auto. intros. econstructor; eauto. Qed.

Lemma path_flip ls x y : path ls x y -> path (map flip ls) y x.
Proof.
  induction 1 as [x|x y z [l [Hin [Hf Ht]]] _ IH]; [constructor|].
  eapply path_trans; [exact IH|]. econstructor; [|constructor].
  exists (flip l). split; [apply in_map; exact Hin|]. simpl. auto.
Qed.

(* a path from a to b in the graph is a path from b to a in the reversed graph, and conversely *)
Theorem path_duality g x y : ids_sequential g ->
  path (pg_lines g) x y <-> path (pg_lines (reversed g)) y x.
Proof.
  intros H. rewrite (reversed_flips g H). simpl. split.
  - apply path_flip.
  - intros P. apply path_flip in P. rewrite map_map, (map_ext _ (fun l => l) flip_flip), map_id in P. exact P.
Qed.

(* ---- every graph the builder makes has sequential line IDs ---- *)
Lemma seq_snoc k n : seq k (S n) = seq k n ++ [(k + n)%nat].
Proof. revert k; induction n as [|n IH]; intros k; simpl; [f_equal; lia|]. f_equal. rewrite <- Nat.add_succ_comm. apply (IH (S k)). Qed.

Lemma inv_get_or_add g ul l t : ids_sequential g -> ids_sequential (fst (p_get_or_add g ul l t)).
Proof. unfold p_get_or_add. destruct (find_pnode ul g); simpl; auto. Qed.

Lemma inv_add_edge g a b t ts cs : ids_sequential g -> ids_sequential (p_add_edge g a b t ts cs).
Proof.
  unfold ids_sequential, ids_sequential_from, p_add_edge; simpl. intros H.
  rewrite map_app, app_length, H. simpl. rewrite Nat.add_1_r, seq_snoc. reflexivity.
Qed.

Lemma upsert_in_ids ls a b t ts c ls' : p_upsert_in ls a b t ts c = Some ls' -> map pl_id ls' = map pl_id ls.
Proof.
  revert ls'. induction ls as [|l ls IH]; simpl; intros ls' H; [discriminate|].
  destruct (p_same l a b t ts).
  - destruct (mem_str c (pl_conds l)); inversion H; subst; reflexivity.
  - destruct (p_upsert_in ls a b t ts c) as [r|]; simpl in H; [|discriminate]. inversion H; subst. simpl. f_equal. apply IH. reflexivity.
Qed.

Lemma inv_upsert g a b t ts c : ids_sequential g -> ids_sequential (p_upsert g a b t ts c).
Proof.
  intros H. unfold p_upsert. destruct (p_upsert_in (pg_lines g) a b t ts c) as [ls|] eqn:E.
  - pose proof (upsert_in_ids _ _ _ _ _ _ _ E) as Hid.
    unfold ids_sequential, ids_sequential_from in *; simpl.
    rewrite Hid, H. f_equal. rewrite <- (map_length pl_id ls), Hid, map_length. reflexivity.
  - apply inv_add_edge. exact H.
Qed.

Lemma fold_left_inv {A} (f : pgraph -> A -> pgraph) l :
  (forall g x, ids_sequential g -> ids_sequential (f g x)) -> forall g, ids_sequential g -> ids_sequential (fold_left f l g).
Proof. intros Hf. induction l as [|x l IH]; simpl; auto. Qed.

Lemma inv_parse_this g parent td rel : ids_sequential g -> ids_sequential (p_parse_this g parent td rel).
Proof.
  intros H. unfold p_parse_this.
  set (f := fun (acc : pgraph * option pnode) r => _).
  assert (Hf : forall l acc, ids_sequential (fst acc) -> ids_sequential (fst (fold_left f l acc))).
  { induction l as [|r l IH]; intros acc Ha; simpl; [exact Ha|]. apply IH. unfold f. destruct acc as [g0 cur]. simpl in Ha.
    destruct (rr_kind r) as [|x|].
    - destruct (p_get_or_add g0 (rr_type r) (rr_type r) NType) as [g1 n] eqn:E. simpl.
      assert (H1 : ids_sequential g1) by (change g1 with (fst (g1, n)); rewrite <- E; apply inv_get_or_add; exact Ha).
      apply inv_upsert. exact H1.
    - destruct (is_empty x).
      + destruct cur; simpl; [apply inv_upsert|]; exact Ha.
      + destruct (p_get_or_add g0 _ _ NTypeRel) as [g1 n] eqn:E. simpl.
        assert (H1 : ids_sequential g1) by (change g1 with (fst (g1, n)); rewrite <- E; apply inv_get_or_add; exact Ha).
        apply inv_upsert. exact H1.
    - destruct (p_get_or_add g0 _ _ NWildcard) as [g1 n] eqn:E. simpl.
      assert (H1 : ids_sequential g1) by (change g1 with (fst (g1, n)); rewrite <- E; apply inv_get_or_add; exact Ha).
      apply inv_upsert. exact H1. }
  apply Hf. exact H.
Qed.

Lemma inv_parse_computed g parent td rel : ids_sequential g -> ids_sequential (p_parse_computed g parent td rel).
Proof.
  intros H. unfold p_parse_computed.
  destruct (p_get_or_add g _ _ NTypeRel) as [g1 n] eqn:E.
  assert (H1 : ids_sequential g1) by (change g1 with (fst (g1, n)); rewrite <- E; apply inv_get_or_add; exact H).
  apply inv_add_edge. exact H1.
Qed.

Lemma inv_parse_ttu g parent m td ts cu : ids_sequential g -> ids_sequential (p_parse_ttu g parent m td ts cu).
Proof.
  unfold p_parse_ttu. apply fold_left_inv. intros g0 r H0.
  destruct (negb (type_and_relation_exists m (rr_type r) cu)); [exact H0|].
  destruct (p_get_or_add g0 _ _ NTypeRel) as [g1 n] eqn:E.
  assert (H1 : ids_sequential g1) by (change g1 with (fst (g1, n)); rewrite <- E; apply inv_get_or_add; exact H0).
  destruct (p_has_edge g1 _ _ _ _); [exact H1|apply inv_upsert; exact H1].
Qed.

Lemma inv_operator_prefix g op parent :
  ids_sequential g ->
  let id := op ++ lit ":" ++ str_of_N (pg_ops g) in
  let g0 := {| pg_nodes := pg_nodes g; pg_lines := pg_lines g; pg_ops := pg_ops g + 1; pg_listobjects := pg_listobjects g |} in
  ids_sequential (p_add_edge (fst (p_get_or_add g0 id op NOperator)) (pn_id (snd (p_get_or_add g0 id op NOperator))) (pn_id parent) ERewrite [] []).
Proof. intros H. cbv zeta. apply inv_add_edge. apply inv_get_or_add. exact H. Qed.

Theorem inv_rewrite u : forall g parent m td rel, ids_sequential g -> ids_sequential (p_rewrite g parent m td rel u).
Proof.
  induction u as [| r | rel0 | ts cu | cs IH | cs IH | b s IHb IHs] using userset_ind'; intros g parent m td rel H.
  - (* unset: an operator node without children *)
    simpl. destruct (p_get_or_add _ _ _ NOperator) as [g1 n] eqn:E.
    apply inv_add_edge. change g1 with (fst (g1, n)). rewrite <- E. apply inv_get_or_add. exact H.
  - apply inv_parse_this. exact H.
  - apply inv_parse_computed. exact H.
  - apply inv_parse_ttu. exact H.
  - simpl. destruct (p_get_or_add _ _ _ NOperator) as [g1 n] eqn:E.
    assert (H1 : ids_sequential (p_add_edge g1 (pn_id n) (pn_id parent) ERewrite [] [])).
    { apply inv_add_edge. change g1 with (fst (g1, n)). rewrite <- E. apply inv_get_or_add. exact H. }
    revert H1. generalize (p_add_edge g1 (pn_id n) (pn_id parent) ERewrite [] []).
    induction IH as [|c cs Hc _ IHcs]; intros g2 H2; simpl; [exact H2|]. apply IHcs. apply Hc. exact H2.
  - simpl. destruct (p_get_or_add _ _ _ NOperator) as [g1 n] eqn:E.
    assert (H1 : ids_sequential (p_add_edge g1 (pn_id n) (pn_id parent) ERewrite [] [])).
    { apply inv_add_edge. change g1 with (fst (g1, n)). rewrite <- E. apply inv_get_or_add. exact H. }
    revert H1. generalize (p_add_edge g1 (pn_id n) (pn_id parent) ERewrite [] []).
    induction IH as [|c cs Hc _ IHcs]; intros g2 H2; simpl; [exact H2|]. apply IHcs. apply Hc. exact H2.
  - simpl. destruct (p_get_or_add _ _ _ NOperator) as [g1 n] eqn:E.
    apply IHs. apply IHb. apply inv_add_edge. change g1 with (fst (g1, n)). rewrite <- E. apply inv_get_or_add. exact H.
Qed.

Theorem pbuild_ids_sequential m : ids_sequential (pbuild m).
Proof.
  unfold pbuild. apply fold_left_inv; [|reflexivity].
  intros g td H. destruct (p_get_or_add g _ _ NType) as [g1 n] eqn:E.
  assert (H1 : ids_sequential g1) by (change g1 with (fst (g1, n)); rewrite <- E; apply inv_get_or_add; exact H).
  unfold p_relations. apply fold_left_inv; [|exact H1].
  intros g2 rel H2. destruct (p_get_or_add g2 _ _ NTypeRel) as [g3 p] eqn:E3.
  apply inv_rewrite. change g3 with (fst (g3, p)). rewrite <- E3. apply inv_get_or_add. exact H2.
Qed.

(* hence, for every model: reversing the built graph twice restores it exactly — nodes, lines, IDs, labels,
   direction — and with it the DOT content *)
Corollary pbuild_reverse_twice m : reversed (reversed (pbuild m)) = pbuild m.
Proof. apply reversed_involutive. apply pbuild_ids_sequential. Qed.

Corollary pbuild_path_duality m x y :
  path (pg_lines (pbuild m)) x y <-> path (pg_lines (reversed (pbuild m))) y x.
Proof. apply path_duality. apply pbuild_ids_sequential. Qed.

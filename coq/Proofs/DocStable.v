(* Proofs/DocStable.v — the third clause of C01 at document level: for a covered model whose rewrites are already in the
   printer's normal form (every model the DSL parser returns is), printing the re-read model gives the same bytes as
   printing the model, and reading those bytes gives the re-read model again. *)
From Coq Require Import Lia Permutation.
From Verif Require Import Spec.DocDomain Base.Str Base.Outcome Model.Ast Model.Token Model.Lexer Model.Parser Model.Listener Model.Printer Model.Transform
  Spec.Sem Spec.Expressible Spec.Normalize Proofs.PrinterExpressible Proofs.Lossless Proofs.SortFacts Proofs.ParserComplete Proofs.LexRender
  Proofs.AcceptedText Proofs.RoundTripChars Proofs.DocLex Proofs.DocParse Proofs.DocChars Proofs.DocSem Proofs.DocPrepass Proofs.DocPrint Proofs.DocRoundTrip.


(* every rewrite of the model is in the printer's normal form (true of every model the DSL parser returns: parsed_is_normal) *)
Definition normal_td (td : typedef) : Prop := forall n, In n (keys (td_rels td)) -> normalize (u_of td n) = u_of td n.
Definition normal_model (m : model) : Prop := Forall normal_td (m_types m).

Lemma keys_canon td : keys (td_rels (canon_td td)) = sorted_names td.
Proof. unfold canon_td, keys. cbn [td_rels]. rewrite map_map. cbn [fst]. apply map_id. Qed.

Lemma sorted_names_canon td : NoDup (keys (td_rels td)) -> sorted_names (canon_td td) = sorted_names td.
Proof.
  intros Hnd. unfold sorted_names at 1. rewrite keys_canon. symmetry. unfold sorted_names at 1.
  apply sort_strings_canonical; [exact Hnd|]. apply (stable_sort_perm str_compare).
Qed.

Lemma u_of_canon td n : In n (keys (td_rels td)) -> u_of (canon_td td) n = normalize (u_of td n).
Proof.
  intros Hn. unfold u_of at 1. unfold canon_td. cbn [td_rels].
  rewrite (assoc_map_self (fun n => normalize (u_of td n))); [reflexivity|apply sorted_names_in; exact Hn].
Qed.

Lemma refs_of_canon td n : In n (keys (td_rels td)) -> refs_of (canon_td td) n = rm_types (canon_meta td n).
Proof.
  intros Hn. apply sorted_names_in in Hn. unfold refs_of, td_meta_rels, canon_td. cbn [td_meta].
  destruct (sorted_names td) as [|x l] eqn:E; [destruct Hn|]. cbn [tm_rels]. rewrite <- E in Hn |- *.
  rewrite (assoc_map_self (fun n => canon_meta td n) _ n Hn). reflexivity.
Qed.

Lemma decl_of_canon td n : td_ok td -> normal_td td -> In n (keys (td_rels td)) -> decl_of (canon_td td) n = decl_of td n.
Proof.
  intros (_ & _ & Hrels) Hnorm Hn. destruct (Hrels n Hn) as (_ & Hc & _). unfold decl_of. f_equal.
  rewrite (u_of_canon td n Hn), (Hnorm n Hn), (refs_of_canon td n Hn). unfold canon_meta. cbn [rm_types].
  destruct (count_direct (u_of td n) =? 0)%nat eqn:E; [|reflexivity]. apply Nat.eqb_eq in E. apply rdef_of_no_direct; assumption.
Qed.

Lemma type_of_canon td : td_ok td -> normal_td td -> type_of (canon_td td) = type_of td.
Proof.
  intros Hok Hnorm. pose proof Hok as (_ & Hnd & _). unfold type_of. rewrite (sorted_names_canon td Hnd). cbn [canon_td td_name]. f_equal.
  apply map_ext_in. intros n Hn. apply decl_of_canon; [exact Hok|exact Hnorm|apply sorted_names_in; exact Hn].
Qed.

Lemma file_types_reparsed m : model_ok m -> normal_model m -> file_types (reparsed m) = file_types m.
Proof.
  intros Hm Hn. rewrite (reparsed_is_canonical m Hm). destruct Hm as (_ & _ & _ & Htds). unfold file_types. cbn [m_types]. rewrite map_map.
  apply map_ext_in. intros td Hin. unfold normal_model in Hn. rewrite Forall_forall in Htds, Hn. apply type_of_canon; auto.
Qed.

Lemma td_ok_canon td : td_ok td -> normal_td td -> td_ok (canon_td td).
Proof.
  intros Hok Hnorm. pose proof Hok as (Hname & Hnd & Hrels). split; [exact Hname|]. split.
  - rewrite keys_canon. apply (Permutation_NoDup (stable_sort_perm str_compare (keys (td_rels td)))). exact Hnd.
  - intros n Hn. rewrite keys_canon in Hn. apply sorted_names_in in Hn. destruct (Hrels n Hn) as (H1 & H2 & H3 & H4 & H5 & H6).
    unfold rel_ok. rewrite (u_of_canon td n Hn), (Hnorm n Hn), (refs_of_canon td n Hn). unfold canon_meta. cbn [rm_types].
    repeat split; try assumption.
    + destruct (count_direct (u_of td n) =? 0)%nat eqn:E; [left; apply Nat.eqb_eq; exact E|].
      destruct H5 as [H5|H5]; [rewrite H5 in E; discriminate|right; exact H5].
    + destruct (count_direct (u_of td n) =? 0)%nat; [constructor|exact H6].
Qed.

Lemma model_ok_reparsed m : model_ok m -> normal_model m -> model_ok (reparsed m).
Proof.
  intros Hm Hn. rewrite (reparsed_is_canonical m Hm). destruct Hm as (Hv & _ & _ & Htds). split; [exact Hv|]. split; [reflexivity|]. split.
  - unfold is_modular_model. cbn [m_types]. apply Bool.not_true_is_false. intros E. apply existsb_exists in E. destruct E as [t [Hin E]].
    apply in_map_iff in Hin. destruct Hin as [td [<- _]]. unfold td_module, canon_td in E. cbn [td_meta] in E. destruct (sorted_names td); discriminate E.
  - cbn [m_types]. unfold normal_model in Hn. apply Forall_forall. intros t Hin. apply in_map_iff in Hin. destruct Hin as [td [<- Hin]].
    rewrite Forall_forall in Htds, Hn. apply td_ok_canon; auto.
Qed.

(* THE SECOND ROUND IS STABLE: same bytes, same model *)
Theorem second_round_is_stable m : model_ok m -> normal_model m ->
  fst (print_model false (reparsed m)) = fst (print_model false m) /\ reparsed (reparsed m) = reparsed m.
Proof.
  intros Hm Hn. pose proof (file_types_reparsed m Hm Hn) as Hf.
  assert (Hs : m_schema (reparsed m) = m_schema m) by (rewrite (reparsed_is_canonical m Hm); reflexivity).
  split.
  - rewrite (print_model_text (reparsed m) (model_ok_reparsed m Hm Hn)), (print_model_text m Hm), Hf, Hs. reflexivity.
  - unfold reparsed at 1. rewrite Hf, Hs. reflexivity.
Qed.

(* every model the DSL parser returns has its rewrites in normal form *)
Lemma assoc_normal rs n : Forall (fun r => wf_rdef (rl_def r) = true) rs ->
  match assoc n (map (fun r => (ttext (rl_name r), sem_rdef (rl_def r))) rs) with Some u => normalize u = u | None => True end.
Proof.
  induction 1 as [|r rs Hr _ IH]; [exact I|]. cbn [map assoc]. destruct (str_eqb n (ttext (rl_name r))); [apply parsed_is_normal; exact Hr|exact IH].
Qed.

Lemma sem_file_normal f : wf_file f -> normal_model (sem_file f).
Proof.
  intros Hwf. unfold normal_model, sem_file. cbn [m_types]. apply Forall_forall. intros td Hin. apply in_map_iff in Hin. destruct Hin as [t [<- Ht]].
  unfold wf_file in Hwf. rewrite Forall_forall in Hwf. specialize (Hwf t Ht). intros n _. unfold u_of, sem_type. cbn [td_rels].
  pose proof (assoc_normal (ty_rels t) n Hwf) as H. destruct (assoc n (map (fun r => (ttext (rl_name r), sem_rdef (rl_def r))) (ty_rels t))); [exact H|reflexivity].
Qed.

(* C01, all three clauses, for an accepted document whose model is covered: the model renders; the rendering reads back as the
   model in canonical form; rendering and reading once more changes neither the bytes nor the model *)
Theorem accepted_document_three_rounds d m exts md :
  dsl_to_model d = DOk m exts md -> model_ok m ->
  exists t1 exts1 md1,
    fst (print_model false m) = Ok t1 /\ dsl_to_model t1 = DOk (reparsed m) exts1 md1 /\
    fst (print_model false (reparsed m)) = Ok t1 /\ reparsed (reparsed m) = reparsed m.
Proof.
  intros Hd Hm. destruct (accepted_text d m exts md Hd) as (f & _ & Hwf & _ & Hsem & _).
  assert (Hn : normal_model m) by (rewrite Hsem; apply sem_file_normal; exact Hwf).
  destruct (printed_model_reads_back m Hm) as (t1 & exts1 & md1 & Hp & Hr). destruct (second_round_is_stable m Hm Hn) as [S1 S2].
  exists t1, exts1, md1. split; [exact Hp|]. split; [exact Hr|]. split; [rewrite S1; exact Hp|exact S2].
Qed.
Print Assumptions accepted_document_three_rounds.

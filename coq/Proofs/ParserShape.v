(* Proofs/ParserShape.v — every tree the parser model returns is grammatical in the sense of Spec/Sem.v:
   one operator kind per parenthesis level, at most one operand after `but not`, a direct assignment
   only in leading position (C03_parser_sound / C09_shape). *)
From Verif Require Import Base.Str Base.Outcome Model.Ast Model.Token Model.Parser Spec.Sem.

Definition wf_result (direct : bool) (d : def_result) : Prop :=
  let '(fi, op, rest) := d in
  (if direct then wf_leading fi else wf_operand fi) = true /\ partials_ok op rest = true /\ forallb wf_operand rest = true.

Definition rec_ok (rec : bool -> list tok -> P def_result) : Prop :=
  forall direct ts d ts', rec direct ts = Some (d, ts') -> wf_result direct d.

Lemma p_rewrite_shape ts e ts' : p_rewrite ts = Some (e, ts') -> exists cu tsx, e = ERewrite cu tsx.
Proof.
  unfold p_rewrite. destruct (expect_p is_ext_identifier_tk ts) as [[cu r]|]; [|discriminate].
  destruct (is_tk WHITESPACE r && is_tk2 FROM r).
  - destruct (expect WHITESPACE (tl (tl r))) as [[w r1]|]; [|discriminate].
    destruct (expect_p is_ext_identifier_tk r1) as [[t r2]|]; [|discriminate].
    intros H; inversion H; subst. eauto.
  - intros H; inversion H; subst. eauto.
Qed.

Lemma p_operand_wf rec ts e ts' : rec_ok rec -> p_operand_with rec ts = Some (e, ts') -> wf_operand e = true.
Proof.
  intros Hrec. unfold p_operand_with. destruct (is_tk LPAREN ts).
  - destruct (rec false (skip_opt WHITESPACE (tl ts))) as [[[[fi op] rest] r]|] eqn:E; [|discriminate].
    destruct (expect RPAREN (skip_opt WHITESPACE r)) as [[rp r1]|]; [|discriminate].
    intros H; inversion H; subst. destruct (Hrec _ _ _ _ E) as [H1 [H2 H3]]. simpl. rewrite H1, H2, H3. reflexivity.
  - intros H. destruct (p_rewrite_shape _ _ _ H) as [cu [tsx ->]]. reflexivity.
Qed.

Lemma p_partials_wf rec n op : rec_ok rec -> op <> ONone ->
  forall ts es ts', p_partials_with rec n op ts = Some (es, ts') ->
  forallb wf_operand es = true /\ (match op with OButNot => (length es <= 1)%nat | _ => True end).
Proof.
  intros Hrec Hop. induction n as [|n IH]; intros ts es ts' H; [discriminate|].
  cbn [p_partials_with] in H. destruct (opk_eqb (peek_op ts) op).
  - destruct (expect WHITESPACE (tl (tl ts))) as [[w r]|]; [|discriminate].
    destruct (p_operand_with rec r) as [[e r1]|] eqn:Ee; [|discriminate].
    pose proof (p_operand_wf _ _ _ _ Hrec Ee) as He.
    destruct op; try contradiction.
    + destruct (p_partials_with rec n OOr r1) as [[es1 r2]|] eqn:E1; [|discriminate].
      inversion H; subst. destruct (IH _ _ _ E1) as [Hes _]. simpl. rewrite He, Hes. auto.
    + destruct (p_partials_with rec n OAnd r1) as [[es1 r2]|] eqn:E1; [|discriminate].
      inversion H; subst. destruct (IH _ _ _ E1) as [Hes _]. simpl. rewrite He, Hes. auto.
    + inversion H; subst. simpl. rewrite He. auto.
  - inversion H; subst. simpl. split; auto. destruct op; auto.
Qed.

(* the first operand announced by peek_op makes the list non-empty *)
Lemma p_partials_nonempty rec op ts es ts' :
  peek_op ts = op -> op <> ONone -> p_partials_with rec (S (length ts)) op ts = Some (es, ts') -> es <> [].
Proof.
  intros Hp Hop H. cbn [p_partials_with] in H. rewrite Hp in H.
  assert (Heq : opk_eqb op op = true) by (destruct op; reflexivity). rewrite Heq in H.
  destruct (expect WHITESPACE (tl (tl ts))) as [[w r]|]; [|discriminate].
  destruct (p_operand_with rec r) as [[e r1]|]; [|discriminate].
  destruct op; try contradiction.
  - destruct (p_partials_with rec (length ts) OOr r1) as [[es1 r2]|]; [|discriminate]. inversion H; discriminate.
  - destruct (p_partials_with rec (length ts) OAnd r1) as [[es1 r2]|]; [|discriminate]. inversion H; discriminate.
  - inversion H; discriminate.
Qed.

Lemma p_def_body_wf rec direct ts d ts' : rec_ok rec -> p_def_body rec direct ts = Some (d, ts') -> wf_result direct d.
Proof.
  intros Hrec. unfold p_def_body.
  set (first := if is_tk LBRACKET ts then _ else _).
  destruct first as [[fi r]|] eqn:Ef; [|discriminate].
  assert (Hfi : (if direct then wf_leading fi else wf_operand fi) = true).
  { unfold first in Ef. destruct (is_tk LBRACKET ts).
    - destruct direct; [|discriminate]. destruct (p_direct ts) as [[rs r0]|]; [|discriminate]. inversion Ef; subst. reflexivity.
    - destruct (is_tk LPAREN ts).
      + destruct direct.
        * destruct (rec true (skip_opt WHITESPACE (tl ts))) as [[[[fi0 op0] rest0] r0]|] eqn:E; [|discriminate].
          destruct (expect RPAREN (skip_opt WHITESPACE r0)) as [[rp r1]|]; [|discriminate].
          inversion Ef; subst. destruct (Hrec _ _ _ _ E) as [H1 [H2 H3]]. simpl. rewrite H1, H2, H3. reflexivity.
        * eapply p_operand_wf; eauto.
      + destruct (p_rewrite_shape _ _ _ Ef) as [cu [tsx ->]]. destruct direct; reflexivity. }
  destruct (peek_op r) eqn:Ep.
  - intros H; inversion H; subst. repeat split; auto.
  - destruct (p_partials_with rec (S (length r)) OOr r) as [[es r1]|] eqn:E; [|discriminate].
    intros H; inversion H; subst. destruct (p_partials_wf rec _ OOr Hrec ltac:(discriminate) _ _ _ E) as [Hes _].
    pose proof (p_partials_nonempty rec OOr r es _ Ep ltac:(discriminate) E) as Hne.
    repeat split; auto. destruct es; [contradiction|reflexivity].
  - destruct (p_partials_with rec (S (length r)) OAnd r) as [[es r1]|] eqn:E; [|discriminate].
    intros H; inversion H; subst. destruct (p_partials_wf rec _ OAnd Hrec ltac:(discriminate) _ _ _ E) as [Hes _].
    pose proof (p_partials_nonempty rec OAnd r es _ Ep ltac:(discriminate) E) as Hne.
    repeat split; auto. destruct es; [contradiction|reflexivity].
  - destruct (p_partials_with rec (S (length r)) OButNot r) as [[es r1]|] eqn:E; [|discriminate].
    intros H; inversion H; subst. destruct (p_partials_wf rec _ OButNot Hrec ltac:(discriminate) _ _ _ E) as [Hes Hlen].
    pose proof (p_partials_nonempty rec OButNot r es _ Ep ltac:(discriminate) E) as Hne.
    repeat split; auto. destruct es as [|e [|e' es]]; [contradiction|reflexivity|simpl in Hlen; lia].
Qed.

Theorem p_def_wf fuel : rec_ok (p_def fuel).
Proof.
  induction fuel as [|f IH]; intros direct ts d ts' H; [discriminate|].
  cbn [p_def] in H. eapply p_def_body_wf; eauto.
Qed.

(* ---- up to the whole document ---- *)
Lemma p_reldecl_wf ts r ts' : p_reldecl ts = Some (r, ts') -> wf_rdef (rl_def r) = true.
Proof.
  unfold p_reldecl. destruct (option_map _ (lead_in ts)) as [[a b]|]; [|discriminate]. cbn [fst].
  destruct (expect DEFINE a) as [[t0 r0]|]; [|discriminate].
  destruct (expect WHITESPACE r0) as [[t1 r1]|]; [|discriminate].
  destruct (expect_p is_ext_identifier_tk r1) as [[nm r2]|]; [|discriminate].
  destruct (expect COLON (skip_opt WHITESPACE r2)) as [[t3 r3]|]; [|discriminate].
  destruct (p_def (S (length r3)) true (skip_opt WHITESPACE r3)) as [[[[fi op] rest] r4]|] eqn:E; [|discriminate].
  intros H; inversion H; subst. destruct (p_def_wf _ _ _ _ _ E) as [H1 [H2 H3]].
  unfold wf_rdef; simpl. rewrite H1, H2, H3. reflexivity.
Qed.

Lemma p_reldecls_wf fuel : forall ts rs ts', p_reldecls fuel ts = Some (rs, ts') -> Forall (fun r => wf_rdef (rl_def r) = true) rs.
Proof.
  induction fuel as [|f IH]; intros ts rs ts' H; [discriminate|].
  cbn [p_reldecls] in H. destruct (starts_with [DEFINE] ts).
  - destruct (p_reldecl ts) as [[r r0]|] eqn:E; [|discriminate].
    destruct (p_reldecls f r0) as [[rs0 r1]|] eqn:E1; [|discriminate].
    inversion H; subst. constructor; [eapply p_reldecl_wf; eauto|eapply IH; eauto].
  - inversion H; subst. constructor.
Qed.

Lemma p_typedef_wf ts t ts' : p_typedef ts = Some (t, ts') -> Forall (fun r => wf_rdef (rl_def r) = true) (ty_rels t).
Proof.
  unfold p_typedef. destruct (option_map _ (lead_in ts)) as [[a b]|]; [|discriminate]. cbn [fst].
  destruct (if is_tk EXTEND a then _ else _) as [[ext r0]|]; [|discriminate].
  destruct (expect TYPE r0) as [[t0 r1]|]; [|discriminate].
  destruct (expect WHITESPACE r1) as [[t1 r2]|]; [|discriminate].
  destruct (expect_p is_ext_identifier_tk r2) as [[nm r3]|]; [|discriminate].
  destruct (is_tk NEWLINE r3 && is_tk2 RELATIONS r3).
  - destruct (p_reldecl (tl (tl r3))) as [[r r4]|] eqn:E; [|discriminate].
    destruct (p_reldecls (S (length r4)) r4) as [[rs r5]|] eqn:E1; [|discriminate].
    intros H; inversion H; subst. simpl. constructor; [eapply p_reldecl_wf; eauto|eapply p_reldecls_wf; eauto].
  - intros H; inversion H; subst. constructor.
Qed.

Lemma p_typedefs_wf fuel : forall ts tds ts', p_typedefs fuel ts = Some (tds, ts') ->
  Forall (fun t => Forall (fun r => wf_rdef (rl_def r) = true) (ty_rels t)) tds.
Proof.
  induction fuel as [|f IH]; intros ts tds ts' H; [discriminate|].
  cbn [p_typedefs] in H. destruct (starts_with [EXTEND; TYPE] ts).
  - destruct (p_typedef ts) as [[t r0]|] eqn:E; [|discriminate].
    destruct (p_typedefs f r0) as [[tds0 r1]|] eqn:E1; [|discriminate].
    inversion H; subst. constructor; [eapply p_typedef_wf; eauto|eapply IH; eauto].
  - inversion H; subst. constructor.
Qed.

(* C03_parser_sound (shape part): whatever token stream the parser accepts, its tree is grammatical *)
Theorem parse_wf ts f : parse ts = Some f -> wf_file f.
Proof.
  unfold parse. destruct (p_header _) as [[h r0]|]; [|discriminate].
  destruct (p_typedefs (S (length r0)) (skip_dup_newline r0)) as [[tds r1]|] eqn:E; [|discriminate].
  destruct (p_conditions (S (length r1)) (skip_dup_newline r1)) as [[cs r2]|]; [|discriminate].
  destruct (skip_opt NEWLINE r2); [|discriminate].
  intros H; inversion H; subst. unfold wf_file; simpl. eapply p_typedefs_wf; eauto.
Qed.

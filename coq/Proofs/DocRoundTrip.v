(* Proofs/DocRoundTrip.v — C01/C02 AT DOCUMENT LEVEL, characters included: for every condition-free, non-modular model whose
   names are plain identifiers and whose rewrites the DSL can express, the printer model writes a text that the pre-pass,
   the lexer model, the parser model and the listener model turn back into the model in canonical form (relations in name
   order, rewrites normalised, restrictions kept exactly where a direct assignment is). *)
From Coq Require Import Lia Permutation.
From Verif Require Import Spec.DocDomain Base.Str Base.Outcome Model.Ast Model.Token Model.Lexer Model.Parser Model.Listener Model.Printer Model.Transform
  Spec.Sem Spec.Expressible Spec.Normalize Proofs.PrinterExpressible Proofs.Lossless Proofs.SortFacts Proofs.ParserComplete Proofs.LexRender Proofs.RoundTripChars Proofs.DocLex Proofs.DocParse
  Proofs.DocChars Proofs.DocSem Proofs.DocPrepass Proofs.DocPrint.

Definition reparsed (m : model) : model := sem_file (doc_file (m_schema m) (file_types m)).

Theorem canonical_document_accepted v ts :
  std_version v = true -> Forall type_lex_ok ts -> Forall type_ok ts -> distinct_decls (doc_file v ts) ->
  exists exts md, dsl_to_model (text_of (ctoks_doc v ts) ++ [10]) = DOk (sem_file (doc_file v ts)) exts md.
Proof.
  intros Hv Hlex Hok Hd. destruct (canonical_document_denotes v ts Hv Hlex Hok Hd) as [Herr (exts & md & Hp)].
  exists exts, md. unfold dsl_to_model. rewrite (canonical_document_prepass v ts Hv Hlex).
  destruct (lex (text_of (ctoks_doc v ts))) as [L es]. cbn [fst snd] in Herr, Hp. subst es. exact Hp.
Qed.

(* EVERY LAYOUT: a text that the pre-pass turns into the canonical tokens with other runs of blanks and tabs and other
   line breaks (so: any indentation, blank lines, and whatever the pre-pass removes — comment lines, trailing comments,
   trailing blanks) is accepted and gives exactly the model that was written *)
Theorem every_layout_accepted v ts L d :
  std_version v = true -> Forall type_lex_ok ts -> Forall type_ok ts -> distinct_decls (doc_file v ts) ->
  Forall2 relay (kts (ctoks_doc v ts)) L -> prepass d = concat (map snd L) ->
  exists exts md, dsl_to_model d = DOk (sem_file (doc_file v ts)) exts md.
Proof.
  intros Hv Hlex Hok Hd HL Hpre. destruct (every_layout_denotes v ts L Hv Hlex Hok Hd HL) as [Herr (exts & md & Hp)].
  exists exts, md. unfold dsl_to_model. rewrite Hpre.
  destruct (lex (concat (map snd L))) as [Lx es]. cbn [fst snd] in Herr, Hp. subst es. exact Hp.
Qed.

Theorem printed_model_reads_back m : model_ok m ->
  exists t exts md, fst (print_model false m) = Ok t /\ dsl_to_model t = DOk (reparsed m) exts md.
Proof.
  intros Hm. pose proof Hm as (Hv & _ & _ & Htds). destruct (file_types_ok m Htds) as [Hlex Hok].
  destruct (canonical_document_accepted (m_schema m) (file_types m) Hv Hlex Hok (file_types_distinct m Htds)) as (exts & md & H).
  exists (text_of (ctoks_doc (m_schema m) (file_types m)) ++ [10]), exts, md. split; [apply print_model_text; exact Hm|exact H].
Qed.

(* ---- what comes back ---- *)
Lemma sem_type_of td : td_ok td -> sem_type false [] (type_of td) = canon_td td.
Proof.
  intros (_ & _ & Hrels). unfold sem_type, type_of, canon_td. cbn [ty_name ty_rels ty_extend name_tok ttext]. rewrite !map_map.
  assert (H : forall n, In n (sorted_names td) ->
            sem_rdef (rl_def (decl_of td n)) = normalize (u_of td n) /\ sem_relmeta false false [] (decl_of td n) = canon_meta td n).
  { intros n Hn. apply sorted_names_in in Hn. destruct (Hrels n Hn) as (_ & Hc & He & _ & _ & Hpr).
    destruct (printed_relation_denotes_normal_form (refs_of td n) (u_of td n) Hc He (plain_refs_ok _ Hpr)) as (t0 & _ & _ & _ & Hs & Hr).
    cbn [decl_of rl_def]. split; [exact Hs|]. unfold sem_relmeta, canon_meta. cbn [decl_of rl_def andb]. rewrite Hr.
    destruct (count_direct (u_of td n) =? 0)%nat; reflexivity. }
  assert (E1 : map (fun x => (ttext (rl_name (decl_of td x)), sem_rdef (rl_def (decl_of td x)))) (sorted_names td)
               = map (fun n => (n, normalize (u_of td n))) (sorted_names td)).
  { apply map_ext_in. intros n Hn. destruct (H n Hn) as [A _]. rewrite A. reflexivity. }
  assert (E2 : map (fun x => (ttext (rl_name (decl_of td x)), sem_relmeta false false [] (decl_of td x))) (sorted_names td)
               = map (fun n => (n, canon_meta td n)) (sorted_names td)).
  { apply map_ext_in. intros n Hn. destruct (H n Hn) as [_ B]. rewrite B. reflexivity. }
  rewrite E1, E2. destruct (sorted_names td); reflexivity.
Qed.

Theorem reparsed_is_canonical m : model_ok m ->
  reparsed m = {| m_schema := m_schema m; m_types := map canon_td (m_types m); m_conds := [] |}.
Proof.
  intros (_ & _ & _ & Htds). unfold reparsed, sem_file. cbn [doc_file f_header f_types f_conds header_modular header_module header_schema vtok ttext map].
  f_equal. unfold file_types. rewrite map_map. apply map_ext_in. intros td Hin. rewrite Forall_forall in Htds. apply sem_type_of. apply Htds. exact Hin.
Qed.

(* every layout of the document the printer writes for a covered model gives the model in canonical form *)
Theorem every_layout_of_a_printed_model m L d : model_ok m ->
  Forall2 relay (kts (ctoks_doc (m_schema m) (file_types m))) L -> prepass d = concat (map snd L) ->
  exists exts md, dsl_to_model d = DOk {| m_schema := m_schema m; m_types := map canon_td (m_types m); m_conds := [] |} exts md.
Proof.
  intros Hm HL Hpre. pose proof Hm as (Hv & _ & _ & Htds). destruct (file_types_ok m Htds) as [Hlex Hok].
  rewrite <- (reparsed_is_canonical m Hm).
  exact (every_layout_accepted _ _ L d Hv Hlex Hok (file_types_distinct m Htds) HL Hpre).
Qed.
Print Assumptions every_layout_of_a_printed_model.

(* C02 at document level: the DSL written for a covered model reads back as the model in canonical form *)
Corollary document_round_trip m : model_ok m ->
  exists t exts md, fst (print_model false m) = Ok t /\
    dsl_to_model t = DOk {| m_schema := m_schema m; m_types := map canon_td (m_types m); m_conds := [] |} exts md.
Proof. intros Hm. destruct (printed_model_reads_back m Hm) as (t & exts & md & A & B). exists t, exts, md. rewrite <- (reparsed_is_canonical m Hm). tauto. Qed.
Print Assumptions document_round_trip.

(* non-vacuity: a model with three types, a userset restriction, a union with a hoisted direct assignment *)
Definition ex_user_ref : relation_ref := {| rr_type := lit "user"; rr_kind := RPlain; rr_cond := [] |}.
Definition ex_member_ref : relation_ref := {| rr_type := lit "group"; rr_kind := RRel (lit "member"); rr_cond := [] |}.
Definition ex_model : model :=
  {| m_schema := lit "1.1";
     m_types :=
       [ {| td_name := lit "user"; td_rels := []; td_meta := None |};
         {| td_name := lit "group"; td_rels := [(lit "member", UThis ThisEmpty)];
            td_meta := Some {| tm_rels := [(lit "member", {| rm_types := [ex_user_ref]; rm_module := []; rm_file := None |})]; tm_module := []; tm_file := None |} |};
         {| td_name := lit "doc";
            td_rels := [(lit "viewer", UUnion [UComputed (lit "editor"); UThis ThisEmpty]); (lit "editor", UThis ThisEmpty)];
            td_meta := Some {| tm_rels := [(lit "viewer", {| rm_types := [ex_user_ref; ex_member_ref]; rm_module := []; rm_file := None |});
                                         (lit "editor", {| rm_types := [ex_user_ref]; rm_module := []; rm_file := None |})];
                               tm_module := []; tm_file := None |} |} ];
     m_conds := [] |}.

Example ex_model_ok : model_ok ex_model.
Proof.
  split; [reflexivity|]. split; [reflexivity|]. split; [reflexivity|].
  repeat apply Forall_cons; try apply Forall_nil.
  - split; [reflexivity|]. split; [constructor|intros n []].
  - split; [reflexivity|]. split; [repeat constructor; intros []|]. intros n [<-|[]].
    split; [reflexivity|]. split; [reflexivity|]. split; [reflexivity|]. split; [exact I|]. split; [right; discriminate|].
    repeat constructor; try (vm_compute; reflexivity); try discriminate; exact I.
  - split; [reflexivity|]. split; [repeat constructor; cbn; intuition discriminate|]. intros n [<-|[<-|[]]].
    + split; [reflexivity|]. split; [reflexivity|]. split; [reflexivity|]. split; [cbn; repeat split; vm_compute; reflexivity|]. split; [right; discriminate|].
      repeat constructor; try (vm_compute; reflexivity); try discriminate; exact I.
    + split; [reflexivity|]. split; [reflexivity|]. split; [reflexivity|]. split; [exact I|]. split; [right; discriminate|].
      repeat constructor; try (vm_compute; reflexivity); try discriminate; exact I.
Qed.

Example ex_model_text :
  fst (print_model false ex_model) =
    Ok (lit "model" ++ [10] ++ lit "  schema 1.1" ++ [10] ++ [10] ++ lit "type user" ++ [10] ++ [10] ++ lit "type group" ++ [10] ++ lit "  relations" ++ [10]
        ++ lit "    define member: [user]" ++ [10] ++ [10] ++ lit "type doc" ++ [10] ++ lit "  relations" ++ [10] ++ lit "    define editor: [user]" ++ [10]
        ++ lit "    define viewer: [user, group#member] or editor" ++ [10]).
Proof. vm_compute. reflexivity. Qed.

(* the canonical form holds the same relations as the model, as a map: same keys (in name order), each rewrite normalised *)
Lemma assoc_map_self {A} (f : str -> A) l n : In n l -> assoc n (map (fun x => (x, f x)) l) = Some (f n).
Proof.
  induction l as [|x l IH]; [intros []|]. intros Hin. cbn [map assoc]. destruct (str_eqb n x) eqn:E.
  - apply str_eqb_eq in E. subst x. reflexivity.
  - destruct Hin as [->|Hin]; [rewrite str_eqb_refl in E; discriminate|apply IH; exact Hin].
Qed.

Theorem canon_td_is_the_same_map td :
  Permutation (keys (td_rels (canon_td td))) (keys (td_rels td)) /\
  forall n, In n (keys (td_rels td)) -> assoc n (td_rels (canon_td td)) = Some (normalize (u_of td n)).
Proof.
  unfold canon_td. cbn [td_rels]. split.
  - unfold keys. rewrite map_map. cbn [fst]. rewrite map_id. apply Permutation_sym. apply (stable_sort_perm str_compare).
  - intros n Hn. apply (assoc_map_self (fun n => normalize (u_of td n))). apply sorted_names_in. exact Hn.
Qed.

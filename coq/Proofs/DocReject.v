(* Proofs/DocReject.v — C09 at character level: the text of a canonical document that declares something twice (the same
   relation twice in a type, or the same type extended... : whatever makes [distinct_decls] fail) is NOT accepted — the
   pre-pass, the lexer model, the parser model and the listener model, run on its characters, return no model. *)
From Coq Require Import Lia.
From Verif Require Import Spec.DocDomain Base.Str Base.Outcome Model.Ast Model.Token Model.Lexer Model.Parser Model.Listener Model.Transform
  Spec.Sem Proofs.ListenerFile Proofs.ParserComplete Proofs.LexRender Proofs.DocLex Proofs.DocParse Proofs.DocNatural Proofs.DocChars
  Proofs.DocSem Proofs.DocPrepass.

(* the declared names of a tree that forget2 maps to a canonical tree are the canonical tree's: [distinct_decls] transfers both ways *)
Lemma doc_distinct_back f' v ts : file_map forget2 f' = doc_file v ts -> Forall type_lex_ok ts ->
  distinct_decls f' -> distinct_decls (doc_file v ts).
Proof.
  intros E Hts.
  pose proof (f_equal f_header E) as Eh. pose proof (f_equal f_types E) as Et. pose proof (f_equal f_conds E) as Ec.
  cbn [file_map doc_file f_header f_types f_conds] in Eh, Et, Ec.
  assert (Hc : f_conds f' = []) by (destruct (f_conds f'); [reflexivity|discriminate Ec]).
  destruct (f_header f') as [v'|n'] eqn:Eh'; cbn [header_map] in Eh; [|discriminate Eh].
  assert (H2 : Forall2 (fun t' t => ty_extend t' = ty_extend t /\ ttext (ty_name t') = ttext (ty_name t) /\
                                    map (fun r => ttext (rl_name r)) (ty_rels t') = map (fun r => ttext (rl_name r)) (ty_rels t)) (f_types f') ts).
  { clear Eh' E Ec Hc. revert ts Et Hts. induction (f_types f') as [|t' l IH]; intros ts Et Hts; cbn [map] in Et; subst ts; [constructor|].
    inversion Hts as [|? ? Ht Hts']; subst. destruct (type_sem t' _ eq_refl Ht) as (A & B & C & _). constructor; [repeat split; assumption|apply IH; [reflexivity|exact Hts']]. }
  unfold distinct_decls. rewrite Eh', Hc. cbn [doc_file f_header f_types f_conds header_modular map].
  intros (D1 & _ & _ & D4 & D5 & D6). split; [|split; [constructor|split; [constructor|split; [|split]]]].
  - clear -H2 D1. induction H2 as [|t' t l' l (_ & _ & C) _ IH]; [constructor|]. inversion D1; subst. constructor; [rewrite <- C; assumption|apply IH; assumption].
  - intros _. specialize (D4 eq_refl). clear -H2 D4. induction H2 as [|t' t l' l (A & _) _ IH]; [constructor|]. inversion D4; subst. constructor; [rewrite <- A; assumption|apply IH; assumption].
  - assert (Hf : map (fun t => ttext (ty_name t)) (filter ty_extend (f_types f')) = map (fun t => ttext (ty_name t)) (filter ty_extend ts)).
    { clear -H2. induction H2 as [|t' t l' l (A & B & _) _ IH]; [reflexivity|]. cbn [filter]. rewrite A. destruct (ty_extend t); [cbn [map]; rewrite B, IH; reflexivity|exact IH]. }
    rewrite <- Hf. exact D5.
  - clear -H2 D6. induction H2 as [|t' t l' l (_ & B & _) _ IH]; [constructor|]. inversion D6; subst. constructor; [rewrite <- B; assumption|apply IH; assumption].
Qed.

(* in EVERY LAYOUT with the same tokens (Proofs/LexFit.relay), and for every text the pre-pass turns into one *)
Theorem every_layout_with_a_duplicate_is_rejected v ts L d :
  std_version v = true -> Forall type_lex_ok ts -> Forall type_ok ts -> ~ distinct_decls (doc_file v ts) ->
  Forall2 relay (kts (ctoks_doc v ts)) L -> prepass d = concat (map snd L) ->
  forall m exts md, dsl_to_model d <> DOk m exts md.
Proof.
  intros Hv Hlex Hok Hnd HL Hpre m exts md H. apply Hnd.
  destruct (every_layout_reads_back v ts L Hv Hlex Hok HL) as (Herr & _ & f' & Hp & Hf).
  unfold dsl_to_model in H. rewrite Hpre in H.
  destruct (lex (concat (map snd L))) as [Lx es]. cbn [fst snd] in Herr, Hp. subst es.
  unfold parse_walk in H. rewrite Hp in H.
  destruct (doc_sem f' v ts Hf Hlex) as (_ & Hwf & _).
  destruct (walk f') as [st| |] eqn:Ew; try discriminate H.
  destruct (ls_errs st) eqn:Ee; [|discriminate H].
  apply (doc_distinct_back f' v ts Hf Hlex).
  apply (walk_accepts_only_distinct f' st); [exact (Hwf (type_ok_wf ts Hok v))| |exact Ew|exact Ee].
  (* type names of f' are non-empty: they are the plain names of ts *)
  pose proof (f_equal f_types Hf) as Et. cbn [file_map doc_file f_types] in Et.
  clear -Et Hlex. revert ts Et Hlex. induction (f_types f') as [|t' l IH]; intros ts Et Hts; cbn [map] in Et; subst ts; [constructor|].
  inversion Hts as [|? ? Ht Hts']; subst. constructor; [|apply (IH _ eq_refl Hts')].
  destruct (type_sem t' _ eq_refl Ht) as (_ & B & _). unfold tname. rewrite B. destruct Ht as [[_ Hn] _]. intros E.
  rewrite E in Hn. discriminate Hn.
Qed.
Print Assumptions every_layout_with_a_duplicate_is_rejected.

(* the canonical layout is one of them *)
Theorem canonical_document_with_a_duplicate_is_rejected v ts :
  std_version v = true -> Forall type_lex_ok ts -> Forall type_ok ts -> ~ distinct_decls (doc_file v ts) ->
  forall m exts md, dsl_to_model (text_of (ctoks_doc v ts) ++ [10]) <> DOk m exts md.
Proof.
  intros Hv Hlex Hok Hnd.
  apply (every_layout_with_a_duplicate_is_rejected v ts (kts (ctoks_doc v ts))); try assumption.
  - exact (fits_relay_refl _ _ (recs_doc v ts Hv Hlex)).
  - exact (canonical_document_prepass v ts Hv Hlex).
Qed.
Print Assumptions canonical_document_with_a_duplicate_is_rejected.

(* Proofs/DocPrepass.v — the canonical text of a document, line by line; the pre-pass of ParseDSL applied to the text
   followed by the closing line feed the printer writes gives the text back. *)
From Coq Require Import Lia.
From Verif Require Import Base.Str Base.Outcome Model.Ast Model.Token Gen.Keywords Model.Lexer Model.Parser Spec.Sem Spec.Normalize
  Proofs.ListenerSem Proofs.ParserComplete Proofs.LexInversion Proofs.LexRender Proofs.RoundTripChars Proofs.DeclRoundTrip Proofs.DocLex
  Proofs.DocChars Proofs.PrepassTidy Proofs.DocTidy.

Definition decl_line_of (r : reldecl) : str := decl_text (ttext (rl_name r)) (rl_def r).
Definition type_lines (t : typedecl) : list str :=
  [] :: (lit "type " ++ ttext (ty_name t)) :: match ty_rels t with [] => [] | rs => lit "  relations" :: map decl_line_of rs end.
Definition doc_lines (v : str) (ts : list typedecl) : list str :=
  lit "model" :: (lit "  schema " ++ v) :: flat_map type_lines ts.

Definition nlines (l : list str) : str := concat (map (fun y => [10] ++ y) l).
Lemma nlines_app a b : nlines (a ++ b) = nlines a ++ nlines b.
Proof. unfold nlines. rewrite map_app, concat_app. reflexivity. Qed.

Lemma text_decl r : decl_lex_ok r -> text_of (toks_decl (nlt nl_decl) (rl_name r) (rl_def r)) = [10] ++ decl_line_of r.
Proof.
  intros [Hn Hd]. unfold toks_decl, decl_line_of, decl_text.
  rewrite !text_of_cons, (rdef_text _ Hd). destruct (kt_name _ Hn) as [En _]. rewrite En, !kt_of_mk. cbn [snd kt_of nlt tk ttext nl_decl std_text].
  cbn. rewrite <- ?app_assoc. reflexivity.
Qed.

Lemma text_rels rs : Forall decl_lex_ok rs -> text_of (ctoks_rels rs) = nlines (map decl_line_of rs).
Proof.
  induction 1 as [|r rs Hr _ IH]; [reflexivity|]. cbn [ctoks_rels map]. rewrite text_of_app, (text_decl r Hr), IH. reflexivity.
Qed.

Lemma text_type t : type_lex_ok t -> text_of (ctoks_type t) = nlines (type_lines t).
Proof.
  intros [Hn Hrs]. unfold ctoks_type, type_lines. rewrite !text_of_cons. destruct (kt_name _ Hn) as [En _]. rewrite En, !kt_of_mk.
  cbn [snd kt_of nlt tk ttext nl_type std_text].
  destruct (ty_rels t) as [|r rs] eqn:E.
  - cbn. rewrite !app_nil_r. reflexivity.
  - rewrite !text_of_cons, (text_rels _ Hrs), kt_of_mk. cbn [snd kt_of nlt tk ttext nl_rels std_text].
    unfold nlines at 2. cbn [map concat]. fold (nlines (map decl_line_of (r :: rs))). cbn. rewrite <- ?app_assoc. reflexivity.
Qed.

Lemma text_types ts : Forall type_lex_ok ts -> text_of (ctoks_types ts) = nlines (flat_map type_lines ts).
Proof.
  induction 1 as [|t ts Ht _ IH]; [reflexivity|]. cbn [ctoks_types flat_map]. rewrite text_of_app, nlines_app, (text_type t Ht), IH. reflexivity.
Qed.

Theorem doc_text_lines v ts : std_version v = true -> Forall type_lex_ok ts -> text_of (ctoks_doc v ts) = join [10] (doc_lines v ts).
Proof.
  intros Hv Hts. unfold doc_lines. rewrite join_cons. fold (nlines ((lit "  schema " ++ v) :: flat_map type_lines ts)).
  unfold ctoks_doc. rewrite !text_of_cons, (text_types ts Hts), !kt_of_mk.
  assert (Ev : kt_of (vtok v) = (SCHEMA_VERSION, v)) by (unfold kt_of, vtok; cbn [tk ttext]; destruct v; [discriminate Hv|reflexivity]).
  rewrite Ev. cbn [snd kt_of nlt tk ttext nl_rels std_text]. unfold nlines at 2. cbn [map concat]. fold (nlines (flat_map type_lines ts)).
  cbn. rewrite <- ?app_assoc. reflexivity.
Qed.

(* ---- every line is tidy ---- *)
Lemma tidy_empty : tidy_line [].
Proof. split; [reflexivity|intros []]. Qed.

Lemma type_lines_tidy t : type_lex_ok t -> Forall tidy_line (type_lines t).
Proof.
  intros [[_ Hn] Hrs]. unfold type_lines. constructor; [exact tidy_empty|]. constructor; [apply type_line_tidy; exact Hn|].
  destruct (ty_rels t) as [|r rs]; [constructor|]. constructor; [split; [reflexivity|cbn; intuition discriminate]|].
  apply Forall_forall. intros x Hx. apply in_map_iff in Hx. destruct Hx as [r0 [<- Hr0]]. rewrite Forall_forall in Hrs. destruct (Hrs r0 Hr0) as [[_ Hrn] Hd].
  apply decl_tidy; assumption.
Qed.

Lemma schema_line_tidy v : std_version v = true -> tidy_line (lit "  schema " ++ v) /\ (lit "  schema " ++ v) <> [].
Proof.
  intros Hv. unfold std_version in Hv. apply orb_prop in Hv. destruct Hv as [Hv|Hv]; [apply orb_prop in Hv; destruct Hv as [Hv|Hv]|];
    apply str_eqb_eq in Hv; subst v; (split; [split; [reflexivity|cbn; intuition discriminate]|discriminate]).
Qed.

Lemma type_lines_last t : type_lex_ok t -> last (type_lines t) [] <> [].
Proof.
  intros [[_ Hn] Hrs]. unfold type_lines. destruct (ty_rels t) as [|r rs]; [cbn; destruct (ttext (ty_name t)); discriminate|].
  assert (H : forall l : list reldecl, l <> [] -> last ([] :: (lit "type " ++ ttext (ty_name t)) :: lit "  relations" :: map decl_line_of l) [] <> []).
  { intros l. induction l as [|a l IH]; [contradiction|]. intros _. destruct l as [|b l]; [cbn; discriminate|].
    specialize (IH ltac:(discriminate)). cbn [map last] in IH |- *. exact IH. }
  apply H. discriminate.
Qed.

Lemma last_app' {A} (a b : list A) d : b <> [] -> last (a ++ b) d = last b d.
Proof. induction a as [|x a IH]; intros H; [reflexivity|]. cbn [app]. rewrite <- (IH H). destruct (a ++ b) eqn:E; [apply app_eq_nil in E; destruct E; contradiction|reflexivity]. Qed.

Lemma flat_last ts : ts <> [] -> Forall type_lex_ok ts -> last (flat_map type_lines ts) [] <> [].
Proof.
  induction ts as [|t ts IH]; [contradiction|]. intros _ H. inversion H as [|? ? Ht Hts]; subst. cbn [flat_map].
  destruct ts as [|t2 ts]; [cbn [flat_map]; rewrite app_nil_r; apply type_lines_last; exact Ht|].
  rewrite last_app'; [apply IH; [discriminate|exact Hts]|]. cbn [flat_map type_lines]. discriminate.
Qed.

Theorem canonical_document_prepass v ts :
  std_version v = true -> Forall type_lex_ok ts ->
  prepass (text_of (ctoks_doc v ts) ++ [10]) = text_of (ctoks_doc v ts).
Proof.
  intros Hv Hts. rewrite (doc_text_lines v ts Hv Hts). destruct (schema_line_tidy v Hv) as [Hs Hne].
  apply prepass_tidy.
  - discriminate.
  - unfold doc_lines. constructor; [split; [reflexivity|cbn; intuition discriminate]|]. constructor; [exact Hs|].
    clear -Hts. induction Hts as [|t ts Ht _ IH]; [constructor|]. cbn [flat_map]. apply Forall_app. split; [apply type_lines_tidy; exact Ht|exact IH].
  - unfold doc_lines. destruct ts as [|t ts]; [cbn [flat_map last]; exact Hne|].
    change (lit "model" :: (lit "  schema " ++ v) :: flat_map type_lines (t :: ts)) with ([lit "model"; lit "  schema " ++ v] ++ flat_map type_lines (t :: ts)).
    rewrite last_app'; [apply flat_last; [discriminate|exact Hts]|]. cbn [flat_map type_lines]. discriminate.
Qed.
Print Assumptions canonical_document_prepass.

(* Proofs/ParserTokens.v — the name tokens of the tree the parser returns are tokens of its input, and every token the
   lexer produces has a non-empty text: type names (and the schema version) of an accepted document are never empty.
   This discharges the "names are not empty" hypothesis of the listener theorems for documents that come from text. *)
From Verif Require Import Base.Str Base.Outcome Model.Ast Model.Token Model.Lexer Model.Parser Proofs.LexerPositions.

(* ---- the lexer ---- *)
Definition has_text (t : tok) : Prop := ttext t <> [].

Lemma lex_loop_has_text fuel : forall s depth line col ts es,
  lex_loop fuel s depth line col = (ts, es) -> Forall has_text ts.
Proof.
  induction fuel as [|f IH]; intros s depth line col ts es H; cbn [lex_loop] in H; [inversion H; constructor|].
  destruct s as [|c r]; [inversion H; constructor|].
  destruct (best_rule (if (depth =? 0)%nat then default_rules else condition_rules) (c :: r) TEOF 0) as [k n].
  destruct (n =? 0)%nat eqn:En.
  - destruct (advance [c] line col) as [l' c']. destruct (lex_loop f r depth l' c') as [ts1 es1] eqn:E1.
    inversion H; subst. eapply IH; eauto.
  - destruct (advance (firstn n (c :: r)) line col) as [l' c'].
    match type of H with context [lex_loop f ?s' ?d' l' c'] => destruct (lex_loop f s' d' l' c') as [ts1 es1] eqn:E1 end.
    inversion H; subst. constructor; [|eapply IH; eauto].
    unfold has_text. cbn [ttext]. apply firstn_nonempty; [apply Nat.eqb_neq; exact En|discriminate].
Qed.

Theorem lex_has_text s ts es : lex s = (ts, es) -> Forall has_text ts.
Proof.
  unfold lex, lex_all. destruct (lex_loop (S (length s)) s 0 1 0) as [ts0 es0] eqn:E. intros H; inversion H; subst.
  apply lex_loop_has_text in E. apply Forall_forall. rewrite Forall_forall in E. intros t Ht. apply filter_In in Ht. apply E. tauto.
Qed.

(* ---- the parser keeps to its input ---- *)
Section Keeps.
  Variable Q : tok -> Prop.
  Notation good := (Forall Q).

  Lemma good_tl ts : good ts -> good (tl ts).
  Proof. intros H. destruct ts; [constructor|inversion H; assumption]. Qed.
  Lemma good_skip_opt k ts : good ts -> good (skip_opt k ts).
  Proof. intros H. destruct ts as [|t r]; [exact H|]. cbn. destruct (tk_eqb (tk t) k); [inversion H; assumption|exact H]. Qed.
  Lemma good_expect k ts t r : expect k ts = Some (t, r) -> good ts -> Q t /\ good r.
  Proof. destruct ts as [|t0 r0]; [discriminate|]. cbn. destruct (tk_eqb (tk t0) k); [|discriminate]. intros H G; inversion H; subst. inversion G; auto. Qed.
  Lemma good_expect_p p ts t r : expect_p p ts = Some (t, r) -> good ts -> Q t /\ good r.
  Proof. destruct ts as [|t0 r0]; [discriminate|]. cbn. destruct (p (tk t0)); [|discriminate]. intros H G; inversion H; subst. inversion G; auto. Qed.

  Lemma good_skip_dup ts : good ts -> good (skip_dup_newline ts).
  Proof. intros H. unfold skip_dup_newline. destruct (is_tk NEWLINE ts && is_tk2 NEWLINE ts); [apply good_tl|]; exact H. Qed.

  Lemma good_skip_to_newline ts : good ts -> good (skip_to_newline ts).
  Proof. induction ts as [|t r IH]; intros H; [constructor|]. cbn. destruct (tk_eqb (tk t) NEWLINE); [exact H|]. inversion H; auto. Qed.
  Lemma good_skip_comment fuel : forall ts r, skip_comment fuel ts = Some r -> good ts -> good r.
  Proof.
    induction fuel as [|f IH]; intros ts r H G; [discriminate|]. cbn [skip_comment] in H.
    destruct (is_tk HASH ts); [|discriminate].
    destruct (is_tk NEWLINE (skip_to_newline (tl ts)) && is_tk2 HASH (skip_to_newline (tl ts))).
    - eapply IH; [exact H|]. apply good_tl, good_skip_to_newline, good_tl. exact G.
    - inversion H; subst. apply good_skip_to_newline, good_tl. exact G.
  Qed.
  Lemma good_lead_in ts r : lead_in ts = Some r -> good ts -> good r.
  Proof.
    unfold lead_in. destruct (is_tk NEWLINE ts); [|discriminate]. destruct (is_tk2 HASH ts).
    - destruct (skip_comment (S (length ts)) (tl ts)) as [r0|] eqn:E; [|discriminate]. destruct (is_tk NEWLINE r0); [|discriminate].
      intros H G; inversion H; subst. apply good_tl. eapply good_skip_comment; [exact E|apply good_tl; exact G].
    - intros H G; inversion H; subst. apply good_tl. exact G.
  Qed.

  Lemma good_p_restr ts x r : p_restr ts = Some (x, r) -> good ts -> good r.
  Proof.
    unfold p_restr, p_restr_base. intros H G. assert (G0 := good_skip_opt NEWLINE ts G).
    destruct (expect_p is_ext_identifier_tk (skip_opt NEWLINE ts)) as [[ty r0]|] eqn:E0; [|discriminate].
    destruct (good_expect_p _ _ _ _ E0 G0) as [_ G1].
    assert (Hb : forall b r1, (if is_tk COLON r0 then do (_, ts') <- expect STAR (tl r0); Some (ty, RKWild, ts')
                               else if is_tk HASH r0 then do (rr, ts') <- expect_p is_ext_identifier_tk (tl r0); Some (ty, RKRel rr, ts')
                               else Some (ty, RKPlain, r0)) = Some (b, r1) -> good r1).
    { intros b r1 Hb. destruct (is_tk COLON r0).
      - destruct (expect STAR (tl r0)) as [[s1 r2]|] eqn:E1; [|discriminate]. inversion Hb; subst. apply (good_expect _ _ _ _ E1). apply good_tl; exact G1.
      - destruct (is_tk HASH r0).
        + destruct (expect_p is_ext_identifier_tk (tl r0)) as [[s1 r2]|] eqn:E1; [|discriminate]. inversion Hb; subst.
          apply (good_expect_p _ _ _ _ E1). apply good_tl; exact G1.
        + inversion Hb; subst. exact G1. }
    destruct (if is_tk COLON r0 then _ else _) as [[[ty0 k0] r1]|] eqn:Eb; [|discriminate]. specialize (Hb _ _ eq_refl).
    destruct (is_tk WHITESPACE r1 && is_tk2 KEYWORD_WITH r1).
    - destruct (expect WHITESPACE (tl (tl r1))) as [[w r2]|] eqn:E2; [|discriminate].
      destruct (expect IDENTIFIER r2) as [[c r3]|] eqn:E3; [|discriminate]. inversion H; subst.
      apply good_skip_opt. apply (good_expect _ _ _ _ E3). apply (good_expect _ _ _ _ E2). apply good_tl, good_tl. exact Hb.
    - inversion H; subst. apply good_skip_opt. exact Hb.
  Qed.

  Lemma good_p_restr_more fuel : forall ts x r, p_restr_more fuel ts = Some (x, r) -> good ts -> good r.
  Proof.
    induction fuel as [|f IH]; intros ts x r H G; [discriminate|]. cbn [p_restr_more] in H. destruct (is_tk COMMA ts).
    - destruct (p_restr (skip_opt WHITESPACE (tl ts))) as [[r0 ts0]|] eqn:E0; [|discriminate].
      destruct (p_restr_more f (skip_opt WHITESPACE ts0)) as [[rs ts1]|] eqn:E1; [|discriminate]. inversion H; subst.
      eapply IH; [exact E1|]. apply good_skip_opt. eapply good_p_restr; [exact E0|]. apply good_skip_opt, good_tl. exact G.
    - destruct (expect RPRACKET ts) as [[t0 r0]|] eqn:E0; [|discriminate]. inversion H; subst. apply (good_expect _ _ _ _ E0 G).
  Qed.

  Lemma good_p_direct ts x r : p_direct ts = Some (x, r) -> good ts -> good r.
  Proof.
    unfold p_direct. intros H G. destruct (expect LBRACKET ts) as [[t0 r0]|] eqn:E0; [|discriminate].
    destruct (p_restr (skip_opt WHITESPACE r0)) as [[x0 r1]|] eqn:E1; [|discriminate].
    destruct (p_restr_more (S (length r1)) (skip_opt WHITESPACE r1)) as [[xs r2]|] eqn:E2; [|discriminate]. inversion H; subst.
    eapply good_p_restr_more; [exact E2|]. apply good_skip_opt. eapply good_p_restr; [exact E1|]. apply good_skip_opt. apply (good_expect _ _ _ _ E0 G).
  Qed.

  Lemma good_p_rewrite ts x r : p_rewrite ts = Some (x, r) -> good ts -> good r.
  Proof.
    unfold p_rewrite. intros H G. destruct (expect_p is_ext_identifier_tk ts) as [[cu r0]|] eqn:E0; [|discriminate].
    destruct (good_expect_p _ _ _ _ E0 G) as [_ G0]. destruct (is_tk WHITESPACE r0 && is_tk2 FROM r0).
    - destruct (expect WHITESPACE (tl (tl r0))) as [[w r1]|] eqn:E1; [|discriminate].
      destruct (expect_p is_ext_identifier_tk r1) as [[t r2]|] eqn:E2; [|discriminate]. inversion H; subst.
      apply (good_expect_p _ _ _ _ E2). apply (good_expect _ _ _ _ E1). apply good_tl, good_tl. exact G0.
    - inversion H; subst. exact G0.
  Qed.

  Definition rec_keeps (rec : bool -> list tok -> P def_result) : Prop :=
    forall direct ts d r, rec direct ts = Some (d, r) -> good ts -> good r.

  Lemma good_p_operand rec ts x r : rec_keeps rec -> p_operand_with rec ts = Some (x, r) -> good ts -> good r.
  Proof.
    intros HR. unfold p_operand_with. intros H G. destruct (is_tk LPAREN ts).
    - destruct (rec false (skip_opt WHITESPACE (tl ts))) as [[[[fi op] rest] r0]|] eqn:E0; [|discriminate].
      destruct (expect RPAREN (skip_opt WHITESPACE r0)) as [[rp r1]|] eqn:E1; [|discriminate]. inversion H; subst.
      apply (good_expect _ _ _ _ E1). apply good_skip_opt. eapply HR; [exact E0|]. apply good_skip_opt, good_tl. exact G.
    - eapply good_p_rewrite; eauto.
  Qed.

  Lemma good_p_partials rec n op : rec_keeps rec -> forall ts x r, p_partials_with rec n op ts = Some (x, r) -> good ts -> good r.
  Proof.
    intros HR. induction n as [|n IH]; intros ts x r H G; [discriminate|]. cbn [p_partials_with] in H.
    destruct (opk_eqb (peek_op ts) op).
    - destruct (expect WHITESPACE (tl (tl ts))) as [[w r0]|] eqn:E0; [|discriminate].
      destruct (p_operand_with rec r0) as [[e r1]|] eqn:E1; [|discriminate].
      assert (G1 : good r1). { eapply good_p_operand; [exact HR|exact E1|]. apply (good_expect _ _ _ _ E0). apply good_tl, good_tl. exact G. }
      destruct op.
      + destruct (p_partials_with rec n ONone r1) as [[es r2]|] eqn:E2; [|discriminate]. inversion H; subst. eapply IH; eauto.
      + destruct (p_partials_with rec n OOr r1) as [[es r2]|] eqn:E2; [|discriminate]. inversion H; subst. eapply IH; eauto.
      + destruct (p_partials_with rec n OAnd r1) as [[es r2]|] eqn:E2; [|discriminate]. inversion H; subst. eapply IH; eauto.
      + inversion H; subst. exact G1.
    - inversion H; subst. exact G.
  Qed.

  Definition p_first (rec : bool -> list tok -> P def_result) (direct : bool) (ts : list tok) : P relem :=
    if is_tk LBRACKET ts then
      if direct then do (rs, ts) <- p_direct ts; Some (EDirect rs, ts) else None
    else if is_tk LPAREN ts then
      if direct then
        do (d, ts) <- rec true (skip_opt WHITESPACE (tl ts));
        do (_, ts) <- expect RPAREN (skip_opt WHITESPACE ts);
        let '(fi, op, rest) := d in Some (EGroup false fi op rest, ts)
      else p_operand_with rec ts
    else p_rewrite ts.

  Lemma good_p_def_body rec direct ts d r : rec_keeps rec -> p_def_body rec direct ts = Some (d, r) -> good ts -> good r.
  Proof.
    intros HR H G. change (p_def_body rec direct ts) with
      (do (fi, ts0) <- p_first rec direct ts;
       match peek_op ts0 with
       | ONone => Some ((fi, ONone, []), ts0)
       | op => do (es, ts1) <- p_partials_with rec (S (length ts0)) op ts0; Some ((fi, op, es), ts1)
       end) in H.
    destruct (p_first rec direct ts) as [[fi r0]|] eqn:E0; [|discriminate]. unfold p_first in E0.
    assert (G0 : good r0).
    { destruct (is_tk LBRACKET ts).
      - destruct direct; [|discriminate]. destruct (p_direct ts) as [[rs r1]|] eqn:E1; [|discriminate]. inversion E0; subst. eapply good_p_direct; eauto.
      - destruct (is_tk LPAREN ts).
        + destruct direct.
          * destruct (rec true (skip_opt WHITESPACE (tl ts))) as [[[[f1 o1] rs1] r1]|] eqn:E1; [|discriminate].
            destruct (expect RPAREN (skip_opt WHITESPACE r1)) as [[rp r2]|] eqn:E2; [|discriminate]. inversion E0; subst.
            apply (good_expect _ _ _ _ E2). apply good_skip_opt. eapply HR; [exact E1|]. apply good_skip_opt, good_tl. exact G.
          * eapply good_p_operand; eauto.
        + eapply good_p_rewrite; eauto. }
    destruct (peek_op r0); cbv zeta in H.
    - inversion H; subst. exact G0.
    - destruct (p_partials_with rec (S (length r0)) OOr r0) as [[es r1]|] eqn:E1; [|cbn in H; discriminate H]. cbn in H. inversion H; subst. eapply good_p_partials; eauto.
    - destruct (p_partials_with rec (S (length r0)) OAnd r0) as [[es r1]|] eqn:E1; [|cbn in H; discriminate H]. cbn in H. inversion H; subst. eapply good_p_partials; eauto.
    - destruct (p_partials_with rec (S (length r0)) OButNot r0) as [[es r1]|] eqn:E1; [|cbn in H; discriminate H]. cbn in H. inversion H; subst. eapply good_p_partials; eauto.
  Qed.

  Lemma good_p_def fuel : rec_keeps (p_def fuel).
  Proof.
    induction fuel as [|f IH]; intros direct ts d r H G; [discriminate|]. cbn [p_def] in H. eapply good_p_def_body; eauto.
  Qed.

  Lemma good_p_reldecl ts x r : p_reldecl ts = Some (x, r) -> good ts -> good r.
  Proof.
    unfold p_reldecl. intros H G. destruct (lead_in ts) as [r0|] eqn:E0; [|discriminate]. cbn [option_map fst] in H.
    assert (G0 := good_lead_in _ _ E0 G).
    destruct (expect DEFINE r0) as [[t1 r1]|] eqn:E1; [|discriminate]. destruct (good_expect _ _ _ _ E1 G0) as [_ G1].
    destruct (expect WHITESPACE r1) as [[t2 r2]|] eqn:E2; [|discriminate]. destruct (good_expect _ _ _ _ E2 G1) as [_ G2].
    destruct (expect_p is_ext_identifier_tk r2) as [[nm r3]|] eqn:E3; [|discriminate]. destruct (good_expect_p _ _ _ _ E3 G2) as [_ G3].
    destruct (expect COLON (skip_opt WHITESPACE r3)) as [[t4 r4]|] eqn:E4; [|discriminate].
    destruct (good_expect _ _ _ _ E4 (good_skip_opt _ _ G3)) as [_ G4].
    destruct (p_def (S (length r4)) true (skip_opt WHITESPACE r4)) as [[[[fi op] rest] r5]|] eqn:E5; [|discriminate]. inversion H; subst.
    eapply good_p_def; [exact E5|]. apply good_skip_opt. exact G4.
  Qed.

  Lemma good_p_reldecls fuel : forall ts x r, p_reldecls fuel ts = Some (x, r) -> good ts -> good r.
  Proof.
    induction fuel as [|f IH]; intros ts x r H G; [discriminate|]. cbn [p_reldecls] in H. destruct (starts_with [DEFINE] ts).
    - destruct (p_reldecl ts) as [[r0 ts0]|] eqn:E0; [|discriminate]. destruct (p_reldecls f ts0) as [[rs ts1]|] eqn:E1; [|discriminate].
      inversion H; subst. eapply IH; [exact E1|]. eapply good_p_reldecl; eauto.
    - inversion H; subst. exact G.
  Qed.

  Lemma good_p_typedef ts x r : p_typedef ts = Some (x, r) -> good ts -> Q (ty_name x) /\ good r.
  Proof.
    unfold p_typedef. intros H G. destruct (lead_in ts) as [r0|] eqn:E0; [|discriminate]. cbn [option_map fst] in H.
    assert (G0 := good_lead_in _ _ E0 G).
    destruct (if is_tk EXTEND r0 then do (_, ts) <- expect WHITESPACE (tl r0); Some (true, ts) else Some (false, r0)) as [[ext r1]|] eqn:E1; [|discriminate].
    assert (G1 : good r1).
    { destruct (is_tk EXTEND r0).
      - destruct (expect WHITESPACE (tl r0)) as [[w r2]|] eqn:E2; [|discriminate]. inversion E1; subst. apply (good_expect _ _ _ _ E2). apply good_tl. exact G0.
      - inversion E1; subst. exact G0. }
    destruct (expect TYPE r1) as [[t2 r2]|] eqn:E2; [|discriminate]. destruct (good_expect _ _ _ _ E2 G1) as [_ G2].
    destruct (expect WHITESPACE r2) as [[t3 r3]|] eqn:E3; [|discriminate]. destruct (good_expect _ _ _ _ E3 G2) as [_ G3].
    destruct (expect_p is_ext_identifier_tk r3) as [[nm r4]|] eqn:E4; [|discriminate]. destruct (good_expect_p _ _ _ _ E4 G3) as [Qn G4].
    destruct (is_tk NEWLINE r4 && is_tk2 RELATIONS r4).
    - destruct (p_reldecl (tl (tl r4))) as [[rd r5]|] eqn:E5; [|discriminate].
      destruct (p_reldecls (S (length r5)) r5) as [[rs r6]|] eqn:E6; [|discriminate]. inversion H; subst. cbn [ty_name]. split; [exact Qn|].
      eapply good_p_reldecls; [exact E6|]. eapply good_p_reldecl; [exact E5|]. apply good_tl, good_tl. exact G4.
    - inversion H; subst. cbn [ty_name]. split; [exact Qn|exact G4].
  Qed.

  Lemma good_p_typedefs fuel : forall ts x r, p_typedefs fuel ts = Some (x, r) -> good ts -> Forall (fun t => Q (ty_name t)) x /\ good r.
  Proof.
    induction fuel as [|f IH]; intros ts x r H G; [discriminate|]. cbn [p_typedefs] in H. destruct (starts_with [EXTEND; TYPE] ts).
    - destruct (p_typedef ts) as [[t0 ts0]|] eqn:E0; [|discriminate]. destruct (p_typedefs f ts0) as [[tds ts1]|] eqn:E1; [|discriminate].
      inversion H; subst. destruct (good_p_typedef _ _ _ E0 G) as [Q0 G0]. destruct (IH _ _ _ E1 G0) as [Qs G1]. split; [constructor; assumption|exact G1].
    - inversion H; subst. split; [constructor|exact G].
  Qed.

  Definition header_tok (h : header) : tok := match h with HModel v => v | HModule n => n end.

  Lemma good_p_header ts h r : p_header ts = Some (h, r) -> good ts -> Q (header_tok h) /\ good r.
  Proof.
    unfold p_header. intros H G.
    destruct (if is_tk HASH ts then match skip_comment (S (length ts)) ts with
                                    | Some r => if is_tk NEWLINE r then Some (tl r, tl r) else None
                                    | None => None
                                    end
              else Some (ts, ts)) as [[r0 r0']|] eqn:E0; [|discriminate]. cbn [fst] in H.
    assert (G0 : good r0).
    { destruct (is_tk HASH ts).
      - destruct (skip_comment (S (length ts)) ts) as [r1|] eqn:E1; [|discriminate]. destruct (is_tk NEWLINE r1); [|discriminate].
        inversion E0; subst. apply good_tl. eapply good_skip_comment; eauto.
      - inversion E0; subst. exact G. }
    destruct (is_tk MODEL r0).
    - destruct (expect NEWLINE (tl r0)) as [[t1 r1]|] eqn:E1; [|discriminate]. destruct (good_expect _ _ _ _ E1 (good_tl _ G0)) as [_ G1].
      destruct (expect SCHEMA r1) as [[t2 r2]|] eqn:E2; [|discriminate]. destruct (good_expect _ _ _ _ E2 G1) as [_ G2].
      destruct (expect WHITESPACE r2) as [[t3 r3]|] eqn:E3; [|discriminate]. destruct (good_expect _ _ _ _ E3 G2) as [_ G3].
      destruct (expect SCHEMA_VERSION r3) as [[v r4]|] eqn:E4; [|discriminate]. destruct (good_expect _ _ _ _ E4 G3) as [Qv G4].
      inversion H; subst. split; [exact Qv|apply good_skip_opt; exact G4].
    - destruct (is_tk MODULE r0); [|discriminate].
      destruct (expect WHITESPACE (tl r0)) as [[t1 r1]|] eqn:E1; [|discriminate]. destruct (good_expect _ _ _ _ E1 (good_tl _ G0)) as [_ G1].
      destruct (expect_p is_identifier_tk r1) as [[n r2]|] eqn:E2; [|discriminate]. destruct (good_expect_p _ _ _ _ E2 G1) as [Qn G2].
      inversion H; subst. split; [exact Qn|apply good_skip_opt; exact G2].
  Qed.

  Theorem parse_keeps ts f : parse ts = Some f -> good ts -> Q (header_tok (f_header f)) /\ Forall (fun t => Q (ty_name t)) (f_types f).
  Proof.
    unfold parse. intros H G. assert (G0 := good_skip_opt NEWLINE _ (good_skip_opt WHITESPACE _ G)).
    destruct (p_header (skip_opt NEWLINE (skip_opt WHITESPACE ts))) as [[h r0]|] eqn:E0; [|discriminate].
    destruct (good_p_header _ _ _ E0 G0) as [Qh G1].
    destruct (p_typedefs (S (length r0)) (skip_dup_newline r0)) as [[tds r1]|] eqn:E1; [|discriminate].
    destruct (good_p_typedefs _ _ _ _ E1 (good_skip_dup _ G1)) as [Qt G2].
    destruct (p_conditions (S (length r1)) (skip_dup_newline r1)) as [[cs r2]|]; [|discriminate].
    destruct (skip_opt NEWLINE r2); [|discriminate]. inversion H; subst. cbn. auto.
  Qed.
End Keeps.

(* ---- together: the names of an accepted document are not empty ---- *)
Theorem accepted_names_nonempty d f :
  parse (fst (lex d)) = Some f -> ttext (header_tok (f_header f)) <> [] /\ Forall (fun t => ttext (ty_name t) <> []) (f_types f).
Proof.
  intros H. destruct (lex d) as [ts es] eqn:E. cbn [fst] in H.
  apply (parse_keeps has_text ts f H). eapply lex_has_text; eauto.
Qed.

(* ---- a scalar parameter type token is spelled as one of the eight scalar types ---- *)
Definition scalar_literals : list str :=
  [lit "bool"; lit "string"; lit "int"; lit "uint"; lit "double"; lit "duration"; lit "timestamp"; lit "ipaddress"].
Definition scalar_tok (t : tok) : Prop := tk t = CONDITION_PARAM_TYPE -> In (ttext t) scalar_literals.

Lemma best_rule_from rules s : forall bk bn k n,
  best_rule rules s bk bn = (k, n) -> (k, n) = (bk, bn) \/ exists f, In (k, f) rules /\ f s = n.
Proof.
  induction rules as [|[k0 f0] rules IH]; intros bk bn k n H; cbn [best_rule] in H; [left; congruence|].
  destruct (bn <? f0 s)%nat.
  - destruct (IH _ _ _ _ H) as [E|[f [Hin Hf]]]; [right; exists f0; inversion E; subst; split; [left; reflexivity|reflexivity]|right; exists f; split; [right; exact Hin|exact Hf]].
  - destruct (IH _ _ _ _ H) as [E|[f [Hin Hf]]]; [left; exact E|right; exists f; split; [right; exact Hin|exact Hf]].
Qed.

Lemma is_prefix_firstn l : forall s, is_prefix l s = true -> firstn (length l) s = l.
Proof.
  induction l as [|c l IH]; intros s H; [reflexivity|]. destruct s as [|d s]; [discriminate|]. cbn [is_prefix] in H.
  apply andb_prop in H. destruct H as [H1 H2]. apply N.eqb_eq in H1. subst. cbn. f_equal. apply IH. exact H2.
Qed.

Lemma default_rules_no_param_type : forallb (fun r : rule => negb (tk_eqb (fst r) CONDITION_PARAM_TYPE)) default_rules = true.
Proof. vm_compute. reflexivity. Qed.

Lemma condition_rules_param_type k f : In (k, f) condition_rules -> k = CONDITION_PARAM_TYPE ->
  exists l, In l scalar_literals /\ f = rec_literal l.
Proof.
  unfold condition_rules. intros H Hk. cbn [In] in H.
  repeat (destruct H as [H|H]; [inversion H; subst; try discriminate; try (eexists; split; [|reflexivity]; cbn; tauto)|]).
  all: try contradiction.
Qed.

Lemma lex_loop_scalar fuel : forall s depth line col ts es,
  lex_loop fuel s depth line col = (ts, es) -> Forall scalar_tok ts.
Proof.
  induction fuel as [|f IH]; intros s depth line col ts es H; cbn [lex_loop] in H; [inversion H; constructor|].
  destruct s as [|c r]; [inversion H; constructor|].
  destruct (best_rule (if (depth =? 0)%nat then default_rules else condition_rules) (c :: r) TEOF 0) as [k n] eqn:Eb.
  destruct (n =? 0)%nat eqn:En.
  - destruct (advance [c] line col) as [l' c']. destruct (lex_loop f r depth l' c') as [ts1 es1] eqn:E1.
    inversion H; subst. eapply IH; eauto.
  - destruct (advance (firstn n (c :: r)) line col) as [l' c'].
    match type of H with context [lex_loop f ?s' ?d' l' c'] => destruct (lex_loop f s' d' l' c') as [ts1 es1] eqn:E1 end.
    inversion H; subst. constructor; [|eapply IH; eauto].
    unfold scalar_tok. cbn [tk ttext]. intros Hk. subst k.
    apply best_rule_from in Eb. destruct Eb as [E|[g [Hin Hg]]]; [inversion E; subst; discriminate En|].
    destruct (depth =? 0)%nat.
    + exfalso. pose proof default_rules_no_param_type as Hd. rewrite forallb_forall in Hd. specialize (Hd _ Hin). cbn in Hd. discriminate Hd.
    + destruct (condition_rules_param_type _ _ Hin eq_refl) as [l [Hl ->]]. unfold rec_literal in Hg.
      destruct (is_prefix l (c :: r)) eqn:Ep; [|subst n; discriminate En]. subst n. rewrite (is_prefix_firstn l _ Ep). exact Hl.
Qed.

Theorem lex_scalar s ts es : lex s = (ts, es) -> Forall scalar_tok ts.
Proof.
  unfold lex, lex_all. destruct (lex_loop (S (length s)) s 0 1 0) as [ts0 es0] eqn:E. intros H; inversion H; subst.
  apply lex_loop_scalar in E. apply Forall_forall. rewrite Forall_forall in E. intros t Ht. apply filter_In in Ht. apply E. tauto.
Qed.

(* ---- and the parser takes parameter types from its input ---- *)
Section KeepsConds.
  Variable Q : tok -> Prop.
  Notation good := (Forall Q).

  Lemma good_p_param ts x r : p_param ts = Some (x, r) -> good ts ->
    Q (pd_type x) /\ tk (pd_type x) = CONDITION_PARAM_TYPE /\ good r.
  Proof.
    unfold p_param. intros H G.
    destruct (expect IDENTIFIER (skip_opt NEWLINE ts)) as [[nm r0]|] eqn:E0; [|discriminate].
    destruct (good_expect Q _ _ _ _ E0 (good_skip_opt Q _ _ G)) as [_ G0].
    destruct (expect COLON (skip_opt WHITESPACE r0)) as [[c1 r1]|] eqn:E1; [|discriminate].
    destruct (good_expect Q _ _ _ _ E1 (good_skip_opt Q _ _ G0)) as [_ G1].
    assert (G1' := good_skip_opt Q WHITESPACE _ G1).
    assert (Hkind : forall k ts0 t r', expect k ts0 = Some (t, r') -> tk t = k).
    { intros k ts0 t r' He. destruct ts0 as [|t0 r0']; [discriminate|]. cbn in He. destruct (tk_eqb (tk t0) k) eqn:Ek; [|discriminate].
      inversion He; subst. unfold tk_eqb in Ek. apply N.eqb_eq in Ek. destruct (tk t), k; try discriminate Ek; reflexivity. }
    destruct (is_tk CONDITION_PARAM_CONTAINER (skip_opt WHITESPACE r1)).
    - destruct (expect CONDITION_PARAM_CONTAINER (skip_opt WHITESPACE r1)) as [[c2 r2]|] eqn:E2; [|discriminate].
      destruct (good_expect Q _ _ _ _ E2 G1') as [_ G2].
      destruct (expect LESS r2) as [[c3 r3]|] eqn:E3; [|discriminate]. destruct (good_expect Q _ _ _ _ E3 G2) as [_ G3].
      destruct (expect CONDITION_PARAM_TYPE r3) as [[t r4]|] eqn:E4; [|discriminate]. destruct (good_expect Q _ _ _ _ E4 G3) as [Qt G4].
      destruct (expect GREATER r4) as [[c5 r5]|] eqn:E5; [|discriminate]. destruct (good_expect Q _ _ _ _ E5 G4) as [_ G5].
      inversion H; subst. cbn [pd_type]. split; [exact Qt|]. split; [apply (Hkind _ _ _ _ E4)|exact G5].
    - destruct (expect CONDITION_PARAM_TYPE (skip_opt WHITESPACE r1)) as [[t r2]|] eqn:E2; [|discriminate].
      destruct (good_expect Q _ _ _ _ E2 G1') as [Qt G2]. inversion H; subst. cbn [pd_type]. split; [exact Qt|]. split; [apply (Hkind _ _ _ _ E2)|exact G2].
  Qed.

  Definition param_ok (p : pdecl) : Prop := Q (pd_type p) /\ tk (pd_type p) = CONDITION_PARAM_TYPE.

  Lemma good_p_params_more fuel : forall ts x r, p_params_more fuel ts = Some (x, r) -> good ts -> Forall param_ok x /\ good r.
  Proof.
    induction fuel as [|f IH]; intros ts x r H G; [discriminate|]. cbn [p_params_more] in H. destruct (is_tk COMMA ts).
    - destruct (p_param (skip_opt WHITESPACE (tl ts))) as [[p0 ts0]|] eqn:E0; [|discriminate].
      destruct (good_p_param _ _ _ E0 (good_skip_opt Q _ _ (good_tl Q _ G))) as (Q0 & K0 & G0).
      destruct (p_params_more f (skip_opt WHITESPACE ts0)) as [[ps ts1]|] eqn:E1; [|discriminate].
      destruct (IH _ _ _ E1 (good_skip_opt Q _ _ G0)) as [Qs G1]. inversion H; subst. split; [constructor; [split; assumption|exact Qs]|exact G1].
    - inversion H; subst. split; [constructor|exact G].
  Qed.

  Lemma good_take_expr ts : good ts -> good (snd (take_expr ts)).
  Proof.
    induction ts as [|t r IH]; intros G; [constructor|]. cbn [take_expr]. destruct (tk_eqb (tk t) RBRACE); [exact G|].
    inversion G; subst. destruct (take_expr r) as [e r'] eqn:E. cbn [snd] in *. apply IH. assumption.
  Qed.

  Lemma good_p_condition ts x r : p_condition ts = Some (x, r) -> good ts -> Forall param_ok (cd_params x) /\ good r.
  Proof.
    unfold p_condition. intros H G. destruct (lead_in ts) as [r0|] eqn:E0; [|discriminate]. cbn [option_map fst] in H.
    assert (G0 := good_lead_in Q _ _ E0 G).
    destruct (expect CONDITION r0) as [[t1 r1]|] eqn:E1; [|discriminate]. destruct (good_expect Q _ _ _ _ E1 G0) as [_ G1].
    destruct (expect WHITESPACE r1) as [[t2 r2]|] eqn:E2; [|discriminate]. destruct (good_expect Q _ _ _ _ E2 G1) as [_ G2].
    destruct (expect IDENTIFIER r2) as [[nm r3]|] eqn:E3; [|discriminate]. destruct (good_expect Q _ _ _ _ E3 G2) as [_ G3].
    destruct (expect LPAREN (skip_opt WHITESPACE r3)) as [[t4 r4]|] eqn:E4; [|discriminate].
    destruct (good_expect Q _ _ _ _ E4 (good_skip_opt Q _ _ G3)) as [_ G4].
    destruct (p_param (skip_opt WHITESPACE r4)) as [[p r5]|] eqn:E5; [|discriminate].
    destruct (good_p_param _ _ _ E5 (good_skip_opt Q _ _ G4)) as (Qp & Kp & G5).
    destruct (p_params_more (S (length r5)) (skip_opt WHITESPACE r5)) as [[ps r6]|] eqn:E6; [|discriminate].
    destruct (good_p_params_more _ _ _ _ E6 (good_skip_opt Q _ _ G5)) as [Qps G6].
    destruct (expect RPAREN (skip_opt NEWLINE r6)) as [[t7 r7]|] eqn:E7; [|discriminate].
    destruct (good_expect Q _ _ _ _ E7 (good_skip_opt Q _ _ G6)) as [_ G7].
    destruct (expect LBRACE (skip_opt WHITESPACE r7)) as [[t8 r8]|] eqn:E8; [|discriminate].
    destruct (good_expect Q _ _ _ _ E8 (good_skip_opt Q _ _ G7)) as [_ G8].
    assert (G9 := good_take_expr _ (good_skip_opt Q WHITESPACE _ (good_skip_opt Q NEWLINE _ G8))).
    destruct (take_expr (skip_opt WHITESPACE (skip_opt NEWLINE r8))) as [e r9]. cbn [snd] in G9.
    destruct (expect RBRACE r9) as [[t10 r10]|] eqn:E10; [|discriminate]. destruct (good_expect Q _ _ _ _ E10 G9) as [_ G10].
    inversion H; subst. cbn [cd_params]. split; [constructor; [split; assumption|exact Qps]|exact G10].
  Qed.

  Lemma good_p_conditions fuel : forall ts x r, p_conditions fuel ts = Some (x, r) -> good ts ->
    Forall (fun c => Forall param_ok (cd_params c)) x.
  Proof.
    induction fuel as [|f IH]; intros ts x r H G; [discriminate|]. cbn [p_conditions] in H. destruct (starts_with [CONDITION] ts).
    - destruct (p_condition ts) as [[c0 ts0]|] eqn:E0; [|discriminate]. destruct (good_p_condition _ _ _ E0 G) as [Q0 G0].
      destruct (p_conditions f ts0) as [[cs ts1]|] eqn:E1; [|discriminate]. inversion H; subst. constructor; [exact Q0|eapply IH; eauto].
    - inversion H; subst. constructor.
  Qed.

  Theorem parse_keeps_params ts f : parse ts = Some f -> good ts -> Forall (fun c => Forall param_ok (cd_params c)) (f_conds f).
  Proof.
    unfold parse. intros H G. assert (G0 := good_skip_opt Q NEWLINE _ (good_skip_opt Q WHITESPACE _ G)).
    destruct (p_header (skip_opt NEWLINE (skip_opt WHITESPACE ts))) as [[h r0]|] eqn:E0; [|discriminate].
    destruct (good_p_header Q _ _ _ E0 G0) as [_ G1].
    destruct (p_typedefs (S (length r0)) (skip_dup_newline r0)) as [[tds r1]|] eqn:E1; [|discriminate].
    destruct (good_p_typedefs Q _ _ _ _ E1 (good_skip_dup Q _ G1)) as [_ G2].
    destruct (p_conditions (S (length r1)) (skip_dup_newline r1)) as [[cs r2]|] eqn:E2; [|discriminate].
    destruct (skip_opt NEWLINE r2); [|discriminate]. inversion H; subst. cbn. eapply good_p_conditions; [exact E2|apply good_skip_dup; exact G2].
  Qed.
End KeepsConds.

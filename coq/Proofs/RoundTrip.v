(* Proofs/RoundTrip.v — the first clause of C01: every model the DSL parser produces can be rendered back.
   The denotation of a grammatical relation definition is carriable and expressible (at most one direct
   assignment, in leading position), so by the C02 theorems the printer succeeds on it (C01, C02_image). *)
From Verif Require Import Base.Str Base.Outcome Model.Ast Model.Token Model.Parser Model.Listener Model.Printer
  Spec.Sem Spec.Expressible Proofs.PrinterExpressible Proofs.ListenerSem.

Lemma combine_cases op (rest : list relem) x (xs : list userset) :
  length xs = length rest -> partials_ok op rest = true ->
  (xs = [] /\ combine op (x :: xs) = x) \/
  (xs <> [] /\ (combine op (x :: xs) = UUnion (x :: xs) \/ combine op (x :: xs) = UInter (x :: xs) \/
                exists y, xs = [y] /\ combine op (x :: xs) = UDiff x y)).
Proof.
  destruct op, rest as [|r [|r' rest]], xs as [|y [|z xs]]; simpl; intros Hl H; try discriminate; auto;
    right; (split; [discriminate|]); eauto.
Qed.

Definition sum_direct (l : list userset) : nat := fold_right (fun c n => (count_direct c + n)%nat) 0%nat l.

(* operands that are not in leading position contain no direct assignment and are carriable *)
Theorem operand_no_direct e : wf_operand e = true -> count_direct (sem_elem e) = 0%nat /\ carriable (sem_elem e) = true.
Proof.
  induction e as [rs | cu ts | nd first op rest IHf IHr] using relem_ind'; intros Hwf; try discriminate Hwf.
  - destruct ts; split; reflexivity.
  - destruct nd; [|discriminate Hwf]. simpl in Hwf.
    apply andb_prop in Hwf. destruct Hwf as [Hwf Hrest]. apply andb_prop in Hwf. destruct Hwf as [Hfirst Hpart].
    destruct (IHf Hfirst) as [Cf Kf].
    assert (Hall : sum_direct (map sem_elem rest) = 0%nat /\ forallb carriable (map sem_elem rest) = true).
    { clear Hpart. induction IHr as [|e rest He _ IH]; [split; reflexivity|].
      simpl in Hrest. apply andb_prop in Hrest. destruct Hrest as [Hwe Hwr].
      destruct (He Hwe) as [C K]. destruct (IH Hwr) as [C' K']. simpl. unfold sum_direct in *. simpl. rewrite C, K, C', K'. split; reflexivity. }
    destruct Hall as [Cs Ks]. cbn [sem_elem].
    destruct (combine_cases op rest (sem_elem first) (map sem_elem rest) (map_length _ _) Hpart) as [[E ->]|[Hne [->|[->|[y [E ->]]]]]].
    + split; assumption.
    + cbn [count_direct carriable]. fold (sum_direct (sem_elem first :: map sem_elem rest)). unfold sum_direct in *. simpl. rewrite Cf, Cs, Kf, Ks. split; reflexivity.
    + cbn [count_direct carriable]. unfold sum_direct in *. simpl. rewrite Cf, Cs, Kf, Ks. split; reflexivity.
    + rewrite E in Cs, Ks. unfold sum_direct in Cs. simpl in Cs, Ks. apply andb_prop in Ks. destruct Ks as [Ky _].
      cbn [count_direct carriable]. rewrite Cf, Kf, Ky. split; [lia|reflexivity].
Qed.

Lemma count_union x xs : count_direct (UUnion (x :: xs)) = (count_direct x + sum_direct xs)%nat. Proof. reflexivity. Qed.
Lemma count_inter x xs : count_direct (UInter (x :: xs)) = (count_direct x + sum_direct xs)%nat. Proof. reflexivity. Qed.
Lemma carriable_union x xs : carriable (UUnion (x :: xs)) = carriable x && forallb carriable xs. Proof. reflexivity. Qed.
Lemma carriable_inter x xs : carriable (UInter (x :: xs)) = carriable x && forallb carriable xs. Proof. reflexivity. Qed.
Lemma first_pos_union x xs : first_pos (UUnion (x :: xs)) = (is_direct x || existsb is_direct xs) || first_pos x. Proof. reflexivity. Qed.
Lemma first_pos_inter x xs : first_pos (UInter (x :: xs)) = (is_direct x || existsb is_direct xs) || first_pos x. Proof. reflexivity. Qed.

Lemma operands_no_direct rest :
  forallb wf_operand rest = true ->
  sum_direct (map sem_elem rest) = 0%nat /\ forallb carriable (map sem_elem rest) = true /\
  existsb is_direct (map sem_elem rest) = false.
Proof.
  induction rest as [|e rest IH]; intros H; [repeat split; reflexivity|].
  simpl in H. apply andb_prop in H. destruct H as [He Hr].
  destruct (operand_no_direct e He) as [C K]. destruct (IH Hr) as [C' [K' X']].
  assert (D : is_direct (sem_elem e) = false).
  { destruct (sem_elem e) as [| [|] | | | | |]; simpl in *; try reflexivity; discriminate. }
  change (sum_direct (map sem_elem (e :: rest))) with (count_direct (sem_elem e) + sum_direct (map sem_elem rest))%nat.
  change (forallb carriable (map sem_elem (e :: rest))) with (carriable (sem_elem e) && forallb carriable (map sem_elem rest)).
  change (existsb is_direct (map sem_elem (e :: rest))) with (is_direct (sem_elem e) || existsb is_direct (map sem_elem rest)).
  rewrite C, K, C', K', X', D. repeat split; reflexivity.
Qed.

(* a definition in leading position: at most one direct assignment, and it can be placed first *)
Theorem leading_expressible e : wf_leading e = true ->
  carriable (sem_elem e) = true /\ (count_direct (sem_elem e) <= 1)%nat /\
  (count_direct (sem_elem e) = 1%nat -> first_pos (sem_elem e) = true).
Proof.
  induction e as [rs | cu ts | nd first op rest IHf _] using relem_ind'; intros Hwf.
  - repeat split; simpl; auto.
  - destruct ts; repeat split; simpl; auto; discriminate.
  - destruct nd; [discriminate Hwf|]. simpl in Hwf.
    apply andb_prop in Hwf. destruct Hwf as [Hwf Hrest]. apply andb_prop in Hwf. destruct Hwf as [Hfirst Hpart].
    destruct (IHf Hfirst) as [Kf [Cf Pf]]. destruct (operands_no_direct rest Hrest) as [Cs [Ks Xs]].
    cbn [sem_elem].
    destruct (combine_cases op rest (sem_elem first) (map sem_elem rest) (map_length _ _) Hpart) as [[E ->]|[Hne [->|[->|[y [E ->]]]]]].
    + repeat split; assumption.
    + rewrite count_union, carriable_union, first_pos_union, Cs, Kf, Ks.
      repeat split; [lia|]. intros H1. rewrite Pf by lia. apply orb_true_r.
    + rewrite count_inter, carriable_inter, first_pos_inter, Cs, Kf, Ks.
      repeat split; [lia|]. intros H1. rewrite Pf by lia. apply orb_true_r.
    + rewrite E in Cs, Ks. unfold sum_direct in Cs. simpl in Cs, Ks. apply andb_prop in Ks. destruct Ks as [Ky _].
      cbn [count_direct carriable first_pos]. rewrite Kf, Ky. repeat split; [lia|]. intros H1. apply Pf. lia.
Qed.

(* C02_image / C01 first clause, one relation: what the parser produces is always printable *)
Theorem parsed_relation_expressible d : wf_rdef d = true -> carriable (sem_rdef d) = true /\ expressible (sem_rdef d) = true.
Proof.
  unfold wf_rdef. intros Hwf. apply andb_prop in Hwf. destruct Hwf as [Hwf Hrest]. apply andb_prop in Hwf. destruct Hwf as [Hfirst Hpart].
  destruct (leading_expressible (rd_first d) Hfirst) as [Kf [Cf Pf]]. destruct (operands_no_direct (rd_rest d) Hrest) as [Cs [Ks Xs]].
  unfold sem_rdef, expressible.
  destruct (combine_cases (rd_op d) (rd_rest d) (sem_elem (rd_first d)) (map sem_elem (rd_rest d)) (map_length _ _) Hpart)
    as [[E ->]|[Hne [->|[->|[y [E ->]]]]]].
  - split; [exact Kf|]. destruct (count_direct (sem_elem (rd_first d))) as [|[|n]] eqn:Ec; simpl; [reflexivity|apply Pf; reflexivity|lia].
  - rewrite count_union, carriable_union, first_pos_union, Cs, Kf, Ks.
    split; [reflexivity|]. rewrite Nat.add_0_r.
    destruct (count_direct (sem_elem (rd_first d))) as [|[|n]] eqn:Ec; simpl; [reflexivity| |lia].
    rewrite Pf by reflexivity. apply orb_true_r.
  - rewrite count_inter, carriable_inter, first_pos_inter, Cs, Kf, Ks.
    split; [reflexivity|]. rewrite Nat.add_0_r.
    destruct (count_direct (sem_elem (rd_first d))) as [|[|n]] eqn:Ec; simpl; [reflexivity| |lia].
    rewrite Pf by reflexivity. apply orb_true_r.
  - rewrite E in Cs, Ks. unfold sum_direct in Cs. simpl in Cs, Ks. apply andb_prop in Ks. destruct Ks as [Ky _].
    cbn [count_direct carriable first_pos]. rewrite Kf, Ky. split; [reflexivity|].
    assert (Cy : count_direct y = 0%nat) by lia. rewrite Cy, Nat.add_0_r.
    destruct (count_direct (sem_elem (rd_first d))) as [|[|n]] eqn:Ec; simpl; [reflexivity|apply Pf; reflexivity|lia].
Qed.

(* with the C02 theorem: the printer succeeds on every relation the parser can produce *)
Corollary parsed_relation_prints d ty rel meta src :
  wf_rdef d = true -> exists t, print_relation ty rel (sem_rdef d) meta src = Ok t.
Proof.
  intros Hwf. destruct (parsed_relation_expressible d Hwf) as [K E].
  exact (proj1 (print_relation_iff ty rel (sem_rdef d) meta src K) E).
Qed.

(* ---- whole documents: rendering the parsed model always succeeds (C01, first clause) ---- *)
From Verif Require Import Model.Transform.

Definition scalar_params (f : file) : Prop :=
  Forall (fun c => Forall (fun p => pd_container p = None ->
                                     type_name_number (ttext (pd_type p)) <> 9 /\ type_name_number (ttext (pd_type p)) <> 10)
                          (cd_params c)) (f_conds f).

Lemma sem_type_carriable modular module_ t :
  Forall (fun r => wf_rdef (rl_def r) = true) (ty_rels t) -> NoDup (map (fun r => ttext (rl_name r)) (ty_rels t)) ->
  type_carriable (sem_type modular module_ t) /\ type_expressible (sem_type modular module_ t).
Proof.
  intros Hwf Hnd. unfold type_carriable, type_expressible, usersets_of. simpl.
  rewrite !map_map. simpl. split; [split|].
  - unfold keys. rewrite map_map. simpl. exact Hnd.
  - apply Forall_forall. intros u Hu. apply in_map_iff in Hu. destruct Hu as [r [<- Hr]].
    rewrite Forall_forall in Hwf. apply (parsed_relation_expressible (rl_def r) (Hwf r Hr)).
  - apply Forall_forall. intros u Hu. apply in_map_iff in Hu. destruct Hu as [r [<- Hr]].
    rewrite Forall_forall in Hwf. apply (parsed_relation_expressible (rl_def r) (Hwf r Hr)).
Qed.

Lemma type_name_number_range s : In (type_name_number s) [0; 1; 2; 3; 4; 5; 6; 7; 8; 9; 10; 11].
Proof.
  unfold type_name_number.
  repeat match goal with |- context [if ?b then _ else _] => destruct b end; simpl; tauto.
Qed.

Lemma scalar_param_ok s : type_name_number s <> 9 -> type_name_number s <> 10 -> param_ok (PT (type_name_number s) []).
Proof.
  intros H9 H10. unfold param_ok. pose proof (type_name_number_range s) as Hr.
  simpl in Hr. intros Hc.
  repeat (destruct Hr as [E|Hr]; [rewrite <- E in *; simpl in Hc; try discriminate; try congruence|]); contradiction.
Qed.

Lemma sem_cond_printable modular module_ c :
  Forall (fun p => pd_container p = None ->
                   type_name_number (ttext (pd_type p)) <> 9 /\ type_name_number (ttext (pd_type p)) <> 10) (cd_params c) ->
  cond_printable (sem_cond modular module_ c).
Proof.
  intros Hp. unfold cond_printable, sem_cond. simpl. split; [reflexivity|].
  apply Forall_forall. intros q Hq. apply in_map_iff in Hq. destruct Hq as [p [<- Hin]]. simpl.
  rewrite Forall_forall in Hp. specialize (Hp p Hin). unfold ptype_of.
  destruct (pd_container p) as [ct|].
  - unfold param_ok. intros _. discriminate.
  - destruct (Hp eq_refl) as [H9 H10]. apply scalar_param_ok; assumption.
Qed.

(* C01, first clause: for every grammatical document in which nothing is declared twice, the model the
   listener builds is rendered successfully, with or without source information, directly or through JSON *)
Theorem parsed_model_prints src f :
  wf_file f -> distinct_decls f -> scalar_params f -> exists t, fst (print_model src (sem_file f)) = Ok t.
Proof.
  intros Hwf [Hrel _] Hsc. unfold wf_file in Hwf. unfold scalar_params in Hsc.
  assert (Hc : model_carriable (sem_file f) /\ Forall type_expressible (m_types (sem_file f))).
  { unfold model_carriable, sem_file. simpl. split; [split|].
    - apply Forall_forall. intros td Htd. apply in_map_iff in Htd. destruct Htd as [t [<- Ht]].
      rewrite Forall_forall in Hwf, Hrel. apply sem_type_carriable; auto.
    - apply Forall_forall. intros q Hq. apply in_map_iff in Hq. destruct Hq as [c [<- Hc]].
      rewrite Forall_forall in Hsc. apply sem_cond_printable. apply Hsc. exact Hc.
    - apply Forall_forall. intros td Htd. apply in_map_iff in Htd. destruct Htd as [t [<- Ht]].
      rewrite Forall_forall in Hwf, Hrel. apply sem_type_carriable; auto. }
  destruct Hc as [Hc He]. exact (proj1 (print_model_iff src (sem_file f) Hc) He).
Qed.

(* the JSON hop changes nothing on a parsed model: the listener already emits non-nil direct assignments (F1) *)
Lemma json_sem_elem e : json_userset (sem_elem e) = sem_elem e.
Proof.
  induction e as [rs | cu ts | nd first op rest IHf IHr] using relem_ind'; [reflexivity|destruct ts; reflexivity|].
  cbn [sem_elem]. assert (Hr : map json_userset (map sem_elem rest) = map sem_elem rest).
  { induction IHr as [|x l Hx _ IH]; simpl; [reflexivity|]. rewrite Hx, IH. reflexivity. }
  destruct op, (map sem_elem rest) as [|y [|z l]] eqn:El; simpl in *; rewrite ?IHf; try reflexivity;
    try (injection Hr as -> ->; reflexivity); try (injection Hr as ->; reflexivity);
    try (injection Hr as H1 H2 H3; rewrite H1, H2, H3; reflexivity).
Qed.

(* Proofs/StrategyProofs.v — the three weight strategies of weighted_graph.go as functions on weight maps:
   union/relation (max): a type is present iff some operand edge has it, with the largest weight;
   intersection (enforce type, after the repair F8): present iff every operand edge has it, largest weight;
   exclusion (mixed): present iff an edge other than the last one has it, the last edge only raises weights (C04). *)
From Verif Require Import Base.Str Base.Outcome Model.Ast Model.Printer Model.WGraph Model.WWeights.

(* ---- weight maps as finite functions ---- *)
Lemma wget_wset_same k v w : wget k (wset k v w) = Some v.
Proof. unfold wget, wset. induction w as [|[k' v'] w IH]; simpl; [rewrite str_eqb_refl; reflexivity|]. destruct (str_eqb k k') eqn:E; simpl; rewrite ?E, ?str_eqb_refl; auto. Qed.

Lemma wget_wset_other k k' v w : k' <> k -> wget k' (wset k v w) = wget k' w.
Proof.
  intros Hn. unfold wget, wset. induction w as [|[k0 v0] w IH]; simpl.
  - destruct (str_eqb_spec k' k); [contradiction|reflexivity].
  - destruct (str_eqb_spec k k0) as [->|Hk]; simpl.
    + destruct (str_eqb_spec k' k0); [contradiction|reflexivity].
    + destruct (str_eqb k' k0); auto.
Qed.

Definition omax (a b : option N) : option N :=
  match a, b with
  | Some x, Some y => Some (N.max x y)
  | Some x, None => Some x
  | None, b => b
  end.

Lemma wget_wmax k k' v w : wget k' (wmax k v w) = if str_eqb k' k then omax (wget k w) (Some v) else wget k' w.
Proof.
  unfold wmax. destruct (str_eqb_spec k' k) as [->|Hn].
  - destruct (wget k w) eqn:E; rewrite wget_wset_same; reflexivity.
  - destruct (wget k w); apply wget_wset_other; exact Hn.
Qed.

Lemma omax_assoc a b c : omax (omax a b) c = omax a (omax b c).
Proof. destruct a, b, c; simpl; try reflexivity. rewrite N.max_assoc. reflexivity. Qed.
Lemma omax_none_r a : omax a None = a. Proof. destruct a; reflexivity. Qed.

(* folding one edge's entries into the accumulator *)
Definition add_entries (w : wmap) (l : wmap) : wmap := fold_left (fun w kv => wmax (fst kv) (snd kv) w) l w.

Lemma assoc_notin {A} k (l : list (str * A)) : ~ In k (keys l) -> assoc k l = None.
Proof.
  induction l as [|[k1 v1] l IH]; simpl; intros H; [reflexivity|].
  destruct (str_eqb_spec k k1) as [->|_]; [exfalso; apply H; left; reflexivity|]. apply IH. tauto.
Qed.

Lemma wget_add_entries l : forall w k, NoDup (keys l) -> wget k (add_entries w l) = omax (wget k w) (wget k l).
Proof.
  induction l as [|[k0 v0] l IH]; intros w k Hnd; [simpl; rewrite omax_none_r; reflexivity|].
  inversion Hnd as [|? ? Hnotin Hnd']; subst.
  change (add_entries w ((k0, v0) :: l)) with (add_entries (wmax k0 v0 w) l).
  rewrite IH by exact Hnd'. rewrite wget_wmax.
  change (wget k ((k0, v0) :: l)) with (if str_eqb k k0 then Some v0 else wget k l).
  destruct (str_eqb_spec k k0) as [->|Hn]; [|reflexivity].
  unfold wget at 2. rewrite (assoc_notin k0 l Hnotin). rewrite omax_none_r. reflexivity.
Qed.

(* ---- union / plain relation: the max strategy ---- *)
Definition max_weights (ws : list wmap) : wmap := fold_left add_entries ws [].
Definition omax_all (k : str) (ws : list wmap) : option N := fold_left (fun acc w => omax acc (wget k w)) ws None.

Lemma max_weights_gen ws : forall w0 k, Forall (fun w => NoDup (keys w)) ws ->
  wget k (fold_left add_entries ws w0) = fold_left (fun acc w => omax acc (wget k w)) ws (wget k w0).
Proof.
  induction ws as [|w ws IH]; intros w0 k H; simpl; [reflexivity|].
  inversion H; subst. rewrite IH by assumption. rewrite wget_add_entries by assumption. reflexivity.
Qed.

(* a type is in the result iff some operand has it, and then with the largest of their weights *)
Theorem max_strategy_spec ws k : Forall (fun w => NoDup (keys w)) ws -> wget k (max_weights ws) = omax_all k ws.
Proof. intros H. unfold max_weights, omax_all. rewrite max_weights_gen by exact H. reflexivity. Qed.

Lemma fold_left_map {A B C} (f : A -> B -> A) (g : C -> B) l : forall a, fold_left f (map g l) a = fold_left (fun a x => f a (g x)) l a.
Proof. induction l as [|x l IH]; intros; simpl; auto. Qed.

(* what max_strategy stores is max_weights of the node's edge weights *)
Theorem max_strategy_computes s id s' :
  max_strategy s id = Ok s' -> edges_from (ws_g s) id <> [] ->
  s' = upd_node s id (fun n => with_weights n (max_weights (map e_weights (edges_from (ws_g s) id)))).
Proof.
  unfold max_strategy. intros H Hne. destruct (edges_from (ws_g s) id) as [|e es] eqn:E; [contradiction|].
  inversion H; subst. f_equal. unfold max_weights. rewrite fold_left_map. reflexivity.
Qed.

(* ---- intersection: enforce-type strategy (only the first operand initialises the set) ---- *)
Definition narrow (w ew : wmap) : wmap :=
  fold_left (fun acc kv => match wget (fst kv) ew with
                           | None => wdel (fst kv) acc
                           | Some v => wset (fst kv) (N.max (snd kv) v) acc
                           end) w w.
Definition enforce_weights (first : wmap) (rest : list wmap) : wmap :=
  fold_left narrow rest (fold_left (fun w kv => wset (fst kv) (snd kv) w) first []).

Lemma wget_wdel_same k w : wget k (wdel k w) = None.
Proof.
  unfold wget, wdel. induction w as [|[k' v'] w IH]; simpl; [reflexivity|].
  destruct (str_eqb_spec k' k) as [->|Hn]; simpl; [exact IH|].
  destruct (str_eqb_spec k k'); [subst; contradiction|exact IH].
Qed.
Lemma wget_wdel_other k k' w : k' <> k -> wget k' (wdel k w) = wget k' w.
Proof.
  intros Hn. unfold wget, wdel. induction w as [|[k0 v0] w IH]; simpl; [reflexivity|].
  destruct (str_eqb_spec k0 k) as [->|Hk]; simpl.
  - destruct (str_eqb_spec k' k); [contradiction|exact IH].
  - destruct (str_eqb k' k0); auto.
Qed.

Definition oand (a b : option N) : option N :=
  match a, b with Some x, Some y => Some (N.max x y) | _, _ => None end.

(* one narrowing step: a key survives iff the next operand has it too *)
Lemma narrow_gen l : forall acc ew k, NoDup (keys l) ->
  wget k (fold_left (fun acc kv => match wget (fst kv) ew with
                                    | None => wdel (fst kv) acc
                                    | Some v => wset (fst kv) (N.max (snd kv) v) acc
                                    end) l acc)
  = match wget k l with
    | Some x => oand (Some x) (wget k ew)
    | None => wget k acc
    end.
Proof.
  induction l as [|[k0 v0] l IH]; intros acc ew k Hnd; [reflexivity|].
  inversion Hnd as [|? ? Hnotin Hnd']; subst. cbn [fold_left fst snd]. rewrite IH by exact Hnd'.
  change (wget k ((k0, v0) :: l)) with (if str_eqb k k0 then Some v0 else wget k l).
  destruct (str_eqb_spec k k0) as [->|Hn].
  - unfold wget at 1. rewrite (assoc_notin k0 l Hnotin).
    destruct (wget k0 ew) eqn:E; simpl; [apply wget_wset_same|apply wget_wdel_same].
  - destruct (wget k l); [reflexivity|].
    destruct (wget k0 ew); [apply wget_wset_other|apply wget_wdel_other]; exact Hn.
Qed.

Theorem narrow_spec w ew k : NoDup (keys w) -> wget k (narrow w ew) = oand (wget k w) (wget k ew).
Proof.
  intros Hnd. unfold narrow. rewrite narrow_gen by exact Hnd.
  destruct (wget k w); reflexivity.
Qed.

Lemma keys_wset k v w : keys (wset k v w) = if mem_str k (keys w) then keys w else keys w ++ [k].
Proof.
  unfold wset. induction w as [|[k' v'] w IH]; simpl; [reflexivity|].
  destruct (str_eqb k k') eqn:E; simpl; [apply str_eqb_eq in E; subst; reflexivity|].
  rewrite IH. destruct (mem_str k (keys w)); reflexivity.
Qed.

Lemma mem_str_in k l : mem_str k l = true <-> In k l.
Proof.
  induction l as [|x l IH]; simpl; [split; [discriminate|tauto]|].
  destruct (str_eqb_spec k x) as [->|Hn]; simpl; [tauto|]. rewrite IH. split; [tauto|intros [E|H]; [congruence|exact H]].
Qed.

Lemma NoDup_app_single_str (l : list str) x : NoDup l -> ~ In x l -> NoDup (l ++ [x]).
Proof.
  induction l as [|y l IH]; simpl; intros Hnd Hn; [constructor; auto; constructor|].
  inversion Hnd; subst. constructor.
  - intros Hin. apply in_app_or in Hin. destruct Hin as [Hin|[E|[]]]; [contradiction|]. apply Hn. left; auto.
  - apply IH; auto.
Qed.

Lemma NoDup_wset k v w : NoDup (keys w) -> NoDup (keys (wset k v w)).
Proof.
  intros H. rewrite keys_wset. destruct (mem_str k (keys w)) eqn:E; [exact H|].
  apply NoDup_app_single_str; auto. intros Hin. apply mem_str_in in Hin. congruence.
Qed.

Lemma keys_wdel k w : keys (wdel k w) = filter (fun x => negb (str_eqb x k)) (keys w).
Proof. unfold wdel. induction w as [|[k' v'] w IH]; simpl; [reflexivity|]. destruct (negb (str_eqb k' k)); simpl; rewrite IH; reflexivity. Qed.

Lemma NoDup_filter {A} (f : A -> bool) l : NoDup l -> NoDup (filter f l).
Proof.
  induction 1 as [|x l Hx _ IH]; simpl; [constructor|]. destruct (f x); [|exact IH].
  constructor; [|exact IH]. intros Hin. apply filter_In in Hin. tauto.
Qed.

Lemma NoDup_wdel k w : NoDup (keys w) -> NoDup (keys (wdel k w)).
Proof. intros H. rewrite keys_wdel. apply NoDup_filter. exact H. Qed.

Lemma NoDup_narrow w ew : NoDup (keys w) -> NoDup (keys (narrow w ew)).
Proof.
  intros H. unfold narrow. generalize w at 1 as l. intros l. revert w H.
  induction l as [|[k0 v0] l IH]; intros w H; simpl; [exact H|].
  apply IH. destruct (wget k0 ew); [apply NoDup_wset|apply NoDup_wdel]; exact H.
Qed.

Definition copy_weights (first : wmap) : wmap := fold_left (fun w kv => wset (fst kv) (snd kv) w) first [].

Lemma copy_gen l : forall acc k, NoDup (keys l) ->
  wget k (fold_left (fun w kv => wset (fst kv) (snd kv) w) l acc) = match wget k l with Some v => Some v | None => wget k acc end.
Proof.
  induction l as [|[k0 v0] l IH]; intros acc k Hnd; [reflexivity|].
  inversion Hnd as [|? ? Hnotin Hnd']; subst. cbn [fold_left fst snd]. rewrite IH by exact Hnd'.
  change (wget k ((k0, v0) :: l)) with (if str_eqb k k0 then Some v0 else wget k l).
  destruct (str_eqb_spec k k0) as [->|Hn].
  - unfold wget at 1. rewrite (assoc_notin k0 l Hnotin). apply wget_wset_same.
  - destruct (wget k l); [reflexivity|]. apply wget_wset_other. exact Hn.
Qed.

Lemma copy_spec first k : NoDup (keys first) -> wget k (copy_weights first) = wget k first.
Proof. intros H. unfold copy_weights. rewrite copy_gen by exact H. destruct (wget k first); reflexivity. Qed.

Lemma NoDup_copy first : NoDup (keys (copy_weights first)).
Proof.
  unfold copy_weights. assert (G : forall l acc, NoDup (keys acc) -> NoDup (keys (fold_left (fun w kv => wset (fst kv) (snd kv) w) l acc))).
  { induction l as [|kv l IH]; intros acc H; simpl; [exact H|]. apply IH. apply NoDup_wset. exact H. }
  apply G. constructor.
Qed.

(* a type is in the intersection iff every operand edge has it; its weight is the largest of theirs *)
Theorem enforce_strategy_spec first rest k :
  NoDup (keys first) ->
  wget k (enforce_weights first rest) = fold_left (fun acc w => oand acc (wget k w)) rest (wget k first).
Proof.
  intros Hf. unfold enforce_weights. fold (copy_weights first).
  rewrite <- (copy_spec first k Hf).
  generalize (NoDup_copy first). generalize (copy_weights first). clear Hf.
  induction rest as [|w rest IH]; intros acc Hacc; simpl; [reflexivity|].
  rewrite IH by (apply NoDup_narrow; exact Hacc). rewrite narrow_spec by exact Hacc. reflexivity.
Qed.

Lemma oand_none_absorbs rest k : fold_left (fun acc w => oand acc (wget k w)) rest None = None.
Proof. induction rest as [|w rest IH]; simpl; auto. Qed.

(* in particular: once an operand lacks the type, no later operand can bring it back (the defect F8 did) *)
Corollary enforce_no_restart first rest1 w rest2 k :
  NoDup (keys first) -> wget k w = None -> wget k (enforce_weights first (rest1 ++ w :: rest2)) = None.
Proof.
  intros Hf Hw. rewrite enforce_strategy_spec by exact Hf. rewrite fold_left_app. simpl. rewrite Hw.
  destruct (fold_left _ rest1 (wget k first)); simpl; apply oand_none_absorbs.
Qed.

(* what enforce_strategy stores *)
Theorem enforce_strategy_computes s id s' first rest :
  edges_from (ws_g s) id = first :: rest -> enforce_strategy s id = Ok s' ->
  s' = upd_node s id (fun n => with_weights n (enforce_weights (e_weights first) (map e_weights rest))).
Proof.
  intros E H. unfold enforce_strategy in H. rewrite E in H.
  set (w := fold_left _ rest _) in H.
  assert (Ew : w = enforce_weights (e_weights first) (map e_weights rest)).
  { unfold w, enforce_weights. rewrite fold_left_map. reflexivity. }
  destruct w eqn:E2; [discriminate|]. inversion H; subst. rewrite <- Ew. reflexivity.
Qed.

(* ---- exclusion: mixed strategy ---- *)
Definition raise_only (w : wmap) (l : wmap) : wmap :=
  fold_left (fun w kv => match wget (fst kv) w with None => w | Some x => wset (fst kv) (N.max x (snd kv)) w end) l w.

Definition mixed_step (last : nat) (acc : wmap * nat) (ew : wmap) : wmap * nat :=
  let '(w, idx) := acc in
  (fold_left (fun w kv => match wget (fst kv) w with
                          | None => if (idx =? last)%nat then w else wset (fst kv) (snd kv) w
                          | Some x => wset (fst kv) (N.max x (snd kv)) w
                          end) ew w, S idx).

Lemma fold_left_ext2 {A B} (f g : A -> B -> A) l : (forall a x, f a x = g a x) -> forall a, fold_left f l a = fold_left g l a.
Proof. intros H. induction l as [|x l IH]; intros a; simpl; [reflexivity|]. rewrite H. apply IH. Qed.

Lemma mixed_step_before last w idx ew : (idx <> last)%nat -> mixed_step last (w, idx) ew = (add_entries w ew, S idx).
Proof.
  intros Hn. unfold mixed_step, add_entries. f_equal. apply fold_left_ext2.
  intros a kv. destruct (Nat.eqb_spec idx last); [contradiction|]. unfold wmax. destruct (wget (fst kv) a); reflexivity.
Qed.

Lemma mixed_step_last last w ew : mixed_step last (w, last) ew = (raise_only w ew, S last).
Proof.
  unfold mixed_step, raise_only. f_equal. apply fold_left_ext2.
  intros a kv. rewrite Nat.eqb_refl. reflexivity.
Qed.

Lemma wget_raise_only l : forall w k, NoDup (keys l) ->
  wget k (raise_only w l) = match wget k w with Some x => omax (Some x) (wget k l) | None => None end.
Proof.
  induction l as [|[k0 v0] l IH]; intros w k Hnd; [simpl; destruct (wget k w); reflexivity|].
  inversion Hnd as [|? ? Hnotin Hnd']; subst. unfold raise_only in *. cbn [fold_left fst snd]. rewrite IH by exact Hnd'.
  change (wget k ((k0, v0) :: l)) with (if str_eqb k k0 then Some v0 else wget k l).
  destruct (str_eqb_spec k k0) as [->|Hn].
  - assert (El : wget k0 l = None) by (unfold wget; apply assoc_notin; exact Hnotin). rewrite El.
    destruct (wget k0 w) eqn:E; [rewrite wget_wset_same; reflexivity|rewrite E; reflexivity].
  - destruct (wget k0 w) eqn:E; [rewrite wget_wset_other by exact Hn|]; reflexivity.
Qed.

(* base operands first (max), the last edge can only raise weights of types already present *)
Theorem mixed_fold init last_w :
  fst (fold_left (mixed_step (length init)) (init ++ [last_w]) ([], 0%nat)) = raise_only (max_weights init) last_w.
Proof.
  rewrite fold_left_app.
  assert (G : forall pre (w : list (str * N)) idx, (forall j, (idx <= j < idx + length pre)%nat -> j <> length init) ->
               fold_left (mixed_step (length init)) pre (w, idx) = (fold_left add_entries pre w, (idx + length pre)%nat)).
  { induction pre as [|e pre IH]; intros w idx Hj; cbn [fold_left length].
    - f_equal. lia.
    - rewrite mixed_step_before by (apply Hj; cbn [length]; lia).
      rewrite IH; [f_equal; lia|]. intros j Hjr. apply Hj. cbn [length]. lia. }
  pose proof (G init [] 0%nat) as G0. rewrite Nat.add_0_l in G0.
  etransitivity; [apply f_equal; apply f_equal; apply G0; intros j Hj; lia|].
  cbn [fold_left]. rewrite mixed_step_last. reflexivity.
Qed.

Theorem mixed_strategy_spec init last_w k :
  Forall (fun w => NoDup (keys w)) init -> NoDup (keys last_w) ->
  wget k (raise_only (max_weights init) last_w) =
  match omax_all k init with Some x => omax (Some x) (wget k last_w) | None => None end.
Proof. intros Hi Hl. rewrite wget_raise_only by exact Hl. rewrite max_strategy_spec by exact Hi. reflexivity. Qed.

(* what mixed_strategy stores, for a node whose edges are init ++ [last] *)
Theorem mixed_strategy_computes s id s' init last_e :
  edges_from (ws_g s) id = init ++ [last_e] -> mixed_strategy s id = Ok s' ->
  s' = upd_node s id (fun n => with_weights n (raise_only (max_weights (map e_weights init)) (e_weights last_e))).
Proof.
  intros E H. unfold mixed_strategy in H. rewrite E in H.
  destruct (init ++ [last_e]) as [|e0 es0] eqn:E0; [destruct init; discriminate|]. rewrite <- E0 in H.
  inversion H; subst. f_equal.
  assert (Hl : pred (length (init ++ [last_e])) = length (map e_weights init)).
  { rewrite app_length, map_length. simpl. lia. }
  rewrite Hl. rewrite <- (mixed_fold (map e_weights init) (e_weights last_e)).
  replace (map e_weights init ++ [e_weights last_e]) with (map e_weights (init ++ [last_e])) by (rewrite map_app; reflexivity).
  rewrite fold_left_map. reflexivity.
Qed.

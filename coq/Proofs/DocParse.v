(* Proofs/DocParse.v — the parser model returns the syntax tree of a whole (condition-free, model-header) document for
   its canonical token sequence: header, type blocks, relation lines, final line break. *)
From Coq Require Import Lia.
From Verif Require Import Base.Str Model.Token Model.Parser Spec.Sem Proofs.ParserComplete Proofs.DeclRoundTrip.

Definition nl : tok := mk NEWLINE.

Definition decl_ok (r : reldecl) : Prop :=
  ident (rl_name r) /\ wf_rdef (rl_def r) = true /\ toks_ok (rd_first (rl_def r)) /\ toks_ok_all (rd_rest (rl_def r)).

Fixpoint toks_rels (rs : list reldecl) : list tok :=
  match rs with
  | [] => []
  | r :: rs' => toks_decl nl (rl_name r) (rl_def r) ++ toks_rels rs'
  end.

(* what may follow a list of relation lines: not a blank, and not another relation line *)
Definition ends_rels (k : list tok) : Prop := stops k /\ starts_with [DEFINE] k = false.

Lemma stops_nl l : stops (nl :: l).
Proof. unfold stops. cbn. discriminate. Qed.

Lemma starts_with_decl r l : starts_with [DEFINE] (toks_decl nl (rl_name r) (rl_def r) ++ l) = true.
Proof. reflexivity. Qed.

Lemma p_reldecls_complete : forall rs fuel k,
  (length rs < fuel)%nat -> Forall decl_ok rs -> ends_rels k ->
  p_reldecls fuel (toks_rels rs ++ k) = Some (rs, k).
Proof.
  induction rs as [|r rs IH]; intros fuel k Hf Hok [Hk1 Hk2]; (destruct fuel as [|f]; [cbn in Hf; lia|]); cbn [p_reldecls toks_rels app].
  - rewrite Hk2. reflexivity.
  - rewrite <- app_assoc. rewrite starts_with_decl. inversion Hok as [|? ? (Hn & Hwf & O1 & O2) Hok']; subst.
    assert (Hstop : stops (toks_rels rs ++ k)) by (destruct rs; [exact Hk1|apply stops_nl]).
    rewrite (p_reldecl_complete nl (rl_name r) (rl_def r) _ eq_refl Hn Hwf O1 O2 Hstop).
    rewrite (IH f k ltac:(cbn in Hf; lia) Hok' (conj Hk1 Hk2)). destruct r as [nm d]. reflexivity.
Qed.

Lemma toks_rels_length rs : (length rs <= length (toks_rels rs))%nat.
Proof. induction rs as [|r rs IH]; [cbn; lia|]. cbn [toks_rels toks_decl length app]. rewrite app_length. cbn [length]. lia. Qed.

(* ---- a type block ---- *)
Definition type_ok (t : typedecl) : Prop := ty_extend t = false /\ ident (ty_name t) /\ Forall decl_ok (ty_rels t).

Definition toks_type (t : typedecl) : list tok :=
  nl :: mk TYPE :: mk WHITESPACE :: ty_name t ::
  match ty_rels t with
  | [] => []
  | rs => nl :: mk RELATIONS :: toks_rels rs
  end.

Fixpoint toks_types (ts : list typedecl) : list tok :=
  match ts with [] => [] | t :: r => toks_type t ++ toks_types r end.

(* what may follow a type block: not a blank, not the word "relations" on a new line, not a relation line *)
Definition ends_type (k : list tok) : Prop :=
  stops k /\ is_tk NEWLINE k && is_tk2 RELATIONS k = false /\ starts_with [DEFINE] k = false.

Lemma p_typedef_complete t k : type_ok t -> ends_type k -> p_typedef (toks_type t ++ k) = Some (t, k).
Proof.
  intros (He & Hn & Hrs) (Hstop & K12 & K3).
  unfold p_typedef, toks_type, lead_in. unfold is_tk at 1, is_tk2 at 1, hd_tk, hd2_tk. cbn [app tl nl mk tk].
  change (tk_eqb NEWLINE NEWLINE) with true. change (tk_eqb TYPE HASH) with false. cbv iota. cbn [option_map fst].
  unfold is_tk at 1. cbn [hd_tk mk tk]. change (tk_eqb TYPE EXTEND) with false. cbv iota.
  rewrite expect_mk, expect_mk. unfold expect_p. red in Hn. rewrite Hn.
  destruct t as [ext nm rs]. cbn [ty_extend ty_name ty_rels] in *. subst ext.
  destruct rs as [|r rs].
  - cbn [app]. rewrite K12. reflexivity.
  - cbn [app]. unfold is_tk, is_tk2. cbn [hd_tk hd2_tk nl mk tk]. change (tk_eqb NEWLINE NEWLINE) with true. change (tk_eqb RELATIONS RELATIONS) with true.
    cbn [andb tl toks_rels]. cbv iota. inversion Hrs as [|? ? (Hrn & Hwf & O1 & O2) Hrs']; subst.
    rewrite <- app_assoc.
    assert (Hstop' : stops (toks_rels rs ++ k)) by (destruct rs; [exact Hstop|apply stops_nl]).
    rewrite (p_reldecl_complete nl (rl_name r) (rl_def r) _ eq_refl Hrn Hwf O1 O2 Hstop').
    rewrite (p_reldecls_complete rs _ k); [destruct r; reflexivity| |exact Hrs'|split; [exact Hstop|exact K3]].
    rewrite app_length. pose proof (toks_rels_length rs). lia.
Qed.

(* what may follow the type blocks: a line break that introduces nothing *)
Definition ends_types (k : list tok) : Prop := ends_type k /\ starts_with [EXTEND; TYPE] k = false.

Lemma ends_type_type t l : ends_type (toks_type t ++ l).
Proof. repeat split. unfold stops. cbn. discriminate. Qed.

Lemma p_typedefs_complete : forall ts fuel k,
  (length ts < fuel)%nat -> Forall type_ok ts -> ends_types k ->
  p_typedefs fuel (toks_types ts ++ k) = Some (ts, k).
Proof.
  induction ts as [|t ts IH]; intros fuel k Hf Hok [Hk1 Hk2]; (destruct fuel as [|f]; [cbn in Hf; lia|]); cbn [p_typedefs toks_types app].
  - rewrite Hk2. reflexivity.
  - rewrite <- app_assoc. assert (Hs : starts_with [EXTEND; TYPE] (toks_type t ++ toks_types ts ++ k) = true) by reflexivity. rewrite Hs.
    inversion Hok as [|? ? Ht Hok']; subst.
    assert (He : ends_type (toks_types ts ++ k)) by (destruct ts; [exact Hk1|cbn [toks_types]; rewrite <- app_assoc; apply ends_type_type]).
    rewrite (p_typedef_complete t _ Ht He). rewrite (IH f k ltac:(cbn in Hf; lia) Hok' (conj Hk1 Hk2)). reflexivity.
Qed.

Lemma toks_types_length ts : (length ts <= length (toks_types ts))%nat.
Proof. induction ts as [|t ts IH]; [cbn; lia|]. cbn [toks_types toks_type length app]. rewrite app_length. cbn [length]. lia. Qed.

(* ---- the document: "model", schema version, type blocks, and then either nothing (the pre-pass strips the closing
        line feed) or a final line break ---- *)
Definition toks_doc_end (v : tok) (ts : list typedecl) (e : list tok) : list tok :=
  mk MODEL :: nl :: mk SCHEMA :: mk WHITESPACE :: v :: toks_types ts ++ e.
Definition toks_doc (v : tok) (ts : list typedecl) : list tok := toks_doc_end v ts [nl].

Theorem parse_complete_end v ts e :
  tk v = SCHEMA_VERSION -> Forall type_ok ts -> e = [] \/ e = [nl] ->
  parse (toks_doc_end v ts e) = Some {| f_header := HModel v; f_types := ts; f_conds := [] |}.
Proof.
  intros Hv Hts He. unfold parse, toks_doc_end.
  rewrite (skip_opt_no _ WHITESPACE) by reflexivity. rewrite (skip_opt_no _ NEWLINE) by reflexivity.
  unfold p_header. unfold is_tk at 1. cbn [hd_tk mk tk]. change (tk_eqb MODEL HASH) with false. cbv iota. cbn [fst].
  unfold is_tk at 1. cbn [hd_tk mk tk]. change (tk_eqb MODEL MODEL) with true. cbv iota. cbn [tl]. unfold nl at 1.
  rewrite !expect_mk. unfold expect at 1. rewrite Hv. change (tk_eqb SCHEMA_VERSION SCHEMA_VERSION) with true. cbv iota.
  assert (Hends : ends_types e) by (destruct He as [-> | ->]; repeat split; unfold stops; cbn; discriminate).
  assert (Het : ends_type (toks_types ts ++ e)) by (destruct ts; [apply Hends|cbn [toks_types]; rewrite <- app_assoc; apply ends_type_type]).
  rewrite (skip_opt_no _ WHITESPACE) by (apply stops_not_ws; apply Het).
  assert (Hnd : skip_dup_newline (toks_types ts ++ e) = toks_types ts ++ e).
  { unfold skip_dup_newline. destruct ts as [|t ts']; [destruct He as [-> | ->]; reflexivity|reflexivity]. }
  rewrite Hnd. rewrite (p_typedefs_complete ts _ e); [|rewrite app_length; pose proof (toks_types_length ts); cbn; lia|exact Hts|exact Hends].
  destruct He as [-> | ->]; reflexivity.
Qed.

Corollary parse_complete v ts :
  tk v = SCHEMA_VERSION -> Forall type_ok ts ->
  parse (toks_doc v ts) = Some {| f_header := HModel v; f_types := ts; f_conds := [] |}.
Proof. intros Hv Hts. apply parse_complete_end; [exact Hv|exact Hts|right; reflexivity]. Qed.

(* Extraction of the validator family (ops 100-199).  ExtrOcamlBasic only; no Extract Constant. *)
From Coq Require Import ExtrOcamlBasic.
From Verif Require Import Base.Str Base.Sx Model.WireValidate.
Extraction Language OCaml.
Definition dispatch (req : sx) : sx :=
  match req with
  | SL (SA op :: args) =>
      match dispatch_validate op args with Some r => r | None => sx_bad (lit "bad request") end
  | _ => sx_bad (lit "not a request")
  end.
Extraction "fgamodel_validate.ml" dispatch.

(* Extraction of the layout family (op 209): the every-layout theorem of C03 evaluated on a model.  It is a family of its own
   because it is the only one that takes definitions from proof files (Proofs/DocLayout.layout_text, layout_okb, built from the
   canonical token lists the theorems are about): when a proof file does not compile, this family is unavailable and the
   transformer family still runs.  ExtrOcamlBasic only; no Extract Constant. *)
From Coq Require Import ExtrOcamlBasic.
From Verif Require Import Base.Str Base.Sx Model.Ast Model.WireModel Spec.DocDomain Proofs.DocLayout.
Extraction Language OCaml.
(* (209 w n m) -> (applies?, the document in the chosen layout, the model the theorem says it denotes) *)
Definition dispatch (req : sx) : sx :=
  match req with
  | SL [SA 209; w; n; m] =>
      match un_str w, un_str n, un_model m with
      | Some w, Some n, Some m =>
          SL [SA (if layout_okb w n m then 1 else 0); sx_str (layout_text w n m ++ [10]); sx_model (canonical m)]
      | _, _, _ => sx_bad (lit "bad request")
      end
  | _ => sx_bad (lit "not a request")
  end.
Extraction "fgamodel_layout.ml" dispatch.

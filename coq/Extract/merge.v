(* Extraction of the merge family (ops 400-499).  ExtrOcamlBasic only; no Extract Constant. *)
From Coq Require Import ExtrOcamlBasic.
From Verif Require Import Base.Str Base.Sx Model.WireMerge.
Extraction Language OCaml.
Definition dispatch (req : sx) : sx :=
  match req with
  | SL (SA op :: args) =>
      match dispatch_merge op args with Some r => r | None => sx_bad (lit "bad request") end
  | _ => sx_bad (lit "not a request")
  end.
Extraction "fgamodel_merge.ml" dispatch.

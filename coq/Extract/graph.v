(* Extraction of the graph family (ops 500-699).  ExtrOcamlBasic only; no Extract Constant. *)
From Coq Require Import ExtrOcamlBasic.
From Verif Require Import Base.Str Base.Sx Model.WireGraph.
Extraction Language OCaml.
Definition dispatch (req : sx) : sx :=
  match req with
  | SL (SA op :: args) =>
      match dispatch_graph op args with Some r => r | None => sx_bad (lit "bad request") end
  | _ => sx_bad (lit "not a request")
  end.
Extraction "fgamodel_graph.ml" dispatch.

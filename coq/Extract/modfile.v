(* Extraction of the fga.mod family (ops 300-399).  ExtrOcamlBasic only; no Extract Constant. *)
From Coq Require Import ExtrOcamlBasic.
From Verif Require Import Base.Str Base.Sx Model.WireModFile.
Extraction Language OCaml.
Definition dispatch (req : sx) : sx :=
  match req with
  | SL (SA op :: args) =>
      match dispatch_modfile op args with Some r => r | None => sx_bad (lit "bad request") end
  | _ => sx_bad (lit "not a request")
  end.
Extraction "fgamodel_modfile.ml" dispatch.

(* Extraction of the transformer family (ops 200-299).  ExtrOcamlBasic only; no Extract Constant. *)
From Coq Require Import ExtrOcamlBasic.
From Verif Require Import Base.Str Base.Sx Model.WireModel.
Extraction Language OCaml.
Definition dispatch (req : sx) : sx :=
  match req with
  | SL (SA op :: args) =>
      match dispatch_transform op args with Some r => r | None => sx_bad (lit "bad request") end
  | _ => sx_bad (lit "not a request")
  end.
Extraction "fgamodel_transform.ml" dispatch.

"""C12 — module merge outcome is deterministic and independent of file order."""
import itertools
import json

from lib import core, sexp, dslgen, modgen, mergecheck
from lib.dslgen import S, T

FAMILIES = ("merge",)


def describe(rendered):
    return [{"name": n, "contents": t} for n, t in rendered]


def run(ctx):
    ctx.rule = ("generated sets of module files as in C07 (one injected conflict, several simultaneous conflicts, or none); "
                "each list merged 25 (quick) / 200 (thorough) times in one process and all results compared; all "
                "permutations of lists of up to 3 (quick) / 4 (thorough) files, 6 random ones of longer lists; "
                "non-trivial = at least two files with extensions; distinct by text")
    ctx.assumptions = ["Go map iteration order cannot be driven from outside: repeated invocation samples it; the model (after "
                       "the repair F5) has no iteration-order parameter at all, which the correspondence checks per permutation"]
    rng = ctx.rng
    n = 60 if ctx.tier == "quick" else 1500
    repeat = 25 if ctx.tier == "quick" else 200
    maxperm = 3 if ctx.tier == "quick" else 4
    base = []
    kinds = [None, None] + modgen.CONFLICTS
    # the kinds with two errors for one file, where a tie in an ordering shows, more often than the others
    # (and two entries of the list under one file name, where keying by name shows)
    tie_prone = ["case-twin-conditions", "case-twin-relations", "same-name-files-ok"]
    n_tie = 12 if ctx.tier == "quick" else 150
    for i in range(n + n_tie):
        # every kind of the catalogue three times before anything is left to chance (a kind added to the catalogue must not
        # push another one out of a run of 60 sets)
        kind = kinds[i % len(kinds)] if i < 3 * len(kinds) else (rng.choice(kinds) if i < n else tie_prone[i % 3])
        files, inj = modgen.gen_set(rng, kind)
        if kind and inj is None:
            for _ in range(4):      # no site for this kind in the set drawn: draw again
                files, inj = modgen.gen_set(rng, kind)
                if inj is not None:
                    break
        # several simultaneous conflicts
        if rng.random() < 0.35:
            for _ in range(rng.choice([1, 2])):
                modgen.inject(rng, files, [d[1] for f in files for d in f["decls"] if d[0] == "type"], [], rng.choice(modgen.CONFLICTS[:6]))
        rendered = [(f["name"], modgen.render(rng, f)[0]) for f in files]
        base.append((files, rendered))
    # 1. determinism under repetition
    res = mergecheck.run_sets(ctx, [r for _, r in base], "repeat", repeat=repeat)
    for (files, rendered), r in zip(base, res):
        if r[0] is None:
            continue
        runs = r[0]
        nt = sum(1 for f in files if any(d[0] == "extend" for d in f["decls"])) >= 2
        ctx.note_case(json.dumps(rendered), nt)
        distinct = []
        for x in runs:
            if x not in distinct:
                distinct.append(x)
        if len(distinct) > 1:
            ctx.violation("nondeterministic", {"files": describe(rendered), "why": "%d different outcomes in %d invocations on the same list" % (len(distinct), len(runs)),
                                               "outcomes": [d[:2] for d in distinct[:3]]})
        elif len(ctx.samples) < 3 and runs[0][0] == "err" and len(runs[0][1]) > 1:
            ctx.sample({"files": describe(rendered), "errors": runs[0][1]})
    # 2. permutations of the list
    perm_sets = []
    owner = []
    for k, (files, rendered) in enumerate(base):
        if len(rendered) < 2:
            continue
        if len(rendered) <= maxperm:
            perms = list(itertools.permutations(range(len(rendered))))[1:]
        else:
            perms = []
            for _ in range(6):
                p = list(range(len(rendered)))
                rng.shuffle(p)
                perms.append(tuple(p))
        for p in perms:
            perm_sets.append([rendered[i] for i in p])
            owner.append(k)
    pres = mergecheck.run_sets(ctx, perm_sets, "perm")
    mergecheck.coq_spec_check(ctx, perm_sets, pres)
    ctx.extra["permuted_lists"] = len(perm_sets)
    for k, ps, r in zip(owner, perm_sets, pres):
        if r[0] is None or res[k][0] is None:
            continue
        a = res[k][0][0]
        b = r[0][0]
        if a[0] != b[0]:
            ctx.violation("order-changes-verdict", {"files": describe(base[k][1]), "permuted": describe(ps),
                                                    "why": "permuting the list of files changes whether the merge succeeds",
                                                    "original": a[:2], "permuted_result": b[:2]})
        elif a[0] == "ok":
            ma, mb = a[1], b[1]
            if ma[0] != mb[0] or sorted(ma[1]) != sorted(mb[1]) or ma[2] != mb[2]:
                ctx.violation("order-changes-model", {"files": describe(base[k][1]), "permuted": describe(ps),
                                                      "why": "permuting the list of files changes more than the order of the type definitions"})


def replay(ctx, data):
    d = data["detail"]
    if "files" not in d:
        print(json.dumps(d, indent=1)[:4000])
        return 1
    for key in ("files", "permuted"):
        if key in d:
            rendered = [(f["name"], f["contents"]) for f in d[key]]
            r = mergecheck.run_sets(ctx, [rendered], "replay", repeat=50)
            outs = []
            for x in r[0][0]:
                if x not in outs:
                    outs.append(x)
            print(key, "distinct outcomes in 50 runs:", len(outs))
            print(json.dumps(outs[0])[:2500])
    return 1 if ctx.violations else 0

"""C14 — DSL output is canonical and source-info comments are inert."""
import json

from lib import core, sexp, dslgen, tf
from lib.dslgen import S, T

FAMILIES = ("transform",)


def permute_model(rng, m):
    """the same model with every map-like list and (for modular models) the type list permuted"""
    def sh(l):
        l = list(l)
        rng.shuffle(l)
        return l
    types = []
    for t in m[1]:
        meta = t[2]
        if meta:
            meta = [[sh(meta[0][0]), meta[0][1], meta[0][2]]]
        types.append([t[0], sh(t[1]), meta])
    modular = any(t[2] and t[2][0][1] for t in m[1])
    names = [tuple(t[0]) for t in m[1]]
    if modular and len(set(names)) == len(names):
        types = sh(types)
    conds = sh([[k, [c[0], c[1], sh(c[2]), c[3]]] for k, c in m[2]])
    return [m[0], types, conds]


def strip_comments(text):
    out = []
    for line in text.split("\n"):
        i = line.find(" #")
        if i >= 0:
            line = line[:i]
        out.append(line.rstrip(" "))
    return "\n".join(out)


def B(x):
    return T(x).encode("utf-8", "surrogatepass")


def documented_order_violation(m, text):
    """independent of the Coq model: condition parameters are written in byte order of their NAMES; in a non-modular model
    so are the relations of a type and the conditions; in a modular model (a type definition carries a module) types,
    relations and conditions are ordered by (module, file, name) with unattributed items first (the documented order).
    Returns a description or None."""
    import re
    for line in text.split("\n"):
        mm = re.match(r"^condition ([^(]*)\((.*)\) \{", line)
        if mm:
            names = [p.split(":")[0].strip().encode() for p in mm.group(2).split(", ")]
            if names != sorted(names):
                return "the parameters of condition %s are written as %s, not in the order of their names" % (mm.group(1), [n.decode() for n in names])
    # what the text holds
    cur = None
    types = []
    rels = {}
    conds = []
    for line in text.split("\n"):
        line = line.split(" #")[0]
        if line.startswith("type "):
            cur = line[5:]
            types.append(cur.encode())
            rels[cur] = []
        elif line.startswith("    define ") and cur is not None:
            rels[cur].append(line[11:].split(":")[0].encode())
        elif line.startswith("condition "):
            conds.append(line[10:].split("(")[0].encode())

    # the documented key: unattributed items first (by name), then by module, file, name
    def key(name, module, file):
        return (0, name) if not module else (1, module, file, name)

    def tmeta(t):
        md = t[2][0] if t[2] else [[], [], []]
        return B(md[1]), (B(md[2][0]) if md[2] else b"")

    modular = any(tmeta(t)[0] for t in m[1])
    tnames = [B(t[0]) for t in m[1]]
    if len(set(tnames)) != len(tnames) or len(set(B(k) for k, _ in m[2])) != len(m[2]):
        return None
    if modular:
        want = [n for _, n in sorted((key(B(t[0]), *tmeta(t)), B(t[0])) for t in m[1])]
        if types != want:
            return "the types of a modular model are written as %s, not by (module, file, name) with unattributed ones first: %s" % (
                [x.decode("utf-8", "replace") for x in types], [x.decode("utf-8", "replace") for x in want])
    for t in m[1]:
        tn = B(t[0]).decode("utf-8", "replace")
        names = [B(r) for r, _ in t[1]]
        if len(set(names)) != len(names) or tn not in rels:
            continue
        if modular:
            metas = {B(rn): rm for rn, rm in (t[2][0][0] if t[2] else [])}
            def rkey(n):
                rm = metas.get(n)
                return key(n, B(rm[1]) if rm else b"", (B(rm[2][0]) if rm and rm[2] else b""))
            want = sorted(names, key=rkey)
        else:
            want = sorted(names)
        if rels[tn] != want:
            return "the relations of type %s are written as %s, not in the documented order %s" % (
                tn, [r.decode("utf-8", "replace") for r in rels[tn]], [r.decode("utf-8", "replace") for r in want])
    def ckey(kc):
        k, c = kc
        cm = c[3][0] if c[3] else None
        return key(B(k), B(cm[0]) if cm else b"", (B(cm[1][0]) if cm and len(cm) > 1 and cm[1] else b""))
    want = [B(k) for k, _ in sorted(m[2], key=ckey)]
    written = [B(c[0]) for k, c in sorted(m[2], key=ckey)]   # a condition is written under its inner name
    if conds != written and conds != want:
        return "the conditions are written as %s, not in the documented order %s" % ([c.decode("utf-8", "replace") for c in conds], [c.decode("utf-8", "replace") for c in want])
    return None


def no_newline_names(m):
    def ok(s):
        return 10 not in s and 13 not in s
    for t in m[1]:
        if t[2]:
            md = t[2][0]
            if not ok(md[1]) or any(not ok(f) for f in md[2]):
                return False
            for _, rm in md[0]:
                if not ok(rm[1]) or any(not ok(f) for f in rm[2]):
                    return False
    for _, c in m[2]:
        if c[3] and (not ok(c[3][0][0]) or any(not ok(f) for f in c[3][0][1])):
            return False
    return True


def run(ctx):
    ctx.rule = ("random models (modular and not, metadata with and without module/file, conditions) x both values of the "
                "source-information option x (repeated calls, permuted map/list order and type order on the in-memory model, "
                "JSON with shuffled object keys) ; comment stripping of the source-info output against the plain output and "
                "both parsed; non-trivial = modular model with at least two types; distinct by model")
    ctx.assumptions = ["Go map iteration order is sampled by repeated calls", "module and file names without line breaks (a line break inside a name breaks the comment: observation O3, outside the statement)"]
    rng = ctx.rng
    n = 250 if ctx.tier == "quick" else 6000
    base = [dslgen.gen_wire_model(rng, degenerate=0, p_this=0.2) for _ in range(n)]
    # many items competing inside one module, with and without file attribution (the order documented is
    # unattributed first, then module, file, name: exercised only when several keys tie on a prefix)
    base += [dslgen.gen_wire_model(rng, modular=True, degenerate=0, p_this=0.2, max_types=6, max_rels=5, depth=1,
                                   modules=rng.choice([["core"], ["core", "b"]]), files=rng.choice([["a.fga", "z.fga", ""], ["m.fga", "", "b/c.fga", "a.fga"]]))
             for _ in range(n // 2)]
    base = [m for m in base if no_newline_names(m)]
    perms = [permute_model(rng, m) for m in base]
    for src in (False, True):
        a = tf.correspond_print(ctx, base, src, "proto", "base")
        b = tf.correspond_print(ctx, perms, src, "proto", "permuted")
        r1 = tf.correspond_print(ctx, base, src, "proto", "again")
        sh = ctx.impl([{"op": "print_shuffled", "m": m, "src": src, "n": 4, "seed": ctx.seed + k} for k, m in enumerate(base)])
        for k, (m, x, y, z, s) in enumerate(zip(base, a, b, r1, sh)):
            if x[0] not in ("ok", "err"):
                continue
            modular = any(t[2] and t[2][0][1] for t in m[1])
            if not src:
                ctx.note_case(json.dumps(m), modular and len(m[1]) > 1)
            if x[0] == "ok":
                why = documented_order_violation(m, x[1])
                ctx.count("documented_order_checked")
                if why:
                    ctx.violation("not-in-documented-order", {"model": m, "src": src, "why": why, "a": x[1]})
                    continue
            if x[:2] != y[:2]:
                ctx.violation("depends-on-input-order", {"model": m, "permuted": perms[k], "src": src,
                                                         "why": "permuting maps / type definitions of the model changes the DSL output",
                                                         "a": x[1], "b": y[1]})
            elif x[:2] != z[:2]:
                ctx.violation("differs-between-calls", {"model": m, "src": src, "why": "two calls on the same model give different DSL", "a": x[1], "b": z[1]})
            elif "r" in s:
                outs = s["r"].get("outs", [])
                want = (1, x[1]) if x[0] == "ok" else None
                for o in outs:
                    got = (o[0], T(o[1]))
                    if x[0] == "ok" and got != want:
                        ctx.violation("depends-on-json-key-order", {"model": m, "src": src, "why": "re-encoding the JSON with another key order changes the DSL output",
                                                                    "a": x[1], "b": got[1]})
                        break
                    if x[0] == "err" and o[0] == 1:
                        ctx.violation("depends-on-json-key-order", {"model": m, "src": src, "why": "the JSON path succeeds where the in-memory path fails"})
                        break
    # source-information comments are inert
    plain = [tf.norm_impl_print(r) for r in tf.impl_print(ctx, base, False, "proto")]
    withsrc = [tf.norm_impl_print(r) for r in tf.impl_print(ctx, base, True, "proto")]
    docs = []
    idx = []
    for k, (m, p, w) in enumerate(zip(base, plain, withsrc)):
        if p[0] != "ok" or w[0] != "ok":
            if p[0] != w[0]:
                ctx.violation("source-info-changes-verdict", {"model": m, "why": "the include-source-information option changes success/failure"})
            continue
        if strip_comments(w[1]) != p[1]:
            ctx.violation("comments-not-inert", {"model": m, "why": "stripping the '#' comments from the source-information output does not give the plain output",
                                                 "plain": p[1], "with_source_info": w[1]})
            continue
        docs += [p[1], w[1]]
        idx.append(k)
        if len(ctx.samples) < 3 and w[1] != p[1] and len(w[1]) < 500:
            ctx.sample({"with_source_info": w[1]})
    parsed = [tf.norm_impl_dsl(r) for r in tf.impl_dsl(ctx, docs, False)]
    for j, k in enumerate(idx):
        a, b = parsed[2 * j], parsed[2 * j + 1]
        if a[:2] != b[:2]:
            ctx.violation("comments-change-parse", {"model": base[k], "why": "the plain output and the source-information output do not parse to the same model",
                                                    "plain": docs[2 * j], "with_source_info": docs[2 * j + 1]})


def replay(ctx, data):
    d = data["detail"]
    if "model" not in d:
        print(json.dumps(d, indent=1)[:4000])
        return 1
    for src in (False, True):
        r = [tf.norm_impl_print(x) for x in tf.impl_print(ctx, [d["model"]] + ([d["permuted"]] if "permuted" in d else []), src, "proto")]
        for x in r:
            print(src, x[0], x[1])
    return 0

"""C04, C05, C06, C10, C11 — the weighted graph properties share one run."""
import json

from lib import core, sexp, dslgen, graphgen as gg, graphspec as gs, graphcheck as gc
from lib.dslgen import S, T

FAMILIES = ("graph",)


def gen_models(ctx, n, pid=None):
    rng = ctx.rng
    ms = []
    for i in range(n):
        wc = rng.choice([0.15, 0.35, 0.5]) if pid == "C11" else 0.15
        ms.append(gg.gen_graph_model(rng, profile=rng.choice(["acyclic", "acyclic", "cyclic", "mixed"]),
                                     max_types=rng.choice([2, 3, 4]), max_rels=rng.choice([2, 3, 4]), depth=rng.choice([1, 2, 2]),
                                     wildcards=wc))
    ms += handmade()
    ms += wide_models(rng, 4 if n < 1000 else 20)
    ms += odd_names(ctx, max(30, n // 8), pid)
    if pid == "C11":
        ms += wild_cycles(rng, max(40, n // 6))
        ms += wild_cycles_below_subtraction(rng, max(40, n // 6))
        ms += interlocking_cycles(rng, max(60, n // 5), wild=True)
    if pid in ("C11", "C06"):
        ms += wild_fans(rng, max(30, n // 8))
    if pid == "C06":
        # wildcard lists of edges inside tuple cycles whose members are public for DIFFERENT types: they too must not
        # depend on where the depth-first search starts
        ms += wild_cycles(rng, max(30, n // 8))
        ms += interlocking_cycles(rng, max(30, n // 8), wild=True)
    if pid in ("C04", "C05", "C06"):
        ms += constrained_cycles(rng, max(60, n // 5))
        ms += interlocking_cycles(rng, max(60, n // 5))
    if pid in ("C05", "C10"):
        ms += dangling_ttus(rng, max(40, n // 8))
    return ms


def rename_model(m, tmap, rmap):
    """the same model with other type and relation names (both maps injective)"""
    def ty(x):
        return S(tmap.get(T(x), T(x)))
    def rl(x):
        return S(rmap.get(T(x), T(x)))
    def us(u):
        if u[0] == 2:
            return [2, rl(u[1])]
        if u[0] == 3:
            return [3, rl(u[1]), rl(u[2])]
        if u[0] in (4, 5):
            return [u[0]] + [us(c) for c in u[1:]]
        if u[0] == 6:
            return [6, us(u[1]), us(u[2])]
        return u
    def ref(r):
        return [ty(r[0]), ([1, rl(r[1][1])] if r[1][0] == 1 else r[1])] + list(r[2:])
    types = []
    for t in m[1]:
        meta = [[[[rl(k), [[ref(r) for r in rm[0]]] + list(rm[1:])] for k, rm in md[0]]] + list(md[1:]) for md in t[2]]
        types.append([ty(t[0]), [[rl(k), us(u)] for k, u in t[1]], meta])
    return [m[0], types, m[2]]


def odd_names(ctx, n, pid=None):
    """generated models under unusual but legal names: a type called like an operator node's prefix ('union', 'intersection',
    'exclusion'), type names with characters outside ASCII (reachable through JSON; a label is cut by characters, a Go string
    by bytes), relation names that differ only in the case of their letters.  Nothing in a graph may depend on the spelling."""
    rng = ctx.rng
    out = []
    tpool = ["union", "intersection", "exclusion", "\u00fcser", "\u00dcn\u00efon", "\u7528\u6237", "t\u00e9am"]
    twins = [("viewer", "Viewer"), ("editor", "EDITOR"), ("member", "Member"), ("a", "A")]
    for _ in range(n):
        m = gg.gen_graph_model(rng, profile=rng.choice(["acyclic", "acyclic", "cyclic"]), max_types=rng.choice([2, 3, 4]),
                               max_rels=rng.choice([2, 3, 4]), depth=rng.choice([1, 2, 2]), wildcards=0.35 if pid == "C11" else 0.2)
        names = [T(t[0]) for t in m[1]]
        tmap = dict(zip(rng.sample(names, min(len(names), rng.choice([1, 2, 3]))), rng.sample(tpool, 3)))
        rmap = {}
        for t in m[1]:
            rn = [T(k) for k, _ in t[1]]
            if len(rn) >= 2 and rng.random() < 0.6:
                a, b = rng.sample(rn, 2)
                tw = rng.choice(twins)
                if a not in rmap and b not in rmap and not set(tw) & (set(rmap.values()) | set(gg.RELS) - {a, b}):
                    rmap[a], rmap[b] = tw
        out.append(rename_model(m, tmap, rmap))
    return out


def constrained_cycles(rng, n):
    """one type whose relations form a tuple cycle (usersets / tuple-to-usersets) with extra rewrite edges between
    cycle members (diamonds, cross edges) and, in about half of the models, an intersection or exclusion whose
    operand lies on the cycle: the refusal of constrained cycles and the resolution of shared placeholders must not
    depend on which path the depth-first search walks first"""
    out = []
    for _ in range(n):
        k = rng.choice([2, 3, 3, 4, 5])
        rels = ["r%d" % i for i in range(k)]
        rl, ml = [], []
        use_ttu = rng.random() < 0.3
        if use_ttu:
            rl.append([S("parent"), [1, 1]])
            ml.append([S("parent"), [[[S("doc"), [0], []]], [], []]])
        for i, r in enumerate(rels):
            nxt = rels[(i + 1) % k]
            refs = [[S("user"), [0], []]]
            hop = None
            if use_ttu and rng.random() < 0.5:
                hop = [3, S("parent"), S(nxt)]
            else:
                refs.append([S("doc"), [1, S(nxt)], []])
            kids = [[1, 1]] + ([hop] if hop else [])
            # cross edges to other cycle members
            for _ in range(rng.choice([0, 0, 1, 1, 2])):
                kids.append([2, S(rng.choice(rels))])
            if len(kids) == 1:
                u = [1, 1]
            else:
                u = [4] + kids
            rl.append([S(r), u])
            ml.append([S(r), [refs, [], []]])
        if rng.random() < 0.55:
            # an operator relation whose operand is a cycle member, itself referenced from the cycle
            op = rng.choice([5, 6])
            target = rng.choice(rels)
            rl.append([S("c"), [op, [1, 1], [2, S(target)]]])
            ml.append([S("c"), [[[S("user"), [0], []]], [], []]])
            host = rng.randrange(len(rl))
            if T(rl[host][0]).startswith("r"):
                u = rl[host][1]
                rl[host][1] = ([4, u] if u[0] != 4 else list(u)) + [[2, S("c")]]
        order = list(zip(rl, ml))
        rng.shuffle(order)
        types = [[S("user"), [], []], [S("doc"), [x[0] for x in order], [[[x[1] for x in order], [], []]]]]
        out.append([S("1.1"), types, []])
    return out


def wide_models(rng, n):
    """many type definitions (17-26, beyond any small-size fast path), in no particular name order, linked by
    tuple-to-usersets: look-ups over the whole list of type definitions must neither reorder it nor depend on its order"""
    out = []
    for _ in range(n):
        k = rng.randint(17, 26)
        names = ["t%02d" % i for i in range(k)]
        rng.shuffle(names)
        types = [[S("user"), [], []]]
        for i, t in enumerate(names):
            par = names[(i + rng.randint(1, k - 1)) % k]
            rl = [[S("parent"), [1, 1]], [S("viewer"), rng.choice([[4, [1, 1], [3, S("parent"), S("viewer")]], [1, 1], [4, [1, 1], [2, S("parent")]]])]]
            ml = [[S("parent"), [[[S(par), [0], []]], [], []]], [S("viewer"), [[[S("user"), [0], []]], [], []]]]
            types.append([S(t), rl, [[ml, [], []]]])
        pos = rng.randrange(len(types))
        types.insert(pos, types.pop(0))
        out.append([S("1.1"), types, []])
    return out


def interlocking_cycles(rng, n, wild=False):
    """one type whose relations refer to each other through userset restrictions in all directions: several tuple cycles
    that share nodes and nest (a node whose first edge closes one cycle and whose later edge reports that cycle AND another
    one, in that order).  Union-only and well-founded (one relation at least takes users directly), so every start order
    and every edge order must accept the model with the same weights and no placeholder left."""
    out = []
    for _ in range(n):
        k = rng.choice([3, 3, 4, 4, 5])
        # relation names of which one is a prefix of another, a type name that starts with the letters of the
        # placeholder prefix "R#": nothing may depend on how these labels are spelled
        rels = rng.choice([["r%d" % i for i in range(k)], ["member", "member_all", "m", "mx", "member_a"][:k], ["outer", "inner", "p", "q", "pq"][:k]])
        tname = rng.choice(["doc", "doc", "Repo", "R", "group"])
        rl, ml = [], []
        anchored = rng.sample(rels, rng.choice([1, 1, 2]))
        for r in rels:
            others = [x for x in rels if x != r or rng.random() < 0.15]
            refs = [[S(tname), [1, S(x)], []] for x in rng.sample(others, min(len(others), rng.choice([1, 2, 2, 3])))]
            if r in anchored:
                # the terminal type: a plain type, or (wild) public, at any position among the restrictions
                # (two terminal types, so that a link lost between two of the cycles shows as a missing type, not only as a depth)
                refs.insert(rng.randrange(len(refs) + 1), [S(rng.choice(["user", "user", "employee"])), [2] if wild and rng.random() < 0.7 else [0], []])
            rl.append([S(r), [1, 1]])
            ml.append([S(r), [refs, [], []]])
        # relations outside that enter the tangle (the search may start there)
        for j in range(rng.choice([0, 1, 1, 2])):
            rl.append([S("out%d" % j), [2, S(rng.choice(rels))]])
            ml.append([S("out%d" % j), [[], [], []]])
        order = list(zip(rl, ml))
        rng.shuffle(order)
        types = [[S("user"), [], []], [S("employee"), [], []], [S(tname), [x[0] for x in order], [[[x[1] for x in order], [], []]]]]
        out.append([S("1.1"), types, []])
    return out


def wild_cycles_below_subtraction(rng, n):
    """tuple cycles whose members are unions of an exclusion and a hop to the next member, where the SUBTRACTED relation of
    each exclusion is public for a type of its own: that type is no weight of any cycle member (it is subtracted) but it is
    a wildcard reachable from all of them, for some only through the edge that closes the cycle"""
    out = []
    pub = ["employee", "robot", "guest", "bot"]
    for _ in range(n):
        k = rng.choice([2, 2, 3])
        rels = ["r%d" % i for i in range(k)]
        types = [[S(t), [], []] for t in ["user"] + pub]
        rl = [[S("parent"), [1, 1]], [S("base"), [1, 1]]]
        ml = [[S("parent"), [[[S("grp"), [0], []]], [], []]], [S("base"), [[[S("user"), [0], []]], [], []]]]
        for i, r in enumerate(rels):
            nxt = rels[(i + 1) % k]
            hop = rng.choice([[3, S("parent"), S(nxt)], [2, S(nxt)]]) if i > 0 else [3, S("parent"), S(nxt)]
            if rng.random() < 0.75:
                ban = "ban%d" % i
                rl.append([S(ban), [1, 1]])
                ml.append([S(ban), [[[S(pub[i % len(pub)]), [2], []]], [], []]])
                first = [6, [2, S("base")], [2, S(ban)]]
            else:
                first = [2, S("base")]
            kids = [first, hop]
            rng.shuffle(kids)
            rl.append([S(r), [4] + kids])
            ml.append([S(r), [[], [], []]])
        order = list(zip(rl, ml))
        rng.shuffle(order)
        types.append([S("grp"), [x[0] for x in order], [[[x[1] for x in order], [], []]]])
        rng.shuffle(types)
        out.append([S("1.1"), types, []])
    return out


def dangling_ttus(rng, n):
    """no cycle: a tuple-to-userset whose tupleset relation has no type restrictions (defined by a rewrite only, its
    metadata entry empty or absent), or one of whose parent types lacks the computed relation — alone, or as one
    operand of a union / intersection / exclusion (possibly nested) whose other operands are fine: the model must be
    rejected wherever the reference stands; the sound variants (about a third) must be accepted"""
    out = []
    for _ in range(n):
        kind = rng.choice(["empty-meta", "no-meta", "parent-lacks", "sound", "sound"])
        types = [[S("user"), [], []]]
        frl = [[S("admin"), [1, 1]], [S("member"), [1, 1]]]
        fml = [[S("admin"), [[[S("user"), [0], []]], [], []]], [S("member"), [[[S("user"), [0], []]], [], []]]]
        types.append([S("folder"), frl, [[fml, [], []]]])
        types.append([S("team"), [[S("member"), [1, 1]]], [[[[S("member"), [[[S("user"), [0], []]], [], []]]], [], []]]])
        rl = [[S("owner"), [1, 1]]]
        ml = [[S("owner"), [[[S("folder"), [0], []]], [], []]]]
        if kind == "empty-meta":
            rl.append([S("parent"), [2, S("owner")]])
            ml.append([S("parent"), [[], [], []]])
        elif kind == "no-meta":
            rl.append([S("parent"), [2, S("owner")]])
        elif kind == "parent-lacks":
            rl.append([S("parent"), [1, 1]])
            ps = [[S("folder"), [0], []], [S("team"), [0], []]]
            rng.shuffle(ps)
            ml.append([S("parent"), [ps, [], []]])
        else:
            rl.append([S("parent"), [1, 1]])
            ml.append([S("parent"), [[[S("folder"), [0], []]], [], []]])
        ttu = [3, S("parent"), S("admin")]
        other = lambda: rng.choice([[2, S("owner")], [3, S("owner"), S("member")], [2, S("editor")]])
        place = rng.choice(["alone", "union", "union-last", "inter", "diff-base", "diff-sub", "nested", "two"])
        th = [1, 1]
        if place == "alone":
            u = ttu
        elif place == "union":
            u = [4, th, ttu] if rng.random() < 0.5 else [4, ttu, th]
        elif place == "union-last":
            u = [4, th, other(), ttu]
        elif place == "inter":
            u = [5, th, ttu] if rng.random() < 0.5 else [5, ttu, th]
        elif place == "diff-base":
            u = [6, ttu, th]
        elif place == "diff-sub":
            u = [6, th, ttu]
        elif place == "nested":
            u = [4, th, [rng.choice([4, 5]), other(), ttu]]
        else:
            u = [4, ttu, [3, S("parent"), S("member")]] if rng.random() < 0.5 else [4, th, ttu, [3, S("parent"), S("member")]]
        rl.append([S("editor"), [1, 1]])
        ml.append([S("editor"), [[[S("user"), [0], []]], [], []]])
        rl.append([S("viewer"), u])
        ml.append([S("viewer"), [[[S("user"), [0], []]], [], []]])
        order = list(zip(rl, ml)) if False else None
        idx = list(range(len(rl)))
        rng.shuffle(idx)
        names_with_meta = {T(x[0]) for x in ml}
        rl2 = [rl[i] for i in idx]
        ml2 = [x for x in (next((y for y in ml if T(y[0]) == T(r[0])), None) for r in rl2) if x is not None]
        types.append([S("doc"), rl2, [[ml2, [], []]]])
        rng.shuffle(types)
        out.append([S("1.1"), types, []])
    return out


def wild_fans(rng, n):
    """no cycle: one relation that reaches three to seven public types, and several relations that each take that
    relation's list (through a userset restriction, a computed userset or a tuple-to-userset) and add public
    types of their own: every node and edge must end with its OWN list, whatever the others add later"""
    out = []
    pub = ["p%d" % i for i in range(9)]
    for _ in range(n):
        nb = rng.choice([3, 3, 4, 5, 6, 7])
        base_types = rng.sample(pub, nb)
        rest = [t for t in pub if t not in base_types]
        types = [[S(t), [], []] for t in pub]
        rl = [[S("base"), [1, 1]], [S("parent"), [1, 1]]]
        ml = [[S("base"), [[[S(t), [2], []] for t in base_types], [], []]],
              [S("parent"), [[[S("doc"), [0], []]], [], []]]]
        names = ["base"]
        for j in range(rng.choice([2, 2, 3, 4])):
            src = rng.choice(names) if rng.random() < 0.3 else "base"
            own = [[S(t), [2], []] for t in rng.sample(rest, rng.choice([1, 1, 2]))]
            how = rng.choice(["userset", "computed", "ttu"])
            if how == "userset":
                refs = [[S("doc"), [1, S(src)], []]] + own
                if rng.random() < 0.3:
                    rng.shuffle(refs)
                u = [1, 1]
            elif how == "computed":
                refs = own
                u = [4, [2, S(src)], [1, 1]] if rng.random() < 0.7 else [4, [1, 1], [2, S(src)]]
            else:
                refs = own
                u = [4, [3, S("parent"), S(src)], [1, 1]] if rng.random() < 0.7 else [4, [1, 1], [3, S("parent"), S(src)]]
            name = "n%d" % j
            rl.append([S(name), u])
            ml.append([S(name), [refs, [], []]])
            names.append(name)
        order = list(zip(rl, ml))
        rng.shuffle(order)
        types.append([S("doc"), [x[0] for x in order], [[[x[1] for x in order], [], []]]])
        rng.shuffle(types)
        out.append([S("1.1"), types, []])
    return out


def wild_cycles(rng, n):
    """tuple cycles through usersets and tuple-to-usersets whose members carry DIFFERENT public types, entered from
    outside relations: wildcard lists of the edges inside the cycle are complete only after the cycle is resolved"""
    out = []
    pub = ["user", "employee", "robot", "guest"]
    for _ in range(n):
        k = rng.choice([2, 2, 3, 4])
        rels = ["r%d" % i for i in range(k)]
        use_ttu = rng.random() < 0.4
        types = [[S(t), [], []] for t in pub]
        rl, ml = [], []
        if use_ttu:
            rl.append([S("parent"), [1, 1]])
            ml.append([S("parent"), [[[S("grp"), [0], []]], [], []]])
        for i, r in enumerate(rels):
            nxt = rels[(i + 1) % k]
            refs = []
            for t in rng.sample(pub, rng.choice([1, 1, 2])):
                refs.append([S(t), [2] if rng.random() < 0.7 else [0], []])
            if not any(x[1] == [0] or x[1] == [2] for x in refs):
                refs.append([S("user"), [0], []])
            if use_ttu and rng.random() < 0.5:
                u = [4, [1, 1], [3, S("parent"), S(nxt)]]
            else:
                refs.append([S("grp"), [1, S(nxt)], []])
                u = [1, 1]
            rng.shuffle(refs)
            rl.append([S(r), u])
            ml.append([S(r), [refs, [], []]])
        # relations outside the cycle that lead into it
        for j in range(rng.choice([0, 1, 2])):
            tgt = rng.choice(rels)
            rl.append([S("out%d" % j), rng.choice([[2, S(tgt)], [4, [1, 1], [2, S(tgt)]]])])
            ml.append([S("out%d" % j), [[[S(rng.choice(pub)), [2] if rng.random() < 0.5 else [0], []]], [], []]])
        order = list(zip(rl, ml))
        rng.shuffle(order)
        types.append([S("grp"), [x[0] for x in order], [[[x[1] for x in order], [], []]]])
        rng.shuffle(types)
        out.append([S("1.1"), types, []])
    return out


def handmade():
    """shapes the random generator rarely produces: recursion through TTU with wildcards, nested tuple cycles"""
    def M(types):
        out = []
        for t, rels in types:
            rl, ml = [], []
            for r, u, refs in rels:
                rl.append([S(r), u])
                ml.append([S(r), [refs, [], []]])
            out.append([S(t), rl, [[ml, [], []]] if ml else []])
        return [S("1.1"), out, []]
    U = lambda t: [S(t), [0], []]
    W = lambda t: [S(t), [2], []]
    Rr = lambda t, r: [S(t), [1, S(r)], []]
    th = [1, 1]
    c = lambda r: [2, S(r)]
    ttu = lambda ts, cu: [3, S(ts), S(cu)]
    return [
        M([("user", []), ("doc", [("parent", th, [U("doc")]), ("viewer", [4, th, ttu("parent", "viewer")], [U("user"), W("user")])])]),
        M([("user", []), ("doc", [("parent", th, [U("doc")]), ("a", th, [Rr("doc", "b"), W("user")]), ("b", [4, th, c("c")], [U("user")]),
                                  ("c", [4, th, ttu("parent", "a")], [U("user")])])]),
        M([("user", []), ("employee", []), ("node", [("parent", th, [U("node")]), ("b", [4, th, ttu("parent", "a")], [U("user")]),
                                                      ("a", [4, th, ttu("parent", "x"), c("y")], [U("employee")]),
                                                      ("x", [4, ttu("parent", "a"), ttu("parent", "b")], []), ("y", c("x"), [])])]),
        M([("user", []), ("group", [("member", th, [U("user"), Rr("group", "member")])]),
           ("doc", [("viewer", [5, th, c("editor")], [U("user"), Rr("group", "member")]), ("editor", th, [U("user")])])]),
        M([("user", []), ("folder", [("a", [4, th, c("b")], [U("user")]), ("b", c("a"), [])]),
           ("doc", [("parent", th, [U("folder")]), ("viewer", ttu("parent", "a"), []), ("editor", th, [Rr("folder", "b")])])]),
        M([("user", []), ("doc", [("a", c("a"), [])])]),
        # a tupleset listing one parent type twice (plain and conditioned) before another parent type
        # (the later parent reaches a type the repeated one does not: a parent dropped after the repeat shows as a missing type)
        [S("1.1"), [[S("user"), [], []], [S("employee"), [], []],
                    [S("folder"), [[S("admin"), th]], [[[[S("admin"), [[U("user")], [], []]]], [], []]]],
                    [S("team"), [[S("admin"), th]], [[[[S("admin"), [[U("employee")], [], []]]], [], []]]],
                    [S("doc"), [[S("parent"), th], [S("viewer"), ttu("parent", "admin")]],
                     [[[[S("parent"), [[U("folder"), [S("folder"), [0], S("condX")], U("team")], [], []]],
                        [S("viewer"), [[], [], []]]], [], []]]]],
         [[S("condX"), [S("condX"), S("x > 0"), [[S("x"), [4]]], []]]]],
        M([("user", []), ("group", []), ("doc", [("a", th, [U("group")]), ("b", th, [U("group")]), ("x", [5, th, c("a"), c("b")], [U("user")])])]),
        # three public types under one relation, two relations that extend its list differently
        M([("a", []), ("b", []), ("c", []), ("d", []), ("e", []),
           ("doc", [("three", th, [W("a"), W("b"), W("c")]), ("n1", th, [Rr("doc", "three"), W("d")]), ("n2", th, [Rr("doc", "three"), W("e")])])]),
    ]


def variants(ctx, m):
    """the same model with permuted type definitions (C06)"""
    rng = ctx.rng
    ts = list(m[1])
    rng.shuffle(ts)
    return [m[0], ts, m[2]]


def operand_variant(ctx, m):
    """the same model with the operands of every union and intersection in another order (C06: "reordering the operands
    of a union or intersection changes no relation's weights"); exclusions keep their order"""
    rng = ctx.rng

    def sh(u):
        if u[0] in (4, 5):
            kids = [sh(c) for c in u[1:]]
            rng.shuffle(kids)
            return [u[0]] + kids
        if u[0] == 6:
            return [6, sh(u[1]), sh(u[2])]
        return u
    return [m[0], [[t[0], [[r[0], sh(r[1])] for r in t[1]], t[2]] for t in m[1]], m[2]]


def relation_weights(g):
    return {nid: sorted(n["weights"]) for nid, n in g["nodes"].items() if n["type"] == 1}


def weights_of(g, nid):
    return dict(g["nodes"].get(nid, {}).get("weights", []))


def evaluate(ctx, pid, results):
    for r in results:
        if r is None:
            continue
        m = r["m"]
        if gs.degenerate(m):
            ctx.count("degenerate_skipped")
            continue
        wf = gs.well_founded(m)
        ci = gs.cycle_info(m)
        simple = gs.simple_operands(m)
        W = gs.spec_weights(m) if gs.builder_valid(m) else {}
        oks = [a for (_, a, _) in r["ordered"] if a[0] == "ok"]
        agree = all(b is not None and gg.same_result(a, b) for (_, a, b) in r["ordered"])
        cyc_region = ci["has_cycle"] and not wf
        ctx.count("class_" + ("wf" if wf else "notwf") + ("_cyclic" if ci["has_cycle"] else "_acyclic") + ("" if simple else "_multiedge-operands"))
        nontriv = bool(oks) and any(n["type"] == 2 for n in oks[0][1]["nodes"].values())
        ctx.note_case(json.dumps(m), nontriv)
        known_ops = (not simple) and agree and core.finding_listed(ctx, "K-C04-operands")
        known_cyc = cyc_region and agree and core.finding_listed(ctx, "K-WG-cycles")
        if pid == "C10":
            if not r["unchanged"]:
                ctx.violation("input-modified", {"model": m, "why": "building the weighted graph modified the model it was given"})
            if r["unweighted"][0] == "ok":
                why = gs.check_structure(m, r["unweighted"][1])
                if why:
                    ctx.violation("structure", {"model": m, "why": why})
                elif len(ctx.samples) < 3 and nontriv:
                    ctx.sample({"model": m, "nodes": sorted(r["unweighted"][1]["nodes"])[:12]})
            elif gs.builder_valid(m):
                ctx.violation("builder-rejects-valid", {"model": m, "why": "the builder rejects a model whose tuple-to-userset references all resolve", "impl": r["unweighted"]})
            if r["unweighted"][0] == "ok" and not gs.builder_valid(m):
                ctx.violation("builder-accepts-invalid", {"model": m, "why": "the builder accepts a tuple-to-userset whose tupleset has no restrictions or whose parent type lacks the relation"})
        elif pid == "C05":
            for (o, a, b) in r["ordered"]:
                acc = a[0] == "ok"
                if acc == wf:
                    continue
                if known_cyc and acc:
                    ctx.count("known_finding_K-WG-cycles")
                    continue
                if known_ops:
                    ctx.count("known_finding_K-C04-operands")
                    continue
                ctx.violation("accepted-not-well-founded" if acc else "rejected-well-founded",
                              {"model": m, "order": o, "why": ("a model that is not well-founded is accepted" if acc else "a well-founded model is rejected"),
                               "cycle_info": ci, "impl": (a if a[0] != "ok" else "accepted")})
                break
            else:
                # the unhooked Build (start order = Go's map order) is one more traversal order
                for b in r["builds"]:
                    acc = b[0] == "ok"
                    if acc == wf:
                        continue
                    if known_cyc and acc:
                        ctx.count("known_finding_K-WG-cycles")
                        continue
                    if known_ops:
                        ctx.count("known_finding_K-C04-operands")
                        continue
                    ctx.violation("accepted-not-well-founded" if acc else "rejected-well-founded",
                                  {"model": m, "order": "Build (map iteration order)",
                                   "why": ("a model that is not well-founded is accepted" if acc else "a well-founded model is rejected"),
                                   "cycle_info": ci, "impl": (b if b[0] != "ok" else "accepted")})
                    break
                if len(ctx.samples) < 3 and nontriv:
                    ctx.sample({"model": m, "well_founded": wf, "verdicts": [a[0] for (_, a, _) in r["ordered"]]})
        elif pid == "C04":
            for (o, a, b) in r["ordered"]:
                if a[0] != "ok":
                    continue
                g = a[1]
                why = None
                for nid, n in g["nodes"].items():
                    if any(k.startswith("R#") for k, _ in n["weights"]):
                        why = "placeholder key visible on node %s" % nid
                for src, es in g["edges"].items():
                    for e in es:
                        tgt = g["nodes"][e["to"]]
                        base = {e["to"][:-2] if tgt["type"] == 3 else e["to"]: 1} if tgt["type"] in (0, 3) else dict(tgt["weights"])
                        if tgt["type"] in (0, 3):
                            want = base
                        else:
                            want = gs.bump(base) if e["type"] in (0, 2) else base
                        if dict(e["weights"]) != want and not why:
                            why = "edge %s -> %s carries %s, its target gives %s" % (src, e["to"], e["weights"], sorted(want.items()))
                if not why and wf:
                    for (t, rel), want in W.items():
                        got = weights_of(g, t + "#" + rel)
                        if got != want:
                            why = "relation %s#%s has weights %s, the maximum tuple-hop depths are %s" % (t, rel, sorted(got.items()), sorted(want.items()))
                            break
                if why:
                    if known_ops:
                        ctx.count("known_finding_K-C04-operands")
                    elif known_cyc:
                        ctx.count("known_finding_K-WG-cycles")
                    else:
                        ctx.violation("weights", {"model": m, "order": o, "why": why})
                    break
                elif len(ctx.samples) < 3 and nontriv and wf:
                    ctx.sample({"model": m, "weights": {k: v["weights"] for k, v in g["nodes"].items() if v["type"] == 1}})
        elif pid == "C06":
            if not r["unchanged"]:
                # "regardless of concurrent builds in other goroutines": a builder that writes to the model it is given (e.g. sorts
                # the caller's type definitions in place) makes two builds of one model object race on it - the input is the
                # model together with the schedule "two goroutines build this object at once"
                ctx.violation("builder-writes-to-shared-input", {"model": m, "why": "building the weighted graph modified the model it was given: concurrent builds of the same model object race on it, so a build's outcome depends on the builds running beside it"})
            allr = [a for (_, a, _) in r["ordered"]] + r["builds"] + r.get("variant", [])
            distinct = []
            for a in allr:
                if not any(gg.same_verdict(a, d) for d in distinct):
                    distinct.append(a)
            if len(distinct) > 1:
                if known_cyc:
                    ctx.count("known_finding_K-WG-cycles")
                else:
                    ctx.violation("nondeterministic", {"model": m, "why": "%d different outcomes over %d builds (explicit start orders, repeated Build, permuted type definitions)" % (len(distinct), len(allr)),
                                                       "outcomes": [str(d)[:400] for d in distinct[:3]], "cycle_info": ci})
            elif r.get("opvariant") and len(distinct) == 1:
                # operands of unions / intersections in another order: same verdict, same weights of every relation
                base = distinct[0]
                for (vm, a) in r["opvariant"]:
                    ctx.count("operand_orders_compared")
                    bad = None
                    if a[0] != base[0] and (a[0] == "ok" or base[0] == "ok"):
                        bad = "the model is %s, with the operands of its unions/intersections reordered it is %s" % (
                            "accepted" if base[0] == "ok" else "rejected", "accepted" if a[0] == "ok" else "rejected")
                    elif a[0] == "ok" and relation_weights(a[1]) != relation_weights(base[1]):
                        diff = [k for k in relation_weights(base[1]) if relation_weights(a[1]).get(k) != relation_weights(base[1])[k]]
                        bad = "reordering the operands of unions/intersections changes the weights of %s: %s -> %s" % (
                            diff[0], relation_weights(base[1])[diff[0]], relation_weights(a[1]).get(diff[0]))
                    if bad:
                        if known_cyc:
                            ctx.count("known_finding_K-WG-cycles")
                        elif known_ops or not gs.simple_operands(vm):
                            ctx.count("known_finding_K-C04-operands" if core.finding_listed(ctx, "K-C04-operands") else "operand_order_outside_domain")
                        else:
                            ctx.violation("operand-order", {"model": m, "reordered": vm, "why": bad})
                        break
            elif len(ctx.samples) < 3 and nontriv:
                ctx.sample({"model": m, "builds_compared": len(allr)})
        elif pid == "C11":
            for (o, a, b) in r["ordered"]:
                if a[0] != "ok":
                    continue
                g = a[1]
                rw = gs.reach_wild(g)
                why = None
                for nid, n in g["nodes"].items():
                    if len(set(n["wild"])) != len(n["wild"]):
                        why = "duplicate entries in the wildcard list of node %s: %s" % (nid, n["wild"])
                    elif sorted(n["wild"]) != rw[nid]:
                        why = "node %s lists wildcards %s, the public types reachable from it are %s" % (nid, sorted(n["wild"]), rw[nid])
                    if why:
                        break
                if not why:
                    for src, es in g["edges"].items():
                        for e in es:
                            if len(set(e["wild"])) != len(e["wild"]) or sorted(e["wild"]) != rw[e["to"]]:
                                why = "edge %s -> %s lists wildcards %s, reachable through it: %s" % (src, e["to"], sorted(e["wild"]), rw[e["to"]])
                                break
                        if why:
                            break
                if why:
                    if known_cyc:
                        ctx.count("known_finding_K-WG-cycles")
                    else:
                        ctx.violation("wildcards", {"model": m, "order": o, "why": why})
                    break
                elif len(ctx.samples) < 3 and any(n["wild"] for n in g["nodes"].values() if n["type"] == 1):
                    ctx.sample({"model": m, "wildcards": {k: v["wild"] for k, v in g["nodes"].items() if v["wild"] and v["type"] != 3}})


RULES = {
    "C04": "weights of every relation node against the maximum tuple-hop depth computed on the model (least fixed point), the edge rule on every edge, no placeholder key",
    "C05": "accept/reject per depth-first start order against well-foundedness computed on the model",
    "C06": "all outcomes of one model compared: explicit start orders (insertion, reversed, random), the unhooked Build repeated, permuted type definitions; the operands of unions/intersections reordered (verdict and weights of every relation); histories: one builder object building sequences of different models, sequentially and concurrently, against a fresh builder per model",
    "C10": "graph structure decoded and compared with the model: node inventory, operand edges in source order, edge kinds, labels, conditions; the input model unchanged",
    "C11": "wildcard lists of nodes and edges against reachability of T:* nodes in the built graph, and duplicate-freedom",
}


def run_for(ctx, pid):
    ctx.rule = ("generated models with resolvable references: acyclic, tuple cycles, tuple-free cycles, intersections/"
                "exclusions, wildcards, conditions, plus hand-made recursive shapes; " + RULES[pid]
                + "; non-trivial = accepted with at least one operator node; distinct by model")
    ctx.assumptions = ["the hooked build/assign functions copy the two loops of Build/AssignWeights; the unhooked Build is compared with them on every model",
                       "inner map iteration orders of AssignWeights are sampled by repetition, not driven"]
    gc.replay_known(ctx)
    n = 350 if ctx.tier == "quick" else (1500 if pid == "C06" else 8000)
    models = gen_models(ctx, n, pid)
    if pid == "C06":
        # the inner map iteration orders of AssignWeights can only be sampled: many repetitions per model
        # (thorough: 1500 models x (12 orders x 6 + 150 unhooked builds); the 8000-model setting of the other graph
        # checks exhausted memory here)
        res = gc.run_graph(ctx, models, n_orders=8 if ctx.tier == "quick" else 12, repeat=40 if ctx.tier == "quick" else 150,
                           order_repeat=4 if ctx.tier == "quick" else 6)
    elif pid == "C11":
        # wildcard lists of nested tuple cycles depend on inner map iteration orders as well: more start orders, each repeated
        res = gc.run_graph(ctx, models, n_orders=6 if ctx.tier == "quick" else 8, repeat=3 if ctx.tier == "quick" else 10,
                           order_repeat=3 if ctx.tier == "quick" else 4)
    else:
        res = gc.run_graph(ctx, models, n_orders=4 if ctx.tier == "quick" else 8, repeat=3 if ctx.tier == "quick" else 10)
    if pid == "C06":
        vres = gc.run_graph(ctx, [variants(ctx, m) for m in models], n_orders=2, repeat=1, label="permuted")
        for r, v in zip(res, vres):
            if r is not None and v is not None:
                r["variant"] = [a for (_, a, _) in v["ordered"]]
        ovs = [operand_variant(ctx, m) for m in models]
        ores = gc.run_graph(ctx, ovs, n_orders=2, repeat=1, label="operands-reordered")
        for r, vm, v in zip(res, ovs, ores):
            if r is not None and v is not None and vm != r["m"]:
                r["opvariant"] = [(vm, a) for (_, a, _) in v["ordered"]]
    # the unhooked Build must give one of the hooked outcomes (hook drift)
    for r in res:
        if r is None:
            continue
        hooked = [a for (_, a, _) in r["ordered"]] + ([r["unweighted"]] if r["unweighted"][0] != "ok" else [])
        for b in r["builds"]:
            if hooked and not any(gg.same_verdict(b, h) for h in hooked) and not (gs.cycle_info(r["m"])["has_cycle"]):
                ctx.violation("hook-drift", {"model": r["m"], "why": "the unhooked Build returns an outcome none of the hooked start orders gives",
                                             "build": str(b)[:600]}, found_input=False)
                break
    if pid in ("C04", "C06"):
        gc.coq_spec_check(ctx, res)
        gc.model_spec_check(ctx, res)
    if pid == "C11":
        gc.coq_spec_check(ctx, res, what="wildcards")
    if pid == "C05":
        gc.coq_spec_check(ctx, res, what="verdict")
    if pid in ("C10", "C05"):
        # the hypothesis of the structure theorem (Proofs/BuilderShape.wbuild_shape), measured: how many generated
        # models lie in its domain; inside it the model's graph is proved to mirror the rewrites, and the
        # implementation's graph is compared with the model's
        try:
            rs = [r for r in res if r is not None]
            dom = ctx.model(gc.FAM, ["(503 %s)" % sexp.enc(r["m"]) for r in rs])
            for r, d in zip(rs, dom):
                ctx.count("theorem_shape_applicable" if d and d[0] == 1 else "theorem_shape_not_applicable")
                # wbuild_ok_iff_valid: the builder takes the model iff no tuple-to-userset dangles — the proved
                # characterisation, evaluated and compared with what the IMPLEMENTATION's builder did
                if d and len(d) > 1 and r["unweighted"][0] in ("ok", "err"):
                    ctx.count("theorem_builder_verdicts_compared")
                    if (r["unweighted"][0] == "ok") != (d[1] == 1):
                        ctx.violation("builder-verdict-differs-from-proved-spec",
                                      {"model": r["m"], "why": "the implementation's builder %s the model, model_valid says %s"
                                       % ("accepts" if r["unweighted"][0] == "ok" else "rejects", bool(d[1])), "impl": str(r["unweighted"])[:400]})
        except core.ModelUnavailable:
            pass
    evaluate(ctx, pid, res)
    if pid == "C06":
        history_phase(ctx, res)


def history_phase(ctx, res, groups=None):
    """C06, histories: ONE builder object builds several different models, one after the other and from several
    goroutines at once; each outcome must be the one a fresh builder gives.  Only models whose outcome was the same
    in every build of the main phase take part (the others are inside a known finding or already reported)."""
    if groups is None:
        det = []
        for r in res:
            if r is None or gs.degenerate(r["m"]):
                continue
            # models with a cycle that are not well-founded are inside the known finding K-WG-cycles: their verdict
            # depends on Go's map order from one Build to the next, whatever the builder object — not a history effect
            if gs.cycle_info(r["m"])["has_cycle"] and not gs.well_founded(r["m"]):
                ctx.count("history_skipped_K-WG-cycles")
                continue
            allr = [a for (_, a, _) in r["ordered"]] + r["builds"] + r.get("variant", [])
            if allr and all(gg.same_verdict(a, allr[0]) for a in allr):
                det.append(r["m"])
        ctx.rng.shuffle(det)
        size = 5
        groups = [det[i:i + size] for i in range(0, len(det), size)]
        groups = [g for g in groups if len(g) >= 2][: (60 if ctx.tier == "quick" else 300)]
    impl = ctx.impl([{"op": "wgraph_shared", "ms": g, "rounds": 2 if ctx.tier == "quick" else 4} for g in groups])
    for g, i in zip(groups, impl):
        if "r" not in i:
            ctx.violation("entry-point-abnormal", {"op": "wgraph_shared", "models": g, "impl": {x: i.get(x) for x in ("panic", "timeout", "bad")}})
            continue
        x = i["r"]
        fresh = [gg.norm_impl_g(a) for a in x["fresh"]]
        runs = [("one builder, models built one after the other", [gg.norm_impl_g(a) for a in x["seq"]])]
        runs += [("one builder, models built concurrently", [gg.norm_impl_g(a) for a in c]) for c in x["conc"]]
        ctx.count("history_groups")
        bad = None
        for how, outs in runs:
            for k, (a, b) in enumerate(zip(fresh, outs)):
                ctx.count("history_builds_compared")
                if not gg.same_verdict(a, b):
                    bad = (how, k, a, b)
                    break
            if bad:
                break
        if bad:
            how, k, a, b = bad
            ctx.violation("history-dependent", {"models": g, "index": k, "why": "%s: model %d of the sequence gets another outcome than from a fresh builder" % (how, k),
                                                "fresh": str(a)[:500], "shared": str(b)[:500]})


def replay_for(ctx, pid, data):
    d = data["detail"]
    if "models" in d and pid == "C06":
        history_phase(ctx, [], groups=[d["models"]])
        for v in ctx.violations:
            print(json.dumps(v, indent=1, ensure_ascii=False)[:3000])
        return 1 if ctx.violations else 0
    if "model" not in d:
        print(json.dumps(d, indent=1)[:4000])
        return 1
    res = gc.run_graph(ctx, [d["model"]], n_orders=6, repeat=5)
    if pid in ("C04", "C06"):
        gc.coq_spec_check(ctx, res)
    if pid == "C11":
        gc.coq_spec_check(ctx, res, what="wildcards")
    if pid == "C05":
        gc.coq_spec_check(ctx, res, what="verdict")
    evaluate(ctx, pid, res)
    print(json.dumps(d["model"]))
    for (o, a, b) in res[0]["ordered"]:
        print("order", o, "->", a[0], (a[1] if a[0] != "ok" else ""))
    for v in ctx.violations:
        print(json.dumps(v, indent=1, ensure_ascii=False)[:3000])
    return 1 if ctx.violations else 0

"""C17 — plain graph: faithful, reversible, stable DOT, sound path queries."""
import json

from lib import core, sexp, dslgen, graphgen as gg, graphspec as gs
from lib.dslgen import S, T
from props import graphprops

FAMILIES = ("graph",)
FAM = "graph"


def norm_g(x):
    return (bool(x[0]), [(n[0], T(n[1]), n[2]) for n in x[1]], [(l[0], l[1], l[2], T(l[3])) for l in x[2]])


def labels_of(m):
    out = []
    for t in m[1]:
        out.append(T(t[0]))
        for k, _ in t[1]:
            out.append(T(t[0]) + "#" + T(k))
        meta = t[2][0][0] if t[2] else []
        for _, rm in meta:
            for ref in rm[0]:
                if ref[1][0] == 2:
                    out.append(T(ref[0]) + ":*")
    out = list(dict.fromkeys(out))
    return out[:10] + ["union", "ghost#nothing", "intersection"]


def pure_computed_cycle(m):
    """two or more relations forming a cycle of pure computed usersets (relation defined as exactly another relation)"""
    R = gs.rels_of(m)
    adj = {}
    for (t, r), u in R.items():
        if u[0] == 2 and (t, T(u[1])) in R and T(u[1]) != r:
            adj.setdefault((t, r), []).append((t, T(u[1])))
    return any(a in gs.reachable(adj, a) for a in adj)


def rings(rng, n):
    """relations of one type forming a ring: each is exactly the next one (a computed userset), except for some that reach the
    next one through a tuple (a bare userset restriction "[doc#next]" or a bare tuple-to-userset "next from parent"); the
    names are drawn at random, so the tuple edge stands at any position relative to the node numbering.  A ring without
    tuple edge is a compile-time cycle; a ring with one is not."""
    out = []
    pool = ["first", "second", "third", "alpha", "beta", "gamma", "m", "n", "z", "a"]
    for _ in range(n):
        k = rng.choice([2, 3, 3, 4])
        names = rng.sample(pool, k)
        ntup = rng.choice([0, 1, 1, 1, 2])
        tup = set(rng.sample(range(k), min(k, ntup)))
        rl = [[S("parent"), [1, 1]]]
        ml = [[S("parent"), [[[S("doc"), [0], []]], [], []]]]
        for i, r in enumerate(names):
            nxt = names[(i + 1) % k]
            if i in tup:
                if rng.random() < 0.5:
                    rl.append([S(r), [1, 1]])
                    ml.append([S(r), [[[S("doc"), [1, S(nxt)], []]], [], []]])
                else:
                    rl.append([S(r), [3, S("parent"), S(nxt)]])
                    ml.append([S(r), [[], [], []]])
            else:
                rl.append([S(r), [2, S(nxt)]])
                ml.append([S(r), [[], [], []]])
        order = list(zip(rl, ml))
        rng.shuffle(order)
        out.append([S("1.1"), [[S("user"), [], []], [S("doc"), [x[0] for x in order], [[[x[1] for x in order], [], []]]]], []])
    return out


def mutual_ttus(rng, n):
    """relations of one type that are each, WITHOUT any operator, a tuple-to-userset of another one through the same tupleset,
    which admits the type itself: lines in both directions between the same two relation nodes, carrying the same label"""
    out = []
    for _ in range(n):
        k = rng.choice([2, 2, 3])
        names = rng.sample(["a", "b", "c", "viewer", "editor"], k)
        t = rng.choice(["folder", "doc"])
        rl = [[S("parent"), [1, 1]]]
        ml = [[S("parent"), [[[S(t), [0], []]] + ([[S("user"), [0], []]] if rng.random() < 0.3 else []), [], []]]]
        for i, r in enumerate(names):
            rl.append([S(r), [3, S("parent"), S(names[(i + 1) % k])]])
            ml.append([S(r), [[], [], []]])
        order = list(zip(rl, ml))
        rng.shuffle(order)
        out.append([S("1.1"), [[S("user"), [], []], [S(t), [x[0] for x in order], [[[x[1] for x in order], [], []]]]], []])
    return out


def graph_acyclic(g):
    adj = {}
    for (f, t, _, _) in g[2]:
        adj.setdefault(f, []).append(t)
    return not any(a in gs.reachable(adj, a) for a in adj)


def run(ctx):
    ctx.rule = ("generated models as for the weighted graph (plus models with parallel direct/TTU lines between the same nodes and "
                "repeated operands); per model: structure against the extracted model, single and double reversal, DOT text "
                "of repeated builds and repeated double reversals, PathExists on all pairs of up to 13 labels in the graph and "
                "its reverse, label look-up, cycle flags; non-trivial = graph has parallel lines or an operator node; distinct by model")
    ctx.assumptions = ["gonum: sequential IDs, dot.MarshalMulti order, topo.PathExistsIn, topo.DirectedCyclesIn are external (modelled where stated)",
                       "edge conditions of the plain graph are not observable through its public API and are not compared"]
    n = 300 if ctx.tier == "quick" else 6000
    rep = 6 if ctx.tier == "quick" else 40
    models = [m for m in graphprops.gen_models(ctx, n) + rings(ctx.rng, max(40, n // 6)) + mutual_ttus(ctx.rng, max(12, n // 20)) if not gs.degenerate(m)]
    labels = [labels_of(m) for m in models]
    impl = ctx.impl([{"op": "pgraph", "m": m, "labels": [S(x) for x in ls], "repeat": rep} for m, ls in zip(models, labels)])
    try:
        mg = [[norm_g(r) for r in ctx.model(FAM, ["(600 %d %s)" % (k, sexp.enc(m)) for m in models])] for k in (0, 1, 2)]
        mp = [ctx.model(FAM, ["(602 %d %s %s)" % (k, sexp.enc(m), sexp.enc(ls)) for m, ls in zip(models, labels)]) for k in (0, 1)]
    except core.ModelUnavailable:
        ctx.violation("model-unavailable", {"coq_errors": ctx.st.coq_errors[-2000:]}, found_input=False)
        mg = mp = None
    # the hypothesis of the structure theorem (Proofs/PBuilderShape.pbuild_shape), measured on every generated model
    try:
        for d in ctx.model(FAM, ["(503 %s)" % sexp.enc(m) for m in models]):
            ctx.count("theorem_pshape_applicable" if d and d[0] == 1 else "theorem_pshape_not_applicable")
    except core.ModelUnavailable:
        pass
    for k, (m, ls, i) in enumerate(zip(models, labels, impl)):
        if "r" not in i or not i["r"].get("ok"):
            ctx.violation("entry-point-abnormal", {"op": "pgraph", "model": m, "impl": {x: i.get(x) for x in ("panic", "timeout", "bad", "r")}})
            continue
        x = i["r"]
        g0, g1, g2 = norm_g(x["g0"]), norm_g(x["g1"]), norm_g(x["g2"])
        parallel = len({(l[0], l[1]) for l in g0[2]}) < len(g0[2])
        ctx.note_case(json.dumps(m), parallel or any(n[2] == 2 for n in g0[1]))
        ctx.count("parallel_lines" if parallel else "simple_lines")
        if mg is not None:
            for name, a, b in (("graph", g0, mg[0][k]), ("reversed", g1, mg[1][k]), ("twice reversed", g2, mg[2][k])):
                if a != b:
                    ctx.violation("correspondence-pgraph", {"model": m, "which": name, "impl": str(a)[:1200], "model_result": str(b)[:1200],
                                                            "what": "Model/PGraph and the implementation disagree"}, found_input=False)
                    break
            for kk, key in ((0, "paths0"), (1, "paths1")):
                if mp[kk][k] != x[key]:
                    ctx.violation("correspondence-paths", {"model": m, "labels": ls, "impl": x[key], "model_result": mp[kk][k],
                                                           "what": "Model/PGraph.path_exists and PathExists disagree"}, found_input=False)
        why = None
        # direction: direct edges leave user types / usersets / wildcards and enter relations or operators
        ntype = {n[0]: n[2] for n in g0[1]}
        if not x["model_unchanged"]:
            why = "building the graph modified the model"
        if not why and not g0[0]:
            why = "the graph is not drawn from user types towards relations (drawing direction)"
        if not why:
            why = gs.plain_structure_mismatch(m, g0)
        for (f, t, et, ts) in g0[2]:
            if et == 0 and ntype[t] not in (1, 2) and not why:
                why = "a direct edge enters node %d, which is neither a relation nor an operator" % t
        # reversal
        flip = sorted((t, f, et, ts) for (f, t, et, ts) in g0[2])
        if not why and (g1[1] != g0[1] or sorted(g1[2]) != flip or g1[0] == g0[0]):
            why = "Reversed() does not flip exactly every line and the drawing direction"
        if not why and (g2[1] != g0[1] or sorted(g2[2]) != sorted(g0[2]) or g2[0] != g0[0]):
            why = "reversing twice does not restore nodes, lines and direction"
        dot0 = T(x["dot0"])
        if not why and T(x["dot2"]) != dot0:
            why = "the DOT rendering of the twice-reversed graph differs from the original"
        if not why and any(T(d) != dot0 for d in x["dots"]):
            why = "the DOT text differs between builds of the same model"
        if not why and any(T(d) != dot0 for d in x["dot2_repeats"]):
            why = "the DOT text of a twice-reversed graph differs between runs"
        if not why:
            p0, p1 = x["paths0"], x["paths1"]
            for a in range(len(ls)):
                for b in range(len(ls)):
                    if p0[a][b] != p1[b][a] and not why:
                        why = "PathExists(%s, %s) = %d in the graph but PathExists(%s, %s) = %d in the reversed graph" % (ls[a], ls[b], p0[a][b], ls[b], ls[a], p1[b][a])
        if not why:
            known = {n[1] for n in g0[1] if n[2] != 2}
            for lab, f in zip(ls, x["lookup"]):
                if (lab in known) != bool(f) and not why:
                    why = "label look-up of %r: found=%s, node exists=%s" % (lab, bool(f), lab in known)
        if not why:
            ct, rt = x["cycles"]
            if pure_computed_cycle(m) and not ct:
                why = "relations forming a cycle of pure computed usersets are not reported as a compile-time cycle"
            if graph_acyclic(g0) and (ct or rt):
                why = "an acyclic model reports a cycle"
            # a compile-time cycle is a cycle of pure computed usersets (every line on it is a computed line, and a computed
            # line joins two relations of which one is defined as exactly the other): reported for nothing else
            if ct and not pure_computed_cycle(m) and not why:
                why = "a compile-time cycle is reported although no relations form a cycle of pure computed usersets"
            ctx.count("cycle_flags_" + ("ct" if ct else "") + ("rt" if rt else "") + ("none" if not (ct or rt) else ""))
        if why:
            ctx.violation("plain-graph", {"model": m, "why": why})
        elif len(ctx.samples) < 3 and parallel:
            ctx.sample({"model": m, "dot": dot0[:600]})


def replay(ctx, data):
    d = data["detail"]
    if "model" not in d:
        print(json.dumps(d, indent=1)[:4000])
        return 1
    i = ctx.impl([{"op": "pgraph", "m": d["model"], "labels": [S(x) for x in labels_of(d["model"])], "repeat": 20}])[0]
    print(json.dumps(d["model"]))
    if "r" in i:
        x = i["r"]
        print(T(x["dot0"]))
        print("dot2 == dot0:", T(x["dot2"]) == T(x["dot0"]), "stable:", all(T(y) == T(x["dot0"]) for y in x["dots"] + x["dot2_repeats"]))
    return 0

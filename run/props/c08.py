"""C08 — no public entry point panics or hangs on any input."""
import json
import os

from lib import core, sexp, dslgen, tf, graphgen as gg, modgen, mergecheck
from lib.dslgen import S, T
from props import graphprops, c16

FAMILIES = ("transform", "merge", "modfile")

TOKENS = ["model", "schema", "1.1", "type", "relations", "define", "module", "extend", "condition", "[", "]", "(", ")", ":", ",",
          "#", " or ", " and ", " but not ", " from ", " with ", "\n", "\r\n", "  ", "\t", "{", "}", "<", ">", "user", "a", "x:*",
          "map", "list", "string", '"', "'", "\\", "//", "é", "\x00", "*", "-", ".", "/", " "]


def mutate_bytes(rng, d, k=None):
    k = k or rng.choice([1, 1, 2, 3, 6])
    s = d
    for _ in range(k):
        if not s:
            s = rng.choice(TOKENS)
            continue
        p = rng.randrange(len(s))
        r = rng.random()
        if r < 0.3:
            s = s[:p] + rng.choice(TOKENS) + s[p:]
        elif r < 0.5:
            q = min(len(s), p + rng.randint(1, 10))
            s = s[:p] + s[q:]
        elif r < 0.65:
            s = s[:p]
        elif r < 0.8:
            q = rng.randrange(len(s))
            a, b = min(p, q), max(p, q)
            s = s[:a] + s[b:] + s[a:b]
        else:
            s = s[:p] + rng.choice(TOKENS) + s[p + 1:]
    return s


def abnormal(r):
    return r.get("panic") is not None or r.get("timeout")


def scaled_inputs():
    """input families whose size doubles: the work must not grow faster than quadratically"""
    fams = {}
    fams["many relations"] = lambda n: "model\n  schema 1.1\ntype user\ntype doc\n  relations\n" + "".join("    define r%d: [user] or r%d\n" % (i, max(0, i - 1)) for i in range(n))
    fams["long union"] = lambda n: "model\n  schema 1.1\ntype doc\n  relations\n    define r: a" + " or a" * n + "\n"
    fams["deep parentheses"] = lambda n: "model\n  schema 1.1\ntype doc\n  relations\n    define r: " + "(" * n + "a" + ")" * n + "\n"
    fams["spaces"] = lambda n: "model\n  schema 1.1\ntype doc\n  relations\n    define r:" + " " * (8 * n) + "a\n"
    fams["blank lines"] = lambda n: "model\n  schema 1.1\n" + "\n" * (8 * n) + "type doc\n"
    fams["comment lines"] = lambda n: "model\n  schema 1.1\n" + "# c\n" * (4 * n) + "type doc\n"
    fams["long identifier"] = lambda n: "model\n  schema 1.1\ntype " + "a" * (16 * n) + "\n"
    fams["unclosed brackets"] = lambda n: "model\n  schema 1.1\ntype doc\n  relations\n    define r: " + "[" * n + "\n"
    fams["garbage"] = lambda n: "@" * (4 * n)
    return fams


def replay_formfeed(ctx):
    for k in ctx.known:
        if k["fields"].get("id") != "K-C08-formfeed":
            continue
        w = json.load(open(os.path.join(core.VERIF, "findings", "K-C08-formfeed.json")))
        times = []
        for n in w["sizes"]:
            d = "model\n  schema 1.1\ntype a" + "\f" * n + "\n"
            r = ctx.impl([{"op": "dsl", "d": S(d), "modular": False}], deadline_ms=60000)[0]
            times.append(60000 if r.get("timeout") else r.get("ms", 0))
        ctx.extra["formfeed_ms"] = dict(zip(map(str, w["sizes"]), times))
        # cubic growth: doubling the run multiplies the time by about 8; quadratic would be 4
        if times[-1] >= 5 * max(1, times[-2]) and times[-1] > 300:
            ctx.known_finding("id=K-C08-formfeed " + w["what"] + " (measured ms for runs of %s form feeds: %s)" % (w["sizes"], times))
        else:
            ctx.count("known_finding_no_longer_reproduces")


def replay_getcycles(ctx):
    """known finding K-C08-getcycles: k relations, each the union of a direct assignment and all the others"""
    for k in ctx.known:
        if k["fields"].get("id") != "K-C08-getcycles":
            continue
        w = json.load(open(os.path.join(core.VERIF, "findings", "K-C08-getcycles.json")))
        times = []
        for n in w["sizes"]:
            rels = ["r%d" % i for i in range(n)]
            rl = [[S(r), [4, [1, 1]] + [[2, S(x)] for x in rels if x != r]] for r in rels]
            ml = [[S(r), [[[S("user"), [0], []]], [], []]] for r in rels]
            m = [S("1.1"), [[S("user"), [], []], [S("doc"), rl, [[ml, [], []]]]], []]
            r = ctx.impl([{"op": "pgraph", "m": m, "labels": [], "repeat": 1}], deadline_ms=120000)[0]
            times.append(120000 if r.get("timeout") else r.get("ms", 0))
        ctx.extra["getcycles_ms"] = dict(zip(map(str, w["sizes"]), times))
        # exponential growth: one more relation multiplies the time by about nine
        if times[-1] >= 4 * max(1, times[-2]) and times[-1] > 300:
            ctx.known_finding("id=K-C08-getcycles " + w["what"] + " (measured ms for %s relations: %s)" % (w["sizes"], times))
        else:
            ctx.count("known_finding_no_longer_reproduces")


def run(ctx):
    ctx.rule = ("byte-level and token-level mutations of every DSL text under tests/data fed to TransformDSLToProto / "
                "TransformModularDSLToProto / the lexer, as module files to the merge (with conflicts written in non-canonical "
                "spacing), as fga.mod; degenerate protobuf models (unset usersets, empty operators, nil direct assignment, list "
                "parameter without element type, missing metadata) fed to the printer (both paths) and both graph builders; "
                "every call under recover() and a deadline; scaled input families timed at sizes n, 2n, 4n; "
                "non-trivial = the input is rejected or degenerate; distinct by input")
    ctx.assumptions = ["running time is measured, not proved: the quadratic bound is only checked as 'quadrupling on doubling at most, with slack'",
                       "the model names the panic sites it knows; PANIC is an observable of the correspondence in every other check as well"]
    rng = ctx.rng
    replay_formfeed(ctx)
    replay_getcycles(ctx)
    corpus = dslgen.corpus_dsl()
    n = 1200 if ctx.tier == "quick" else 40000
    docs = []
    for i in range(n):
        base = rng.choice(corpus)
        docs.append(mutate_bytes(rng, base))
    docs += ["", "\n", "module", "module\nextend type a", "module \nextend type a\n  relations\n    define b: [c]", "model", "model\n  schema",
             "model\n  schema 1.1\ntype", "condition", "model\n  schema 1.1\ncondition c(", "type a\n", "extend type x", "﻿model\n  schema 1.1"]
    docs = [d for d in dict.fromkeys(docs) if "\f\f" not in d]
    for modular in (False, True):
        ir = tf.correspond_dsl(ctx, docs, modular, "mutants")
    for d, a in zip(docs, ir):
        ctx.note_case(d, a[0] != "ok")
    tf.correspond_tokens(ctx, docs[: n // 2], "mutants")
    # an error must come without a model
    raw = tf.impl_dsl(ctx, docs, True)
    for d, r in zip(docs, raw):
        x = r.get("r")
        if x and not x["ok"] and x.get("has_model"):
            ctx.violation("error-with-model", {"input": S(d), "text": d, "why": "a syntax error is returned together with a model"})
    # a character no lexer rule takes (outside comments and string literals) is a syntax error wherever it stands, also
    # where the parser can do without it: the error must come back through the returned error
    stray = []
    for i in range(n // 8):
        f = dslgen.gen_file(rng, modular=False, hostile=0.0, max_types=3, max_rels=4, depth=2, exotic=0.1, n_conds=0)
        t = dslgen.render_file(f, dslgen.Layout(rng, wild=rng.choice([0.0, 0.3]), comments=0.0))
        if "#" in t or '"' in t or "'" in t:
            continue
        k = rng.choice([len(t)] + [j for j, ch in enumerate(t) if ch == "\n"] + [rng.randrange(len(t) + 1) for _ in range(3)])
        stray.append((t[:k] + rng.choice(";$@~^`\\") + t[k:], t))
    for modular in (False, True):
        res = [tf.norm_impl_dsl(r) for r in tf.impl_dsl(ctx, [x[0] for x in stray], modular)]
        for (d, t), a in zip(stray, res):
            ctx.count("stray_character_documents")
            if a[0] == "ok":
                ctx.violation("syntax-error-not-reported", {"input": S(d), "text": d, "modular": modular,
                                                            "why": "the document contains a character that no lexer rule accepts, yet it is accepted without error"})
    tf.correspond_dsl(ctx, [x[0] for x in stray], False, "stray")
    for d, _ in stray:
        ctx.note_case(d, True)
    # module merge on damaged files and conflicts in non-canonical spacing
    sets = []
    for i in range(n // 8):
        files, _ = modgen.gen_set(rng, rng.choice([None] + modgen.CONFLICTS))
        rendered = []
        for f in files:
            t = modgen.render(rng, f, wild=0.3)[0]
            k = rng.random()
            if k < 0.3:
                t = t.replace("type ", rng.choice(["type  ", "type\t"])).replace("define ", rng.choice(["define  ", "define\t"])).replace("condition ", "condition  ")
            elif k < 0.5:
                t = mutate_bytes(rng, t)
            rendered.append((f["name"], t))
        sets.append(rendered)
    sets += [[], [("a.fga", "")], [("a.fga", "module a"), ("a.fga", "module a")], [("a.fga", "model\n  schema 1.1\ntype t\ncondition c(x: int) {\n  x > 1\n}")]]
    mergecheck.run_sets(ctx, sets, "merge")
    ctx.evaluations += len(sets)
    # degenerate protobuf models
    models = [dslgen.gen_wire_model(rng, degenerate=rng.choice([0.2, 0.4])) for _ in range(n // 3)]
    models += [[S("1.1"), [[S("t"), [[S("r"), u]], meta]], conds]
               for u in ([0], [1, 0], [4], [5], [6, [0], [0]], [4, [0]], [6, [1, 1], [0]], [3, [], []], [2, []])
               for meta in ([], [[[], [], []]])
               for conds in ([], [[S("c"), [S("c"), S("x"), [[S("p"), [10]]], []]]], [[S("c"), [S("d"), S(""), [], []]]])]
    # degenerate type restrictions: a userset restriction without relation name (first, or after another one), an
    # empty type name, a wildcard of the empty type, a relation no type defines
    for refs in ([[S("user"), [1, []], []]], [[S("user"), [0], []], [S("user"), [1, []], S("c")]], [[S(""), [0], []]], [[S(""), [2], []]],
                 [[S("user"), [1, S("nope")], []]], [[S("user"), [1, []], []], [S("user"), [2], []]], []):
        for u in ([1, 1], [4, [1, 1], [2, S("r")]], [5, [1, 1], [3, S("r"), S("r")]], [6, [2, S("q")], [1, 1]]):
            models.append([S("1.1"), [[S("user"), [], []], [S("t"), [[S("r"), u]], [[[[S("r"), [refs, [], []]]], [], []]]]], []])
    for src in (False, True):
        for via in ("proto", "json"):
            tf.correspond_print(ctx, models, src, via, "degenerate")
    for m in models:
        ctx.note_case(json.dumps(m), True)
    for op, extra in (("wgraph", {"orders": [], "repeat": 2}), ("pgraph", {"labels": [S("t"), S("t#r")], "repeat": 1})):
        for m, r in zip(models, ctx.impl([dict({"op": op, "m": m}, **extra) for m in models])):
            if abnormal(r):
                ctx.violation("entry-point-abnormal", {"op": op, "model": m, "impl": {k: r.get(k) for k in ("panic", "timeout")}})
    # fga.mod
    mods = [mutate_bytes(rng, rng.choice(["schema: '1.2'\ncontents:\n  - a.fga\n  - b/c.fga\n", "schema: 1.2\ncontents: x\n", "contents:\n  - {a: b}\n  - [1]\n"]), 3) for _ in range(n // 3)]
    mods += ["", ":", "schema: [", "- a", "schema: &a '1.2'\ncontents: *a\n", "schema: '1.2'\ncontents:\n  - !!binary aGk=\n", "\x00", "contents: !!seq 5"]
    for d, r in zip(mods, ctx.impl([{"op": "modfile", "d": list(d.encode("utf-8", "replace"))} for d in mods])):
        ctx.note_case(d, True)
        if abnormal(r):
            ctx.violation("entry-point-abnormal", {"op": "modfile", "input": list(d.encode("utf-8", "replace")), "text": d, "impl": {k: r.get(k) for k in ("panic", "timeout")}})
    # scaling
    sizes = [40, 80, 160] if ctx.tier == "quick" else [100, 200, 400, 800]
    timing = {}
    for name, fn in scaled_inputs().items():
        ms = []
        for k in sizes:
            r = ctx.impl([{"op": "dsl", "d": S(fn(k)), "modular": False}], deadline_ms=60000)[0]
            ms.append(60000 if r.get("timeout") else r.get("ms", 0))
            if r.get("panic") is not None:
                ctx.violation("entry-point-abnormal", {"op": "dsl", "family": name, "size": k, "impl": {"panic": r["panic"]}})
        timing[name] = ms
        # more than cubic-looking growth on the last doubling, and slow in absolute terms
        if ms[-1] > 1500 and ms[-1] > 7 * max(1, ms[-2]):
            ctx.violation("superquadratic", {"family": name, "sizes": sizes, "ms": ms, "input": S(fn(sizes[-1])),
                                             "why": "doubling the input multiplies the running time by more than 7 (quadratic work would be 4)"})
    # the same for protobuf models handed to the graph builders: k relations that are tuple-to-usersets over one tupleset with
    # k parent types, none of which defines the computed relation (the plain builder skips them): the input has 3k items
    def ttu_fan(k):
        types = [[S("user"), [], []]] + [[S("t%d" % i), [], []] for i in range(k)]
        refs = [[S("t%d" % i), [0], []] for i in range(k)]
        rl = [[S("parent"), [1, 1]]] + [[S("x%d" % i), [3, S("parent"), S("nope")]] for i in range(k)]
        ml = [[S("parent"), [refs, [], []]]] + [[S("x%d" % i), [[], [], []]] for i in range(k)]
        return [S("1.1"), types + [[S("doc"), rl, [[ml, [], []]]]], []]
    msizes = [400, 800, 1600]
    for name, op, extra in (("plain graph: tuple-to-usersets over parent types without the relation", "pgraph", {"labels": [], "repeat": 1}),
                            ("weighted graph: the same model (rejected)", "wgraph", {"orders": [], "repeat": 1})):
        ms = []
        for k in msizes:
            r = ctx.impl([dict({"op": op, "m": ttu_fan(k)}, **extra)], deadline_ms=120000)[0]
            ms.append(120000 if r.get("timeout") else r.get("ms", 0))
            if r.get("panic") is not None:
                ctx.violation("entry-point-abnormal", {"op": op, "family": name, "size": k, "impl": {"panic": r["panic"]}})
        timing[name] = ms
        # two doublings: quadratic work multiplies the time by 16, cubic by 64
        if ms[-1] > 1500 and ms[-1] > 30 * max(1, ms[0]):
            ctx.violation("superquadratic", {"family": name, "sizes": msizes, "ms": ms, "op": op, "model_size_k": msizes[-1],
                                             "why": "quadrupling the model multiplies the running time of the graph builder by more than 30 (quadratic work would be 16, cubic 64): "
                                                    "k relations 'nope from parent' over a tupleset with k parent types cost k^3 look-ups"},
                          found_input=True)
    ctx.extra["scaling_ms"] = {"sizes": sizes, "model_sizes": msizes, "families": timing}
    ctx.sample({"mutant": docs[0][:200]})
    ctx.sample({"degenerate_model": models[-1]})


def replay(ctx, data):
    d = data["detail"]
    if "input" in d and d.get("op", "dsl") == "dsl":
        text = sexp.to_str(d["input"])
        for modular in (False, True):
            r = tf.impl_dsl(ctx, [text], modular)[0]
            print(modular, {k: r.get(k) for k in ("panic", "timeout", "ms")}, str(r.get("r"))[:400])
        return 0
    print(json.dumps(d, indent=1)[:4000])
    return 0

"""C02 — JSON -> DSL succeeds exactly for DSL-expressible models and loses nothing."""
import itertools
import json

from lib import core, sexp, dslgen, tf
from lib.dslgen import S, T

FAMILIES = ("transform",)

# ---- the specification, written independently of the printer (no validator counter) ----


def count_this(u):
    return dslgen.count_this(u)


def is_this(u):
    return u[0] == 1


def first_pos(u):
    if u[0] == 1:
        return True
    if u[0] == 6:
        return first_pos(u[1])
    if u[0] in (4, 5):
        cs = u[1:]
        return any(is_this(c) for c in cs) or (bool(cs) and first_pos(cs[0]))
    return False


def expressible(u):
    n = count_this(u)
    return n == 0 or (n == 1 and first_pos(u))


def normalize(u):
    """hoist the direct assignment, collapse single-child unions/intersections"""
    if u[0] in (4, 5):
        cs = [normalize(c) for c in u[1:]]
        k = next((i for i, c in enumerate(u[1:]) if is_this(c)), None)
        if k:
            cs = [cs[k]] + cs[:k] + cs[k + 1:]
        if len(cs) == 1:
            return cs[0]
        return [u[0]] + cs
    if u[0] == 6:
        return [6, normalize(u[1]), normalize(u[2])]
    return u


def carriable_userset(u):
    if u[0] == 0 or u == [1, 0]:
        return False
    if u[0] in (4, 5):
        return len(u) > 1 and all(carriable_userset(c) for c in u[1:])
    if u[0] == 6:
        return carriable_userset(u[1]) and carriable_userset(u[2])
    return True


def carriable(m):
    """the domain of the property: what a DSL document can carry at all"""
    for t in m[1]:
        meta = dict((T(k), v) for k, v in (t[2][0][0] if t[2] else []))
        for k, u in t[1]:
            if not carriable_userset(u):
                return False
            refs = meta.get(T(k), [[], [], []])[0]
            if count_this(u) > 0 and not refs:
                return False
            for r in refs:
                if r[1][0] == 1 and not r[1][1]:
                    return False
    for k, c in m[2]:
        if k != c[0] or 125 in c[1] or 35 in c[1]:
            return False
        for _, p in c[2]:
            n = p[0]
            if n in (9, 10):
                if len(p) != 2 or not (2 <= p[1][0] <= 8 or p[1][0] == 11) or len(p[1]) != 1:
                    return False
            elif not (2 <= n <= 8 or n == 11) or len(p) != 1:
                return False
        if not c[2]:
            return False
    return True


def expected_back(m):
    """what parsing the printed DSL must give (rewrites, restrictions, conditions; metadata presence aside)"""
    types = []
    for t in m[1]:
        meta = dict((T(k), v) for k, v in (t[2][0][0] if t[2] else []))
        rels = []
        for k, u in sorted(t[1]):
            refs = meta.get(T(k), [[], [], []])[0] if count_this(u) > 0 else []
            rels.append([k, normalize(u), refs])
        types.append([t[0], rels])
    conds = sorted([[c[0], dslgen.strip_expr_ws(c[1]), sorted(c[2])] for _, c in m[2]])
    return [m[0], types, conds]


def project_back(m):
    types = []
    for t in m[1]:
        meta = dict((T(k), v) for k, v in (t[2][0][0] if t[2] else []))
        types.append([t[0], [[k, u, meta.get(T(k), [[], [], []])[0]] for k, u in sorted(t[1])]])
    conds = sorted([[c[0], dslgen.strip_expr_ws(c[1]), sorted(c[2])] for _, c in m[2]])
    return [m[0], types, conds]


def type_order(m):
    """the printer sorts the types of a modular model; compare types as a set there"""
    return m


def spec_check(ctx, models):
    """the Coq specification (Spec/Expressible.v, Spec/Normalize.v — the definitions the C02 theorems are
    about), evaluated by the extracted model, against this file's independent oracle: the two statements of
    the property must coincide on every relation, else the framework itself is inconsistent"""
    try:
        rs = ctx.model(tf.FAM, ["(207 %s)" % sexp.enc(m) for m in models])
    except core.ModelUnavailable:
        return
    for m, r in zip(models, rs):
        if r is None or r == []:
            continue
        for t, st in zip(m[1], r):
            for (k, u), sr in zip(t[1], st[1]):
                ctx.count("spec_relations_compared")
                mine = [1 if carriable_userset(u) else 0, 1 if expressible(u) else 0, normalize(u)]
                if sr[1] != mine[0] or (mine[0] and (sr[2] != mine[1] or (mine[1] and sr[3] != mine[2]))):
                    raise RuntimeError("specification drift between Spec/*.v and run/props/c02.py on %r: %r vs %r"
                                       % (u, sr[1:], mine))


def assignable_map(r):
    return {(T(t), T(k)): v for t, k, v in r}


def assignable_check(ctx, models, printed):
    """utils.IsRelationAssignable, the property's last observation point: for every relation of a carriable model it must
    answer yes exactly when the relation has a direct assignment - i.e. when the DSL written for it holds a '[..]' list -
    and give the same answer on the model read back from that DSL.  Compared with Model/Utils.is_assignable (wire op 210:
    the function the theorems C02_assignable_* are about) and with this file's own count of direct assignments.
    printed: {model index: (text, raw re-read model or None)}"""
    ia = ctx.impl([{"op": "assignable", "m": m} for m in models])
    try:
        ma = ctx.model(tf.FAM, ["(210 %s)" % sexp.enc(m) for m in models])
    except core.ModelUnavailable:
        ma = [None] * len(models)
    back_idx = [k for k in sorted(printed) if printed[k][1] is not None]
    ib = ctx.impl([{"op": "assignable", "m": printed[k][1]} for k in back_idx])
    back = {k: assignable_map(r["r"]["rels"]) for k, r in zip(back_idx, ib) if "r" in r}
    for k, (m, a, b) in enumerate(zip(models, ia, ma)):
        if "r" not in a:
            ctx.violation("entry-point-abnormal", {"op": "assignable", "model": m, "impl": a})
            continue
        got = assignable_map(a["r"]["rels"])
        names = [T(t[0]) for t in m[1]]
        if len(set(names)) != len(names):
            continue
        if b is not None and assignable_map(b) != got:
            ctx.violation("correspondence-assignable", {"model": m, "impl": sorted(got.items()), "model_result": sorted(assignable_map(b).items()),
                                                        "what": "Model/Utils.is_assignable and utils.IsRelationAssignable disagree"}, found_input=False)
        if not carriable(m):
            continue
        lines = {}
        if k in printed:
            cur = None
            for line in printed[k][0].split("\n"):
                if line.startswith("type "):
                    cur = line[5:].split(" #")[0]
                elif line.startswith("    define ") and cur is not None:
                    nm, _, rest = line[11:].partition(":")
                    lines[(cur, nm)] = "[" in rest.split(" #")[0]
        for t in m[1]:
            for rn, u in t[1]:
                key = (T(t[0]), T(rn))
                ctx.evaluations += 1
                ctx.count("assignable_relations_checked")
                want = count_this(u) > 0
                why = None
                if bool(got.get(key)) != want:
                    why = "IsRelationAssignable answers %s for a relation with %d direct assignment(s)" % (bool(got.get(key)), count_this(u))
                elif key in lines and lines[key] != bool(got.get(key)):
                    why = "IsRelationAssignable answers %s although the DSL written for the relation %s a type restriction list" % (
                        bool(got.get(key)), "holds" if lines[key] else "holds no")
                elif k in back and key in back[k] and bool(back[k][key]) != bool(got.get(key)):
                    why = "IsRelationAssignable answers differently on the model read back from the DSL"
                if why:
                    ctx.violation("assignable-disagrees", {"model": m, "type": key[0], "relation": key[1], "why": why,
                                                           "text": printed.get(k, (None,))[0]})
                    break


def check_models(ctx, models, label):
    spec_check(ctx, models)
    for via in ("proto", "json"):
        ir = tf.correspond_print(ctx, models, False, via, label)
        if via == "json":
            continue
        texts = []
        idx = []
        for k, (m, a) in enumerate(zip(models, ir)):
            if a[0] not in ("ok", "err"):
                continue
            dom = carriable(m)
            ctx.count(f"{label}_{'carriable' if dom else 'out_of_domain'}")
            if not dom:
                continue
            bad = [(T(t[0]), T(k2)) for t in m[1] for k2, u in t[1] if not expressible(u)]
            exp_ok = not bad
            ctx.note_case(json.dumps(m), any(count_this(u) for t in m[1] for _, u in t[1]))
            if a[0] == "ok" and not exp_ok:
                ctx.violation("printed-inexpressible", {"model": m, "why": "conversion succeeded although relation %s#%s has a direct assignment that cannot be placed first or occurs twice" % bad[0], "text": a[1]})
            elif a[0] == "err" and exp_ok:
                ctx.violation("rejected-expressible", {"model": m, "why": "conversion failed although every relation is DSL-expressible", "error": a[1]})
            elif a[0] == "err" and a[1][0] != "nesting":
                ctx.violation("wrong-error", {"model": m, "why": "an inexpressible model must be reported as unsupported nesting", "error": a[1]})
            elif a[0] == "ok":
                texts.append(a[1])
                idx.append(k)
                if len(ctx.samples) < 4 and len(a[1]) < 400 and any(count_this(u) for t in m[1] for _, u in t[1]):
                    ctx.sample({"model": m, "dsl": a[1]})
        # losslessness: parse what was printed
        raw_back = tf.impl_dsl(ctx, texts, False)
        back = [tf.norm_impl_dsl(r) for r in raw_back]
        assignable_check(ctx, models, {k: (t, r["r"]["model"] if "r" in r and r["r"].get("ok") else None) for k, t, r in zip(idx, texts, raw_back)})
        # the document-level theorem (Proofs/DocRoundTrip.document_round_trip_decidable), evaluated by the extracted model:
        # where model_okb says it applies, the implementation's re-read model must be the model [canonical m] it promises
        try:
            th = ctx.model(tf.FAM, ["(208 %s)" % sexp.enc(models[k]) for k in idx])
        except core.ModelUnavailable:
            th = [None] * len(idx)
        for k, b, r8 in zip(idx, back, th):
            if not r8:
                continue
            ctx.count("theorem_document_applicable" if r8[0] == 1 else "theorem_document_not_applicable")
            if r8[0] == 1:
                if b[0] != "ok":
                    ctx.violation("theorem-promises-acceptance", {"model": models[k], "why": "the proved round trip applies to this model (model_okb) but the DSL written for it is rejected", "impl": b})
                elif dslgen.canon_model(r8[1]) != b[1]:
                    ctx.violation("theorem-rhs-differs", {"model": models[k], "why": "the re-read model differs from the canonical form the proved round trip promises",
                                                          "promised": dslgen.canon_model(r8[1]), "got": b[1]})
        for k, t, b in zip(idx, texts, back):
            m = models[k]
            want = expected_back(m)
            modular = any(td[2] and td[2][0][1] for td in m[1])
            if b[0] != "ok":
                ctx.violation("output-does-not-parse", {"model": m, "text": t, "why": "the produced DSL is rejected by the DSL parser", "impl": b})
                continue
            got = project_back(b[1])
            if modular:
                got[1] = sorted(got[1])
                want[1] = sorted(want[1])
            if got != want:
                ctx.violation("lossy", {"model": m, "text": t, "why": "parsing the produced DSL does not give back the input model (up to hoisting, collapsing, dropped restrictions, metadata)",
                                        "got": got, "want": want})


def all_trees(n):
    """all rewrite trees with exactly n nodes over {this, a, 'a from b', union(1-3), inter(1-3), diff}"""
    if n == 1:
        return [[1, 1], [2, S("a")], [3, S("b"), S("a")]]
    out = []
    for k in (1, 2, 3):
        for parts in itertools.product(range(1, n), repeat=k):
            if sum(parts) != n - 1:
                continue
            for kids in itertools.product(*[all_trees(p) for p in parts]):
                out.append([4] + list(kids))
                out.append([5] + list(kids))
                if k == 2:
                    out.append([6] + list(kids))
    return out


def tree_models(trees):
    ms = []
    for u in trees:
        refs = [[S("user"), [0], []]]
        ms.append([S("1.1"), [[S("user"), [], []],
                              [S("doc"), [[S("a"), [1, 1]], [S("b"), [1, 1]], [S("r"), u]],
                               [[[[S("a"), [refs, [], []]], [S("b"), [refs, [], []]], [S("r"), [refs, [], []]]], [], []]]]], []])
    return ms


def run(ctx):
    ctx.rule = ("random models: rewrite trees with any position and multiplicity of direct assignment, restrictions with "
                "wildcards/usersets/conditions, conditions, modular metadata, plus a degenerate stream (outside the "
                "property's domain: correspondence only) and all rewrite trees (operators with 1-3 operands) up to 5 (quick) / 6 (thorough) nodes; "
                "non-trivial = has a direct assignment; distinct by model")
    ctx.assumptions = ["domain = carriable models (every operator has a child, restrictions present where a direct assignment is, "
                       "container parameters have one scalar element type, expression without '}' and '#')"]
    n = 700 if ctx.tier == "quick" else 20000
    rng = ctx.rng
    models = [dslgen.gen_wire_model(rng, degenerate=rng.choice([0, 0, 0, 0.2]), p_this=rng.choice([0.15, 0.3, 0.5]))
              for _ in range(n)]
    check_models(ctx, models, "random")
    # a printed line of 64 KiB and more (a long condition expression), with declarations after it in the output
    long_expr = S("x == 0" + " || x == 1" * 6600)
    refs = [[S("user"), [0], []]]
    long_models = [[S("1.1"), [[S("user"), [], []], [S("doc"), [[S("viewer"), [1, 1]]], [[[[S("viewer"), [refs, [], []]]], [], []]]]],
                    [[S("a_long"), [S("a_long"), long_expr, [[S("x"), [4]]], []]], [S("b_short"), [S("b_short"), S("x > 1"), [[S("x"), [4]]], []]]]]]
    ctx.extra["long_line_bytes"] = len(long_expr) + 2
    check_models(ctx, long_models, "long_line")
    maxn = 5 if ctx.tier == "quick" else 6
    trees = [t for k in range(1, maxn + 1) for t in all_trees(k)]
    ctx.extra["exhaustive_tree_nodes"] = maxn
    ctx.extra["exhaustive_trees"] = len(trees)
    check_models(ctx, tree_models(trees), "trees")


def replay(ctx, data):
    d = data["detail"]
    if "model" not in d:
        print(json.dumps(d, indent=1)[:4000])
        return 1
    check_models(ctx, [d["model"]], "replay")
    for v in ctx.violations:
        print(json.dumps(v, indent=1, ensure_ascii=False)[:3000])
    return 1 if ctx.violations else 0

"""C13 — pure functions: inputs untouched, calls independent of history, thread-safe."""
import json

from lib import core, sexp, dslgen, tf, graphgen as gg, modgen, mergecheck
from lib.dslgen import S, T
from props import graphprops

FAMILIES = ("transform",)


def scrub(x):
    """drop error message texts (they carry random operator-node ULIDs) and timings; of a failed weighted-graph build keep
    the verdict only: which of the three error classes a rejected model gets depends on Go's map order even between two
    sequential builds (seen under seed 47: a model inside K-C04-operands, 40 x cycle and 20 x invalid in 60 fresh builds),
    so a difference there says nothing about history or concurrency; a panic (class 8) stays visible"""
    if isinstance(x, dict):
        if x.get("ok") == 0 and "has_graph" in x and x.get("class") != 8:
            x = dict(x, **{"class": "rejected"})
        return {k: scrub(v) for k, v in x.items() if k not in ("msg", "ms", "stack")}
    if isinstance(x, list):
        return [scrub(v) for v in x]
    return x


def strip(r):
    """a harness result without timing fields and free-text messages"""
    return json.dumps(scrub(r), sort_keys=True)


def run(ctx):
    ctx.rule = ("(1) frames: after every call of the printer (both options, modular and plain models with the direct assignment in "
                "any position), the weighted and plain graph builders and the module merge, the argument is compared with a copy "
                "taken before the call; (2) histories: the same batch of DSL parses, prints and graph builds is run in one process "
                "in two different orders, after a warm-up with unrelated inputs, and from 16 goroutines at once, and every result "
                "is compared with the result of the first run; (3) one shared model used from 8 goroutines, results compared with "
                "the sequential result, under the Go race detector; non-trivial = modular model or model with a direct assignment "
                "that the printer has to hoist; distinct by request")
    ctx.assumptions = ["data-race freedom is a statement about the Go memory model: the race detector run is supporting evidence, not a theorem",
                       "history independence of the ANTLR runtime caches is assumed by the model (its functions have no state argument) and tested here"]
    rng = ctx.rng
    n = 200 if ctx.tier == "quick" else 4000
    models = [dslgen.gen_wire_model(rng, degenerate=0, p_this=0.35) for _ in range(n)]
    # conditions whose inner name is empty or differs from their map key (what a JSON document can carry): a printer
    # that "repairs" the name would be writing into the caller's model
    for m in list(models[:60]):
        if m[2]:
            cs = [[k, [S("") if i == 0 else S(T(c[0]) + "_other"), c[1], c[2], c[3]]] for i, (k, c) in enumerate(m[2])]
            models.append([m[0], m[1], cs])
    # 1. frames
    for src in (False, True):
        ir = tf.correspond_print(ctx, models, src, "proto", "frame")
        raw = tf.impl_print(ctx, models, src, "proto")
        for m, a, r in zip(models, ir, raw):
            if "r" not in r:
                continue
            hoist = any(u[0] in (4, 5) and any(c[0] == 1 for c in u[2:]) for t in m[1] for _, u in t[1])
            ctx.note_case(json.dumps([m, src]), hoist or any(t[2] and t[2][0][1] for t in m[1]))
            if not r["r"]["unchanged"]:
                ctx.violation("input-modified", {"op": "print", "src": src, "model": m,
                                                 "why": "TransformJSONProtoToDSL modified the model it was given"})
    gmodels = [m for m in graphprops.gen_models(ctx, n // 2)]
    # degenerate type restrictions (a userset restriction without relation name, first or after another one): a builder that
    # "cleans" them must not do it in the caller's list
    for refs in ([[S("user"), [1, []], []]], [[S("user"), [0], []], [S("group"), [1, []], S("")]], [[S("group"), [1, []], []], [S("user"), [0], []], [S("user"), [2], []]]):
        for u in ([1, 1], [4, [1, 1], [2, S("r")]]):
            gmodels.append([S("1.1"), [[S("user"), [], []], [S("group"), [], []], [S("t"), [[S("r"), u]], [[[[S("r"), [refs, [], []]]], [], []]]]], []])
    for op in ("wgraph", "pgraph"):
        res = ctx.impl([dict({"op": op, "m": m, "repeat": 1}, **({"orders": []} if op == "wgraph" else {"labels": []})) for m in gmodels])
        for m, r in zip(gmodels, res):
            if "r" in r and r["r"].get("model_unchanged") is False:
                ctx.violation("input-modified", {"op": op, "model": m, "why": "the graph builder modified the model it was given"})
    sets = []
    for _ in range(n // 4):
        files, _ = modgen.gen_set(rng, rng.choice([None, None] + modgen.CONFLICTS[:6]))
        sets.append([(f["name"], modgen.render(rng, f)[0]) for f in files])
    for rendered, r in zip(sets, mergecheck.impl_merge(ctx, sets)):
        if "r" in r and not r["r"]["files_unchanged"]:
            ctx.violation("input-modified", {"op": "merge", "files": [{"name": a, "contents": b} for a, b in rendered],
                                             "why": "TransformModuleFilesToModel modified the slice of module files"})
    # 2. histories
    docs = dslgen.corpus_dsl()[:120]
    for _ in range(n // 4):
        f = dslgen.gen_file(rng, modular=rng.random() < 0.3, hostile=0.2)
        docs.append(dslgen.render_file(f, dslgen.Layout(rng, wild=rng.choice([0, 0.3]))))
    reqs = [{"op": "dsl", "d": S(d), "modular": True} for d in docs]
    reqs += [{"op": "print", "m": m, "src": True, "via": "proto"} for m in models[:n // 2]]
    # (graph builds of models with a cycle that are not well-founded are order-dependent: known finding K-WG-cycles of C05/C06)
    from lib import graphspec as gs
    stable = [m for m in gmodels if not gs.degenerate(m) and (gs.well_founded(m) or not gs.cycle_info(m)["has_cycle"])]
    reqs += [{"op": "wgraph", "m": m, "orders": [], "repeat": 1} for m in stable[:n // 4]]
    # the nine validators one by one, on strings that only some of them accept: which validator a process uses first must not matter
    vstrings = ["tenant:in_office_hours", "doc:1#viewer", "a@b", "viewer", "user:*", "x" * 51, "doc:" + "a" * 252, ""]
    reqs += [{"op": "validate", "s": S(v), "only": k} for v in vstrings for k in range(9)]
    first = [strip(r) for r in ctx.impl(reqs, seq=True)]
    order2 = list(range(len(reqs)))
    rng.shuffle(order2)
    warm = [{"op": "dsl", "d": S("model\n  schema 1.1\ntype x%d\n  relations\n    define r: [x%d] or r or (a and b)\n" % (i, i)), "modular": False} for i in range(30)]
    second = ctx.impl(warm + [reqs[i] for i in order2], seq=True)[len(warm):]
    third = ctx.impl(reqs, seq=False, workers=16)
    rev = list(range(len(reqs)))[::-1]
    fourth = ctx.impl([reqs[i] for i in rev], seq=True)
    for run_name, idxs, res in (("other order after warm-up", order2, second), ("16 goroutines", list(range(len(reqs))), third),
                                ("the reverse order", rev, fourth)):
        for i, r in zip(idxs, res):
            ctx.evaluations += 1
            if strip(r) != first[i]:
                ctx.violation("history-dependent", {"request": reqs[i], "run": run_name,
                                                    "why": "the result of a call differs between a fresh sequential run and " + run_name,
                                                    "first": first[i][:600], "other": strip(r)[:600]})
                break
    # 2b. one builder object reused for several models, sequentially and concurrently: each result must be the one a
    #     fresh builder gives (state kept on the builder between calls would make a call depend on the history)
    pool = [m for m in stable]
    rng.shuffle(pool)
    groups = [pool[i:i + 5] for i in range(0, len(pool), 5)]
    graphprops.history_phase(ctx, [], groups=[g for g in groups if len(g) >= 2][: (30 if ctx.tier == "quick" else 200)])
    # 3. one shared model, many goroutines (+ race detector)
    # the weighted graph of a model with a cycle that is not well-founded depends on Go's map order even sequentially
    # (known finding K-WG-cycles, C05/C06): for such models it is built but left out of the comparison
    def wg_stable(m):
        try:
            return not gs.degenerate(m) and (gs.well_founded(m) or not gs.cycle_info(m)["has_cycle"])
        except Exception:
            return False
    shared = [{"op": "shared", "m": m, "workers": 8, "rounds": 3, "nowg": not wg_stable(m)} for m in models[:40] + stable[:40]]
    ctx.count("shared_models_weighted_graph_compared", sum(1 for q in shared if not q["nowg"]))
    ctx.count("shared_models_weighted_graph_skipped", sum(1 for q in shared if q["nowg"]))
    for q, r in zip(shared, ctx.impl(shared, seq=True)):
        if "r" not in r:
            ctx.violation("entry-point-abnormal", {"op": "shared", "model": q["m"], "impl": {k: r.get(k) for k in ("panic", "timeout", "bad")}})
        elif r["r"]["differ"] or not r["r"]["unchanged"]:
            ctx.violation("shared-model", {"model": q["m"], "why": "concurrent calls on one shared model: %d of %d results differ from the sequential result; model unchanged: %s"
                                                                    % (r["r"]["differ"], r["r"]["calls"], r["r"]["unchanged"]),
                                           "first_difference": r["r"].get("first_difference")})
    binary, err = core.build_race_harness()
    if binary is None:
        ctx.extra["race_detector"] = "not available: " + err[-300:]
    else:
        k = 12 if ctx.tier == "quick" else 80
        res, races = core.run_race(binary, shared[:k] + shared[40:40 + k] + reqs[:60])
        ctx.extra["race_detector"] = "ran %d requests" % (2 * k + 60)
        if races:
            first_race = races[races.index("DATA RACE"):][:1800]
            ctx.violation("data-race", {"why": "the Go race detector reports a data race while one shared model is used from several goroutines",
                                        "report": first_race, "requests": "shared-model workload (see run/props/c13.py)"})


def replay(ctx, data):
    print(json.dumps(data["detail"], indent=1)[:4000])
    return 0

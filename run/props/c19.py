"""C19 — Go, JS and Java parsers are generated from the one grammar in the repository."""
import json

from lib import core
import gen_coq
import gen_atn

FAMILIES = ()
NEED_HARNESS = False


def first_diff(a, b):
    for k, (x, y) in enumerate(zip(a, b)):
        if x != y:
            return k
    return min(len(a), len(b)) if len(a) != len(b) else None


def compare(ctx, label, ref_name, ref, others):
    for name, val in others:
        ctx.evaluations += 1
        ctx.nontrivial.add(label + name)
        k = first_diff(ref, val)
        if k is not None:
            ctx.violation(label + "-differs", {"artefact": label, "reference": ref_name, "other": name, "first_difference_at": k,
                                               "reference_value": ref[max(0, k - 2):k + 3], "other_value": val[max(0, k - 2):k + 3],
                                               "lengths": [len(ref), len(val)],
                                               "why": f"{label}: {name} differs from {ref_name} at index {k}"})


def run(ctx):
    ctx.rule = ("finite: the 12 serialized automata (3 packages + 3 .interp files, lexer and parser), the rule-name, "
                "symbolic-name and literal-name tables of the three packages, the .tokens files and the rule/token names "
                "of the two .g4 files are compared completely; the 'failing input' of this property is the first differing "
                "index or name; distinct = one comparison per artefact pair")
    ctx.assumptions = ["equality of the serialized automata implies equal languages and parse trees given the same ANTLR runtime semantics "
                       "(JS and Java runtimes cannot run here)"]
    ctx.exhaustive = True
    try:
        for which in ("lexer", "parser"):
            g = gen_atn.go_atn(which)
            compare(ctx, which + "-atn", "pkg/go/gen", g,
                    [("pkg/js/gen", gen_atn.js_atn(which)), ("pkg/java gen", gen_atn.java_atn(which))]
                    + [(f"{l} .interp", gen_atn.interp_atn(l, which)) for l in ("go", "js", "java")])
        declared, lrules, fragments, typed = gen_atn.g4_lexer()
        prules = gen_atn.g4_parser_rules()
        tokens = sorted(set(declared) | {r for r in lrules if r not in fragments and r not in typed})
        compare(ctx, "lexer-rule-names", "OpenFGALexer.g4", lrules,
                [("go", gen_atn.go_names("lexer", "RuleNames")), ("js", gen_atn.js_names("lexer", "ruleNames")),
                 ("java", gen_atn.java_names("lexer", "makeRuleNames"))])
        compare(ctx, "parser-rule-names", "OpenFGAParser.g4", prules,
                [("go", gen_atn.go_names("parser", "RuleNames")), ("js", gen_atn.js_names("parser", "ruleNames")),
                 ("java", gen_atn.java_names("parser", "makeRuleNames"))])
        gs = gen_atn.go_names("lexer", "SymbolicNames")
        compare(ctx, "symbolic-names", "go lexer", gs,
                [("js lexer", gen_atn.js_names("lexer", "symbolicNames")), ("java lexer", gen_atn.java_names("lexer", "makeSymbolicNames")),
                 ("go parser", gen_atn.go_names("parser", "SymbolicNames")), ("js parser", gen_atn.js_names("parser", "symbolicNames")),
                 ("java parser", gen_atn.java_names("parser", "makeSymbolicNames"))])
        gl = gen_atn.go_names("lexer", "LiteralNames")
        compare(ctx, "literal-names", "go lexer", gl,
                [("js lexer", gen_atn.js_names("lexer", "literalNames")), ("java lexer", gen_atn.java_names("lexer", "makeLiteralNames")),
                 ("go parser", gen_atn.go_names("parser", "LiteralNames")), ("js parser", gen_atn.js_names("parser", "literalNames")),
                 ("java parser", gen_atn.java_names("parser", "makeLiteralNames"))])
        compare(ctx, "token-names-vs-grammar", "OpenFGALexer.g4", tokens, [("go", sorted(x for x in gs if x))])
        tf0 = gen_atn.tokens_file("go", "lexer")
        for l in ("go", "js", "java"):
            for w in ("lexer", "parser"):
                compare(ctx, "tokens-file", "go lexer .tokens", tf0, [(f"{l} {w} .tokens", gen_atn.tokens_file(l, w))])
        # .tokens agrees with the symbolic/literal tables
        for name, num in tf0:
            ctx.evaluations += 1
            ok = (name.startswith("'") and num < len(gl) and gl[num] == name) or (num < len(gs) and gs[num] == name)
            if not ok:
                ctx.violation("tokens-file-vs-tables", {"token": name, "number": num, "why": "OpenFGALexer.tokens disagrees with the generated name tables"})
        cbs = gen_atn.listener_callbacks()
        for c in cbs:
            ctx.evaluations += 1
            base = c[5:] if c.startswith("Enter") else c[4:]
            rule = base[0].lower() + base[1:]
            if rule not in prules:
                ctx.violation("callback-without-rule", {"callback": c, "why": f"OpenFgaDslListener.{c} is never called: the grammar has no rule '{rule}'"})
        ctx.sample({"lexer_atn_length": len(gen_atn.go_atn("lexer")), "parser_atn_length": len(gen_atn.go_atn("parser")),
                    "parser_rules": prules[:6], "callbacks": cbs[:6]})
        ctx.count("listener_callbacks", len(cbs))
        ctx.count("token_names", len(tokens))
    except gen_coq.TranslateError as e:
        ctx.violation("artefact-unreadable", {"error": str(e)}, found_input=False)


def replay(ctx, data):
    print(json.dumps(data["detail"], indent=1)[:3000])
    run(ctx)
    for v in ctx.violations:
        print(json.dumps(v, indent=1)[:1500])
    return 1 if ctx.violations else 0

"""C06 — see props/graphprops.py"""
from props import graphprops

FAMILIES = graphprops.FAMILIES


def run(ctx):
    graphprops.run_for(ctx, "C06")


def replay(ctx, data):
    return graphprops.replay_for(ctx, "C06", data)

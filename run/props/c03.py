"""C03 — every grammatical layout of a model parses, and to exactly the model written."""
import json

from lib import core, sexp, dslgen, tf
from lib.dslgen import S

FAMILIES = ("transform", "layout")


def nontrivial(f):
    return any(e["op"] is not None or e["first"][0] == "group" for t in f["types"] for _, e in t["rels"])


def check_batch(ctx, items, label):
    """items: (syntax tree, layout description, text)"""
    docs = [x[2] for x in items]
    for modular in (False, True):
        ir = tf.correspond_dsl(ctx, docs, modular, label)
        if modular:
            continue
        for (f, lay, d), a in zip(items, ir):
            exp = dslgen.expected_model(f)
            ok = a[0] == "ok" and dslgen.model_eq_ws(a[1], exp)
            ctx.note_case(d, nontrivial(f))
            ctx.count("layout_" + lay)
            ctx.count("header_" + f["header"][0])
            if not ok:
                why = ("a grammatical layout was rejected" if a[0] != "ok"
                       else "the parsed model differs from the model written")
                ctx.violation("layout-" + ("rejected" if a[0] != "ok" else "wrong-model"),
                              {"input": S(d), "text": d, "why": why, "layout": lay,
                               "impl": a if a[0] != "ok" else {"model": a[1]},
                               "expected_model": dslgen.canon_model(exp)})
            elif len(ctx.samples) < 4 and nontrivial(f) and len(d) < 400:
                ctx.sample({"text": d, "layout": lay})
    tf.correspond_tokens(ctx, docs, label)


def gen_items(ctx, n, wilds):
    items = []
    rng = ctx.rng
    for i in range(n):
        f = dslgen.gen_file(rng, modular=rng.random() < 0.3, hostile=0.25, max_types=4, max_rels=4)
        for w in wilds:
            L = dslgen.Layout(rng, wild=w)
            items.append((f, "wild=%s%s" % (w, ",crlf" if L.crlf else ""), dslgen.render_file(f, L)))
    return items


def small_exhaustive(ctx):
    """every choice of the optional spaces around ':' ',' '[' ']' '(' ')' for one small relation"""
    import itertools
    items = []
    opts = ["", " ", "\t "]
    for a, b, c, d, e in itertools.product(opts, repeat=5):
        text = ("model\n  schema 1.1\ntype user\ntype doc\n  relations\n    define r" + a + ":" + b + "[" + c + "user" + d
                + "," + e + "user:*" + a + "] or (" + b + "x" + c + ") and_then\n")
        text = text.replace(" and_then", "")
        f = {"header": ("model", "1.1"),
             "types": [{"name": "user", "extend": False, "rels": []},
                       {"name": "doc", "extend": False, "rels": [("r", {
                           "first": ("direct", [{"type": "user", "rel": None, "wild": False, "cond": None},
                                                {"type": "user", "rel": None, "wild": True, "cond": None}]),
                           "op": "or", "rest": [("group", {"first": ("rw", "x", None), "op": None, "rest": []})]})]}],
             "conds": []}
        items.append((f, "exhaustive-optional-spaces", text))
    return items


def theorem_layouts(ctx, n):
    """the every-layout theorem (Properties/C03.C03_every_layout_decidable) evaluated by the extracted model (wire op 209):
    for a generated model, a run of blanks and tabs and a line break, the model writes the document in that layout, decides
    whether the theorem applies (layout_okb) and names the model the document must denote (canonical m); the
    implementation has to read exactly that model from the text"""
    rng = ctx.rng
    runs = [" ", "  ", "\t", " \t ", "\t\t ", "     "]
    breaks = ["\n", "\n  ", "\n\n", "\n\t", "\n\n\n    ", "\n\n \t", "\n\t\t\t\t"]
    models = []
    for _ in range(2 * n):
        # the theorem's domain (about a quarter of these have plain names only and expressible rewrites): no module information, no conditions (names are mostly plain identifiers already)
        m = dslgen.gen_wire_model(rng, modular=False, degenerate=0, p_this=0.5)
        m[2] = []
        for t in m[1]:
            for meta in t[2]:
                for _, rm in meta[0]:
                    for ref in rm[0]:
                        ref[2] = []
        models.append(m)
    from props import c02
    models += c02.tree_models([t for k in (1, 2, 3, 4) for t in c02.all_trees(k)])
    choice = [(rng.choice(runs), rng.choice(breaks)) for _ in models]
    try:
        th = ctx.model("layout", ["(209 %s %s %s)" % (sexp.enc(S(w)), sexp.enc(S(b)), sexp.enc(m)) for m, (w, b) in zip(models, choice)])
    except core.ModelUnavailable:
        # the layout family is extracted from proof files: it is missing exactly when one of them does not compile,
        # which the proof ledger reports as broken obligations
        ctx.count("theorem_layout_family_unavailable")
        return
    app = [(m, c, r) for m, c, r in zip(models, choice, th) if r and r[0] == 1]
    ctx.count("theorem_layout_applicable", len(app))
    ctx.count("theorem_layout_not_applicable", len(models) - len(app))
    texts = [sexp.to_str(r[1]) for _, _, r in app]
    back = [tf.norm_impl_dsl(r) for r in tf.impl_dsl(ctx, texts, False)]
    for (m, (w, b), r), t, got in zip(app, texts, back):
        ctx.evaluations += 1
        ctx.note_case(t, w != " " or b not in ("\n", "\n  "))
        if got[0] != "ok":
            ctx.violation("theorem-layout-rejected", {"input": S(t), "text": t, "blank_run": w, "line_break": b, "impl": got,
                                                      "why": "the proved every-layout theorem applies to this document (layout_okb) but the implementation rejects it"})
        elif dslgen.canon_model(r[2]) != got[1]:
            ctx.violation("theorem-layout-wrong-model", {"input": S(t), "text": t, "blank_run": w, "line_break": b,
                                                         "why": "the model read from this layout differs from the canonical form the proved every-layout theorem promises",
                                                         "promised": dslgen.canon_model(r[2]), "got": got[1], "expected_model": dslgen.canon_model(r[2])})
        elif len(ctx.samples) < 6 and w != " " and len(t) < 300:
            ctx.sample({"text": t, "layout": "theorem: blank run %r, line break %r" % (w, b)})


def long_lines(ctx, n):
    """layouts with a line of more than 64 KiB (a comment line, a trailing comment, a run of blanks): still grammatical, still the
    model written.  Judged on the implementation only: the extracted pre-pass is quadratic in the length of a line."""
    rng = ctx.rng
    items = []
    for _ in range(n):
        f = dslgen.gen_file(rng, modular=False, hostile=0.0, max_types=3, max_rels=3)
        d = dslgen.render_file(f, dslgen.Layout(rng, wild=0.0))
        ls = d.split("\n")
        k = rng.randrange(2, max(3, len(ls)))
        how = rng.choice(["comment-line", "trailing-comment", "blank-run"])
        if how == "comment-line":
            ls.insert(k, "# " + "c" * 70000)
        elif how == "trailing-comment":
            ls[1] = ls[1] + " # " + "c" * 70000
        else:
            ls[1] = ls[1] + " " * 70000
        items.append((f, "long-line:" + how, "\n".join(ls)))
    res = [tf.norm_impl_dsl(r) for r in tf.impl_dsl(ctx, [x[2] for x in items], False)]
    for (f, lay, d), a in zip(items, res):
        ctx.evaluations += 1
        ctx.count("layout_" + lay)
        exp = dslgen.expected_model(f)
        if not (a[0] == "ok" and dslgen.model_eq_ws(a[1], exp)):
            ctx.violation("layout-" + ("rejected" if a[0] != "ok" else "wrong-model"),
                          {"input": S(d), "text": d[:300] + " ... (%d characters)" % len(d), "layout": lay,
                           "why": "a grammatical layout with a line of more than 64 KiB was rejected" if a[0] != "ok" else "the parsed model differs from the model written",
                           "impl": a if a[0] != "ok" else {"model": a[1]}, "expected_model": dslgen.canon_model(exp)})


def run(ctx):
    ctx.rule = ("random syntax trees (types, relations, nested/parenthesised operators, restrictions with wildcard/"
                "relation/condition, keyword and extended identifiers, conditions with plain and hostile CEL bodies, "
                "model and module files) rendered by an independent layout renderer (indentation, tabs, blank lines, "
                "comment lines, trailing comments, CRLF, optional spaces, multi-line restrictions, redundant "
                "parentheses); non-trivial = has an operator or a parenthesised group; distinct by text")
    ctx.assumptions = ["ANTLR lexer/parser semantics as stated in Model/Lexer.v and Model/Parser.v",
                       "expression text compared modulo surrounding whitespace and trailing whitespace per line"]
    n = 250 if ctx.tier == "quick" else 6000
    check_batch(ctx, gen_items(ctx, n, [0.0, 0.25, 0.6]), "generated")
    check_batch(ctx, small_exhaustive(ctx), "small")
    theorem_layouts(ctx, 300 if ctx.tier == "quick" else 4000)
    long_lines(ctx, 6 if ctx.tier == "quick" else 40)
    # the repository's own documents: correspondence only (no expected model)
    docs = dslgen.corpus_dsl()
    for modular in (False, True):
        tf.correspond_dsl(ctx, docs, modular, "corpus")
    tf.correspond_tokens(ctx, docs, "corpus")
    ctx.count("corpus_docs", len(docs))


def replay(ctx, data):
    d = data["detail"]
    if "input" not in d:
        print(json.dumps(d, indent=1)[:4000])
        return 1
    text = sexp.to_str(d["input"])
    a = tf.norm_impl_dsl(tf.impl_dsl(ctx, [text], False)[0])
    b = tf.norm_model_dsl(tf.model_dsl(ctx, [text])[0])
    print("text:", repr(text))
    print("implementation:", json.dumps(a)[:3000])
    print("model:", json.dumps(b)[:3000])
    if "expected_model" in d:
        ok = a[0] == "ok" and dslgen.model_eq_ws(a[1], d["expected_model"])
        print("matches the model written:", ok)
        return 0 if ok else 1
    return 0 if tf.agree_dsl(a, b, False) else 1

"""C18 — tuple-field validators accept only unambiguously decomposable strings."""
import itertools
import json
import os
import sys

from lib import core, sexp
import gen_coq

FAMILIES = ("validate",)
NAMES = ["ValidateObject", "ValidateObjectID", "ValidateRelation", "ValidateUserSet", "ValidateUserObject",
         "ValidateUserWildcard", "ValidateUser", "ValidateRelationshipCondition", "ValidateType"]
OBJ, OID, REL, USET, UOBJ, WILD, USER, COND, TYPE = range(9)

# one representative per character class the rules distinguish (+ non-ASCII letter, NBSP)
ALPHABET = ["a", "Z", "5", ":", "#", "@", "*", " ", "\n", "_", "-", ".", "é", " "]
WS = set("\t\n\f\r ")
SPECIAL = set(":#@*")


def cps(s):
    return [ord(c) for c in s]


def boundary_cases():
    out = []
    for lim in (1, 2, 3, 49, 50, 51, 253, 254, 255, 256, 257, 258):
        for ch in ("a", "_", "é"):
            out.append(ch * lim)                      # type / relation / condition / id / object length
        out.append("t:" + "i" * max(0, lim - 2))       # object of total length lim
        out.append("t" * max(0, lim - 2) + ":i")
        out.append("t" * lim + ":i")                   # type part of length lim
        out.append("t:i#" + "r" * lim)                 # relation part of length lim
        out.append("t" * lim + ":i#r")
        out.append("t" * lim + ":*")
        out.append("t:" + "i" * lim + "#r")
        # the limits count characters, not bytes: the same boundaries with a two-byte letter in the type / relation part
        out.append("\u00e9" * max(0, lim - 2) + ":i")
        out.append("\u00e9" + "t" * max(0, lim - 3) + ":i")
        out.append("t:i#" + "\u00e9" * lim)
        out.append("\u00e9" * lim + ":*")
        out.append("\u00e9" * max(0, lim - 4) + ":i#r")
    return out


def structured_cases(rng, n):
    """mostly-valid type ':' id ['#' rel] strings with one random edit"""
    pool = "abcXYZ019_|*@.+-:# \té"
    out = []
    for _ in range(n):
        t = "".join(rng.choice("abcdXYZ01_-.") for _ in range(rng.randint(1, 6)))
        i = rng.choice("abX09_|@.+-") + "".join(rng.choice("abX09_|*@.+") for _ in range(rng.randint(0, 6)))
        r = "".join(rng.choice("abcd_-") for _ in range(rng.randint(1, 5)))
        s = rng.choice([t + ":" + i, t + ":" + i + "#" + r, t + ":*", t, i, r])
        k = rng.random()
        if k < 0.5 and s:
            p = rng.randrange(len(s) + 1)
            c = rng.choice(pool)
            s = rng.choice([s[:p] + c + s[p:], s[:p] + s[p + 1:], s[:p] + c + s[p + 1:]])
        out.append(s)
    return out


def random_unicode(rng, n):
    out = []
    for _ in range(n):
        ln = rng.choice([0, 1, 2, 3, 5, 8, 20, 60, 300])
        out.append("".join(chr(rng.choice([rng.randint(1, 0x7f), rng.randint(0x80, 0x7ff), rng.randint(0x800, 0xd7ff),
                                           rng.randint(0xe000, 0xffff), rng.randint(0x10000, 0x10ffff),
                                           ord(rng.choice(":#@* a"))])) for _ in range(ln)))
    return out


def load_corpus():
    p = os.path.join(core.VERIF, "corpus", "C18.json")
    if os.path.exists(p):
        return [sexp.to_str(x) for x in json.load(open(p))]
    return []


def plain(s):
    return all(c.isascii() and (c.isalnum() or c == "_") for c in s)


def property_failures(s, v, parts):
    """v: the nine implementation verdicts for s; parts: dict str -> verdict list for substrings.
    Returns list of (label, explanation)."""
    f = []
    # types / relations: no : # @ * or whitespace; limits exact
    for idx, lim, nm in ((TYPE, 254, "type"), (REL, 50, "relation")):
        if v[idx]:
            if not (1 <= len(s) <= lim):
                f.append((nm + "-length", f"accepted {nm} of length {len(s)} (limit {lim})"))
            if any(c in SPECIAL or c in WS for c in s):
                f.append((nm + "-chars", f"accepted {nm} contains one of : # @ * or whitespace"))
        elif 1 <= len(s) <= lim and plain(s):
            f.append((nm + "-length", f"rejected plain {nm} of length {len(s)} (limit {lim})"))
    if v[COND]:
        if not (1 <= len(s) <= 50):
            f.append(("condition-length", f"accepted condition of length {len(s)} (limit 50)"))
    elif 1 <= len(s) <= 50 and plain(s):
        f.append(("condition-length", f"rejected plain condition of length {len(s)}"))
    if v[OID] and any(c in WS for c in s):
        f.append(("id-whitespace", "accepted object id contains whitespace"))
    # object: exactly one ':' , splits into accepted type and id; 2..256
    for idx, nm in ((OBJ, "object"), (UOBJ, "user object")):
        if v[idx]:
            if s.count(":") != 1:
                f.append((nm + "-split", f"accepted {nm} has {s.count(':')} ':'"))
            else:
                t, i = s.split(":")
                if not parts[t][TYPE] or not parts[i][OID]:
                    f.append((nm + "-split", f"accepted {nm} does not split into accepted type and id"))
            if not (2 <= len(s) <= 256):
                f.append((nm + "-length", f"accepted {nm} of length {len(s)}"))
        elif idx == OBJ and s.count(":") == 1 and 2 <= len(s) <= 256:
            # the limit 2..256 is enforced EXACTLY (in characters): an object within it that splits into an accepted type
            # and an accepted id is accepted
            t, i = s.split(":")
            if parts.get(t) and parts.get(i) and parts[t][TYPE] and parts[i][OID]:
                f.append((nm + "-length", f"rejected {nm} of {len(s)} characters ({len(s.encode('utf-8'))} bytes) that splits into an accepted type and an accepted id"))
    if v[USET]:
        if s.count(":") != 1 or s.count("#") != 1:
            f.append(("userset-split", f"accepted userset has {s.count(':')} ':' and {s.count('#')} '#'"))
        else:
            t, rest = s.split(":")
            if "#" not in rest:
                f.append(("userset-split", "accepted userset has '#' before ':'"))
            else:
                i, r = rest.split("#")
                if not parts[t][TYPE] or not parts[i][OID] or not parts[r][REL]:
                    f.append(("userset-split", "accepted userset does not split into accepted type, id, relation"))
    if v[USER]:
        k = int(v[USET]) + int(v[OBJ]) + int(v[WILD])
        if k != 1:
            f.append(("user-exclusive", f"accepted user is {k} of userset/object/wildcard"))
    elif v[USET] or v[OBJ] or v[WILD]:
        f.append(("user-exclusive", "userset/object/wildcard accepted but ValidateUser rejects"))
    if v[WILD]:
        if not s.endswith(":*") or not parts[s[:-2]][TYPE]:
            f.append(("wildcard-split", "accepted wildcard is not <accepted type>:*"))
    return f


def split_parts(s):
    out = set()
    if s.count(":") == 1:
        t, rest = s.split(":")
        out.update([t, rest])
        if rest.count("#") == 1:
            out.update(rest.split("#"))
    if s.endswith(":*"):
        out.add(s[:-2])
    return out


def evaluate(ctx, cases, label):
    cases = list(dict.fromkeys(cases))
    impl = ctx.impl([{"op": "validate", "s": cps(s)} for s in cases])
    for s, r in zip(cases, impl):
        if "r" not in r:
            ctx.violation("validator-abnormal", {"input": cps(s), "text": s, "impl": r})
    verdict = {s: r.get("r") for s, r in zip(cases, impl)}
    need = set()
    for s in cases:
        v = verdict[s]
        if v and (v[OBJ] or v[UOBJ] or v[USET] or v[WILD] or (s.count(":") == 1 and 2 <= len(s) <= 256)):
            need |= split_parts(s)
    need = [p for p in need if p not in verdict]
    for p, r in zip(need, ctx.impl([{"op": "validate", "s": cps(p)} for p in need])):
        verdict[p] = r.get("r")
    model = spec = None
    try:
        model = ctx.model("validate", ["(100 %s)" % sexp.enc(s) for s in cases])
        spec = ctx.model("validate", ["(101 %s)" % sexp.enc(s) for s in cases])
    except core.ModelUnavailable:
        ctx.violation("model-unavailable", {"what": "extracted validator model does not build",
                                            "coq_errors": ctx.st.coq_errors[-2000:], "translator": ctx.st.gen},
                      found_input=False)
    for k, s in enumerate(cases):
        v = verdict[s]
        if v is None:
            continue
        fails = property_failures(s, v, verdict)
        for lab, why in fails:
            ctx.violation(lab, {"input": cps(s), "text": s, "why": why, "impl": dict(zip(NAMES, v)),
                                "model": model[k] if model else None, "spec": spec[k] if spec else None})
        if model is not None:
            if 2 in model[k]:
                ctx.violation("model-cannot-parse-rule", {"input": cps(s), "model": model[k]}, found_input=False)
            elif model[k] != v:
                ctx.violation("correspondence", {"input": cps(s), "text": s, "impl": dict(zip(NAMES, v)),
                                                 "model": dict(zip(NAMES, model[k])),
                                                 "what": "model validators and implementation disagree"},
                              found_input=False)
            if spec[k] != model[k] and 2 not in model[k]:
                ctx.violation("model-vs-spec", {"input": cps(s), "text": s, "model": model[k], "spec": spec[k],
                                                "what": "extracted model differs from extracted specification "
                                                        "(the exactness theorems cannot hold)"}, found_input=False)
        ctx.note_case(s, any(v))
        ctx.count(label)
        ctx.count("accepted_by_some" if any(v) else "rejected_by_all")
        ctx.count("len_%s" % ("0-4" if len(s) <= 4 else "5-60" if len(s) <= 60 else "61-260" if len(s) <= 260 else ">260"))
        if any(v) and len(s) > 3:
            ctx.sample({"input": s, "impl": dict(zip(NAMES, v))})


def rules_identity(ctx):
    """the failing 'input' of C18_rules_identical is the first rule that differs"""
    try:
        g = gen_coq.go_rules(gen_coq.read("pkg/go/validation/validation-rules.go"))
        j = gen_coq.js_rules(gen_coq.read("pkg/js/validator/validate-rules.ts"))
        v = gen_coq.java_rules(gen_coq.read("pkg/java/src/main/java/dev/openfga/language/validation/Validator.java"))
    except gen_coq.TranslateError as e:
        ctx.violation("rules-unreadable", {"error": str(e)}, found_input=False)
        return
    for k in sorted(set(g) | set(j) | set(v)):
        if not (g.get(k) == j.get(k) == v.get(k)):
            ctx.violation("rules-differ", {"rule": k, "go": g.get(k), "js": j.get(k), "java": v.get(k),
                                           "why": "rule strings of the three packages are not identical"})
    ctx.count("rule_strings_compared", len(g))


def run(ctx):
    ctx.rule = ("exhaustive over a 14-symbol class alphabet up to length 4 (quick) / 5 (thorough), boundary lengths "
                "around 1,2,50,254,256, structured type:id#relation strings with one edit, random Unicode; "
                "non-trivial = accepted by at least one validator; distinct by string")
    ctx.assumptions = ["whitespace = RE2 \\s (ASCII); Go regexp semantics modelled by Model/Regex.v",
                       "JS and Java packages compared by rule strings only (neither toolchain runs offline)"]
    ctx.trusted_base.append("modelled, not verified: Go's regexp package (RE2 full-match semantics of the subset used)")
    rules_identity(ctx)
    evaluate(ctx, load_corpus(), "corpus")
    maxlen = 4 if ctx.tier == "quick" else 5
    ex = ["".join(t) for n in range(0, maxlen + 1) for t in itertools.product(ALPHABET, repeat=n)]
    evaluate(ctx, ex, "exhaustive")
    ctx.extra["exhaustive_alphabet"] = ALPHABET
    ctx.extra["exhaustive_max_length"] = maxlen
    evaluate(ctx, boundary_cases(), "boundary")
    n = 2000 if ctx.tier == "quick" else 40000
    evaluate(ctx, structured_cases(ctx.rng, n), "structured")
    evaluate(ctx, random_unicode(ctx.rng, n // 4), "random_unicode")


def replay(ctx, data):
    d = data["detail"]
    if "input" not in d:
        print(json.dumps(d, indent=1))
        print("no concrete input recorded; re-run the check")
        return 1
    s = sexp.to_str(d["input"])
    evaluate(ctx, [s], "replay")
    for v in ctx.violations:
        print(json.dumps(v, indent=1, ensure_ascii=False))
    return 1 if ctx.violations else 0

"""C15 — fga.mod: accepted file paths are safe, verbatim and correctly located."""
import itertools
import json

from lib import core, sexp
from lib.dslgen import T

FAMILIES = ("modfile",)
FAM = "modfile"
ALPHABET = [".", "/", "\\", "%", "2", "5", "e", "E", "f", "F", "c", "C", "+", "a", "g"]
HEX = "0123456789abcdefABCDEF"


def B(s):
    return list(s.encode("utf-8")) if isinstance(s, str) else list(s)


def unB(l):
    return bytes(l)


# ---- the specification (independent of the Go code) ----

def decode(v):
    """percent-decoding as RFC 3986 query components: None if an escape is malformed"""
    out = bytearray()
    i = 0
    while i < len(v):
        c = v[i]
        if c == 0x25:
            h = v[i + 1:i + 3]
            if len(h) < 2 or chr(h[0]) not in HEX or chr(h[1]) not in HEX:
                return None
            out.append(int(bytes(h).decode(), 16))
            i += 3
        elif c == 0x2b:
            out.append(0x20)
            i += 1
        else:
            out.append(c)
            i += 1
    return bytes(out)


def safe(p):
    return (not p.startswith(b"/")) and (b".." not in p.split(b"/")) and (b"\\" not in p) and p.endswith(b".fga")


class Manifest:
    """a YAML manifest built line by line; records where each value is"""

    def __init__(self):
        self.indirect = False   # contents given through an anchor/alias: positions of the entries are not compared
        self.lines = []
        self.items = []     # (value bytes or None when not a string, line, col)
        self.schema = None

    def text(self):
        return "\n".join(self.lines) + "\n"


def yaml_scalar(rng, s, style=None):
    """render a str as a YAML scalar; returns (text, ok) — ok False when the style cannot carry s"""
    style = style or rng.choice(["single", "double", "plain"])
    if style == "single":
        return "'" + s.replace("'", "''") + "'"
    if style == "double":
        out = '"'
        for ch in s:
            if ch == "\\":
                out += "\\\\"
            elif ch == '"':
                out += '\\"'
            elif ord(ch) < 32 or ord(ch) == 127:
                out += "\\x%02x" % ord(ch)
            else:
                out += ch
        return out + '"'
    return None


PLAIN_OK = set("abcdefghijklmnopqrstuvwxyzABCDEFGHIJKLMNOPQRSTUVWXYZ0123456789._/+-")


def build(rng, entries, schema="'1.2'", order="schema-first", indent="  "):
    m = Manifest()
    def put_schema():
        if schema is not None:
            first, *more = ("schema: " + schema).split("\n")
            m.lines.append(first)
            m.schema = (len(m.lines) - 1, len("schema: "))
            m.lines += more              # a block scalar: its text stands on the following lines
    if order == "schema-first":
        put_schema()
    m.lines.append("contents:")
    for e in entries:
        if isinstance(e, tuple):      # raw YAML text for a non-string / special node: (text, value-or-None)
            txt, val = e
            m.lines.append(indent + "- " + txt)
            m.items.append((val, len(m.lines) - 1, len(indent) + 2))
            continue
        st = rng.choice(["single", "single", "double", "plain"])
        if st == "plain" and not (e and set(e) <= PLAIN_OK and e[0] not in "-+." and not e[0].isdigit()):
            st = "single"
        txt = e if st == "plain" else yaml_scalar(rng, e, st)
        m.lines.append(indent + "- " + txt)
        m.items.append((e.encode("utf-8"), len(m.lines) - 1, len(indent) + 2))
    if order != "schema-first":
        put_schema()
    return m


def evaluate(ctx, manifests, label):
    reqs = [{"op": "modfile", "d": B(m.text())} for m in manifests]
    res = ctx.impl(reqs)
    mreqs = []
    midx = []
    for k, (m, r) in enumerate(zip(manifests, res)):
        if "r" not in r:
            ctx.violation("entry-point-abnormal", {"op": "modfile", "input": B(m.text()), "text": m.text(), "impl": r})
            continue
        x = r["r"]
        if not x["yaml_err"]:
            mreqs.append("(300 %s %s)" % (sexp.enc(x["schema"]), sexp.enc(x["contents"])))
            midx.append(k)
    try:
        mres = dict(zip(midx, ctx.model(FAM, mreqs)))
    except core.ModelUnavailable:
        ctx.violation("model-unavailable", {"coq_errors": ctx.st.coq_errors[-2000:]}, found_input=False)
        mres = {}
    for k, (m, r) in enumerate(zip(manifests, res)):
        if "r" not in r:
            continue
        x = r["r"]
        text = m.text()
        ctx.count(label)
        if x["yaml_err"]:
            ctx.count("yaml_error")
            ctx.note_case(text, False)
            continue
        y = x["result"]
        if "other" in y:
            ctx.count("other_error")
            continue
        # correspondence with the model on the abstract YAML view
        if k in mres:
            mr = mres[k]
            if y["ok"]:
                want = [0, y["schema"], y["contents"], y["cl"], y["cc"]]
            else:
                want = [1, y["errs"]]
            if mr != want:
                ctx.violation("correspondence-modfile", {"input": B(text), "text": text, "impl": want, "model": mr,
                                                         "what": "Model/ModFile.transform_mod and the implementation disagree"},
                              found_input=False)
        src_lines = text.split("\n")
        strings = [(v, l, c) for (v, l, c) in m.items]
        offending = []
        for (v, l, c) in strings:
            if v is None:
                offending.append(l)
                continue
            d = decode(v)
            if d is None or not safe(d.replace(b"\\", b"/")):
                offending.append(l)
        nontriv = any(v is not None and (b"%" in v or b"\\" in v or b".." in v) for (v, _, _) in strings)
        ctx.note_case(text, nontriv)
        if y["ok"]:
            ctx.count("accepted")
            why = None
            if unB(y["schema"][0]) != b"1.2":
                why = "accepted with schema %r" % unB(y["schema"][0])
            got = [(unB(p[0]), p[1], p[2]) for p in y["contents"]]
            if not why and len(got) != len(strings):
                why = "accepted manifest returns %d paths for %d entries (an entry was filtered silently)" % (len(got), len(strings))
            if not why:
                for (p, l, c), (v, el, ec) in zip(got, strings):
                    if not safe(p):
                        why = "returned path %r is not safe (absolute, '..' segment, backslash or not .fga)" % p
                    elif v is not None and not (set(v) & set(b"%+\\")) and p != v:
                        why = "path %r written without %%, + or backslash is returned as %r" % (v, p)
                    elif (l, c) != (el, ec) and not m.indirect:
                        why = "path %r reported at line %d column %d, it stands at line %d column %d" % (p, l, c, el, ec)
                    if why:
                        break
            if not why and m.schema and (y["schema"][1], y["schema"][2]) != m.schema:
                why = "schema reported at %r, it stands at %r" % ((y["schema"][1], y["schema"][2]), m.schema)
            if not why and offending:
                why = "manifest accepted although the entry on line %s violates a rule" % offending[0]
            if why:
                ctx.violation("modfile-accepted", {"input": B(text), "text": text, "why": why})
            elif len(ctx.samples) < 4 and nontriv:
                ctx.sample({"manifest": text, "returned": [p[0].decode("latin1") for p in got]})
        else:
            ctx.count("rejected")
            elines = [e[0] for e in y["errs"]]
            why = None
            if y.get("has_file"):
                why = "an error is returned together with a manifest"
            item_lines = [l for (_, l, _) in strings]
            per_item = [l for l in elines if l in item_lines]
            if not why and len(set(per_item)) != len(per_item):
                why = "two errors for one entry"
            if not why and not m.indirect:
                missing = [l for l in offending if l not in elines]
                if missing:
                    why = "the offending entry on line %d has no error of its own" % missing[0]
            if why:
                ctx.violation("modfile-rejected", {"input": B(text), "text": text, "why": why, "errors": y["errs"]})


def exhaustive(ctx, maxlen):
    ms = []
    batch = []
    rng = ctx.rng
    n = 0
    for ln in range(0, maxlen + 1):
        for t in itertools.product(ALPHABET, repeat=ln):
            s = "".join(t)
            for e in (s + ".fga", s):
                if not e:
                    continue
                batch.append(e)
                n += 1
                if len(batch) == 150:
                    ms.append(build(rng, batch))
                    batch = []
    if batch:
        ms.append(build(rng, batch))
    # each entry also alone, for the accepted case (a batch is rejected as a whole if one entry offends)
    ctx.extra["exhaustive_strings"] = n
    return ms


def singles(ctx, maxlen):
    """accepted paths can only be observed in manifests with no offending entry: group the safe ones"""
    rng = ctx.rng
    good = []
    for ln in range(0, maxlen + 1):
        for t in itertools.product(ALPHABET, repeat=ln):
            s = "".join(t)
            for e in (s + ".fga", s):
                if not e:
                    continue
                d = decode(e.encode())
                if d is not None and safe(d.replace(b"\\", b"/")):
                    good.append(e)
    ms = []
    for i in range(0, len(good), 60):
        ms.append(build(rng, good[i:i + 60], order=rng.choice(["schema-first", "schema-last"])))
    ctx.extra["exhaustive_safe_strings"] = len(good)
    return ms


def randoms(ctx, n):
    rng = ctx.rng
    ms = []
    pool = ALPHABET + ["..", "../", "..\\", "%2e", "%2E", "%2f", "%2F", "%5c", "%5C", "%25", "dir", "model", ".fga", ".FGA", ".Fga", ".fga.", "é", " "]
    specials = [("42", None), ("true", None), ("null", None), ("{a: b}", None), ("[x.fga]", None), ("!!str 12", b"12"),
                ("1.5", None), ("&anchor a.fga", b"a.fga"), ("~", None),
                # a value that ends in a line break: it does not end in ".fga"
                ("\"core.fga\\n\"", b"core.fga\n"), ("core.fga%0A", b"core.fga%0A"), ("'core.fga%0d%0a'", b"core.fga%0d%0a")]
    for i in range(n):
        entries = []
        for _ in range(rng.choice([1, 1, 2, 3, 6])):
            k = rng.random()
            if k < 0.12:
                entries.append(rng.choice(specials))
            else:
                s = "".join(rng.choice(pool) for _ in range(rng.randint(1, 8)))
                if rng.random() < 0.7:
                    s += ".fga"
                entries.append(s)
        # (the version padded with white space - quoted, or a block scalar that keeps its line break - is not the version)
        schema = rng.choice(["'1.2'", "'1.2'", "'1.2'", "\"1.2\"", "1.2", "'1.1'", "12", None, "[a]", "!!str 1.2",
                             "'1.2 '", "' 1.2'", "\"1.2 \"", "\"1.2\\n\"", "|\n  1.2", "|+\n  1.2", ">\n  1.2", "|-\n  1.2"])
        m = build(rng, entries, schema=schema, order=rng.choice(["schema-first", "schema-last"]),
                  indent=rng.choice(["  ", "", "    "]))
        if rng.random() < 0.05:
            m.lines = [l for l in m.lines if not l.startswith("contents")] if rng.random() < 0.5 else ["contents: 'x'"] + [l for l in m.lines if l.startswith("schema")]
            m.items = []
        elif rng.random() < 0.06:
            # the list of files given indirectly: an alias to a sequence anchored under another key, or an anchored
            # sequence that another key aliases; whatever the verdict, no entry may be dropped silently
            plain_entries = [e for e in entries if isinstance(e, str) and e and set(e) <= PLAIN_OK and e[0] not in "-+." and not e[0].isdigit()] or ["core.fga"]
            if rng.random() < 0.5:
                plain_entries.append("../../etc/evil.fga")
            flow = "[" + ", ".join(plain_entries) + "]"
            sch = [l for l in m.lines if l.startswith("schema")]
            if rng.random() < 0.6:
                m.lines = sch + ["shared: &files " + flow, "contents: *files"]
            else:
                m.lines = sch + ["contents: &files " + flow, "other: *files"]
            m.items = [(e.encode(), None, None) for e in plain_entries]
            m.indirect = True
            m.schema = (0, len("schema: ")) if sch else None
        ms.append(m)
    return ms


def run(ctx):
    ctx.rule = ("whole manifests through the real YAML parser: exhaustive strings over the alphabet {. / \\ %% 2 5 e E f F c C + a g} "
                "up to length 3 (quick) / 4 (thorough), each as <s> and <s>.fga (in batches, and the safe ones again in "
                "manifests that can be accepted), random longer ones with traversal spellings, scalar styles, non-string "
                "nodes, anchors, missing/wrong fields; non-trivial = an entry contains %%, backslash or '..'; distinct by text")
    ctx.assumptions = ["yaml.v3 node tags/values/positions are taken as given (external library); the model runs on that abstract view"]
    maxlen = 3 if ctx.tier == "quick" else 4
    ctx.extra["exhaustive_alphabet"] = ALPHABET
    ctx.extra["exhaustive_max_length"] = maxlen
    evaluate(ctx, exhaustive(ctx, maxlen), "exhaustive_batches")
    evaluate(ctx, singles(ctx, maxlen), "safe_batches")
    evaluate(ctx, randoms(ctx, 1500 if ctx.tier == "quick" else 30000), "random")
    ctx.exhaustive = False


def replay(ctx, data):
    d = data["detail"]
    if "input" not in d:
        print(json.dumps(d, indent=1)[:4000])
        return 1
    text = unB(d["input"]).decode("utf-8", "replace")
    r = ctx.impl([{"op": "modfile", "d": d["input"]}])[0]
    print(text)
    print(json.dumps(r)[:3000])
    return 0

"""C09 — structurally invalid DSL is always rejected, wherever the defect occurs."""
import copy
import json

from lib import core, sexp, dslgen, tf
from lib.dslgen import S

FAMILIES = ("transform",)


def exprs_of(e, depth=0, out=None):
    """all expression nodes (with nesting depth) of a relation definition"""
    out = [] if out is None else out
    out.append((e, depth))
    for o in [e["first"]] + e["rest"]:
        if o[0] == "group":
            exprs_of(o[1], depth + 1, out)
    return out


def pick_rel(rng, f, pred=lambda e: True):
    cands = [(ti, ri) for ti, t in enumerate(f["types"]) for ri, (_, e) in enumerate(t["rels"]) if pred(e)]
    return rng.choice(cands) if cands else None


def other_op(op, rng):
    return rng.choice([o for o in ("or", "and", "but not") if o != op])


def inject(rng, f0, kind):
    """returns (mutated tree, site description) or None when the tree has no site for this kind"""
    f = copy.deepcopy(f0)
    modular = f["header"][0] == "module"
    if kind == "mixed-operators":
        site = pick_rel(rng, f)
        if not site:
            return None
        e, depth = rng.choice([x for x in exprs_of(f["types"][site[0]]["rels"][site[1]][1])])
        if e["op"] is None:
            e["op"] = rng.choice(["or", "and"])
            e["rest"] = [("rw", "x", None)]
        e["mix"] = (other_op(e["op"], rng), ("rw", "y", None))
        return f, {"type": site[0], "relation": site[1], "depth": depth}
    if kind == "direct-not-first":
        site = pick_rel(rng, f)
        if not site:
            return None
        e, depth = rng.choice(exprs_of(f["types"][site[0]]["rels"][site[1]][1]))
        d = ("direct", [{"type": "user", "rel": None, "wild": False, "cond": None}])
        if e["op"] is None:
            e["op"] = rng.choice(["or", "and", "but not"])
            e["rest"] = [d]
        elif e["op"] == "but not":
            e["rest"] = [d]
        else:
            e["rest"].insert(rng.randrange(len(e["rest"]) + 1), d)
        return f, {"type": site[0], "relation": site[1], "depth": depth}
    if kind in ("empty-restrictions", "wildcard-and-relation"):
        cands = []
        for ti, t in enumerate(f["types"]):
            for ri, (_, e) in enumerate(t["rels"]):
                for (x, depth) in exprs_of(e):
                    if x["first"][0] == "direct":
                        cands.append((ti, ri, x, depth))
        if not cands:
            if not f["types"]:
                return None
            t = f["types"][0]
            x = {"first": ("direct", [{"type": "user", "rel": None, "wild": False, "cond": None}]), "op": None, "rest": []}
            t["rels"].append(("injected", x))
            cands = [(0, len(t["rels"]) - 1, x, 0)]
        ti, ri, x, depth = rng.choice(cands)
        if kind == "empty-restrictions":
            x["first"] = ("direct", [])
        else:
            rs = list(x["first"][1])
            k = rng.randrange(len(rs))
            rs[k] = dict(rs[k], both=rng.choice(["member", "a"]))
            x["first"] = ("direct", rs)
        return f, {"type": ti, "relation": ri, "depth": depth}
    if kind == "duplicate-relation":
        cands = [ti for ti, t in enumerate(f["types"]) if t["rels"]]
        if not cands:
            return None
        ti = rng.choice(cands)
        rels = f["types"][ti]["rels"]
        src = rng.randrange(len(rels))
        dup = (rels[src][0], copy.deepcopy(rng.choice(rels)[1]))
        pos = rng.randrange(len(rels) + 1)
        rels.insert(pos, dup)
        return f, {"type": ti, "copy_of": src, "at": pos, "extend": f["types"][ti]["extend"]}
    if kind == "duplicate-condition":
        if not f["conds"]:
            f["conds"].append(dslgen.gen_condition(rng, "cond"))
        c = copy.deepcopy(rng.choice(f["conds"]))
        f["conds"].insert(rng.randrange(len(f["conds"]) + 1), c)
        site = {"condition": c["name"]}
        if rng.random() < 0.35:
            # the earlier of the two definitions has no expression at all (an empty body, or only a CEL comment)
            first = [x for x in f["conds"] if x["name"] == c["name"]][0]
            first["expr"] = rng.choice(["", "", "// nothing yet"])
            site["first_body"] = first["expr"]
        return f, site
    if kind == "duplicate-parameter":
        if not f["conds"]:
            f["conds"].append(dslgen.gen_condition(rng, "cond"))
        c = rng.choice(f["conds"])
        p = rng.choice(c["params"])
        c["params"].insert(rng.randrange(len(c["params"]) + 1), (p[0], None, rng.choice(dslgen.PARAM_TYPES)))
        return f, {"condition": c["name"], "parameter": p[0]}
    if kind == "extend-in-model":
        if modular or not f["types"]:
            return None
        ti = rng.randrange(len(f["types"]))
        f["types"][ti]["extend"] = True
        return f, {"type": ti}
    if kind == "extended-twice":
        if not modular or not f["types"]:
            return None
        ti = rng.randrange(len(f["types"]))
        t = f["types"][ti]
        t["extend"] = True
        # each of the two blocks with or without relations, in either order: the same type is extended twice in all four cases
        shape = rng.choice(["full-full", "full-full", "bare-full", "full-bare", "bare-bare"])
        if shape.startswith("bare"):
            t["rels"] = []
        elif not t["rels"]:
            t["rels"] = [("r1", {"first": ("rw", "x", None), "op": None, "rest": []})]
        t2 = {"name": t["name"], "extend": True,
              "rels": [] if shape.endswith("bare") else [("r2", {"first": ("rw", "y", None), "op": None, "rest": []})]}
        # the copy goes behind the first block (so that "bare-full" is bare first), or anywhere
        f["types"].insert(rng.randrange(ti + 1, len(f["types"]) + 1) if rng.random() < 0.7 else rng.randrange(len(f["types"]) + 1), t2)
        return f, {"type": ti, "shape": shape}
    if kind == "both-headers":
        f["header"] = (rng.choice(["both", "both2"]),)
        return f, {}
    if kind == "no-header":
        f["header"] = ("none",)
        return f, {}
    if kind in ("container-without-element", "container-nested"):
        if not f["conds"]:
            f["conds"].append(dslgen.gen_condition(rng, "cond"))
        c = rng.choice(f["conds"])
        k = rng.randrange(len(c["params"]))
        cont = rng.choice(["list", "map"])
        c["params"][k] = (c["params"][k][0], cont,
                          None if kind == "container-without-element" else rng.choice(["list<string>", "map<int>"]))
        return f, {"condition": c["name"], "parameter": k}
    raise ValueError(kind)


KINDS = ["mixed-operators", "direct-not-first", "empty-restrictions", "wildcard-and-relation", "duplicate-relation",
         "duplicate-condition", "duplicate-parameter", "extend-in-model", "extended-twice", "both-headers", "no-header",
         "container-without-element", "container-nested"]


def run(ctx):
    ctx.rule = ("valid generated syntax trees (model and module files) x one injection from the catalogue of structural "
                "violations at a random site (type, relation, operand position, nesting depth) x canonical or wild layout; "
                "every injected document must be rejected with no model; non-trivial = injection inside a relation "
                "definition or a duplicate declaration; distinct by text")
    ctx.assumptions = ["the catalogue lists the rule violations named in the property statement"]
    rng = ctx.rng
    n = 140 if ctx.tier == "quick" else 5000
    items = []
    for i in range(n):
        f0 = dslgen.gen_file(rng, modular=rng.random() < 0.4, hostile=0.0, max_types=4, max_rels=5, depth=3, exotic=0.1)
        # make extended type names unique so that the valid base document is accepted in module mode
        for kind in KINDS:
            r = inject(rng, f0, kind)
            if r is None:
                ctx.count("no_site_" + kind)
                continue
            f, site = r
            L = dslgen.Layout(rng, wild=rng.choice([0.0, 0.0, 0.3]), comments=0.1)
            items.append((kind, site, dslgen.render_file(f, L), f0))
    # the same violation behind a very long line (70 000 bytes of comment right after the header): nothing that follows a
    # long line may be lost to the checks
    longs = []
    for (kind, site, d, f0) in items[:: max(1, len(items) // 12)]:
        ls = d.split("\n")
        if d.startswith("model\n") or d.startswith("module "):
            hdr = 2 if d.startswith("model\n") else 1
            longs.append((kind, dict(site, long_line=True), "\n".join(ls[:hdr] + ["# " + "c" * 70000] + ls[hdr:]), f0))
    items = items + longs
    docs = [x[2] for x in items]
    raw = tf.impl_dsl(ctx, docs, True)
    # (the documents with a very long line are judged on the implementation alone: the extracted model's pre-pass is
    #  quadratic in the length of a line and would dominate the run)
    nl = len(items) - len(longs)
    ir = tf.correspond_dsl(ctx, docs[:nl], True, "injected") + [tf.norm_impl_dsl(r) for r in raw[nl:]]
    for (kind, site, d, f0), a, r in zip(items, ir, raw):
        ctx.note_case(d, kind not in ("both-headers", "no-header"))
        ctx.count("kind_" + kind)
        has_model = bool(r.get("r", {}).get("has_model"))
        if a[0] == "ok" or has_model:
            ctx.violation("accepted-" + kind, {"input": S(d), "text": d, "injection": kind, "site": site,
                                               "why": "a document with the structural violation '%s' was accepted" % kind
                                                      + (" (error returned together with a model)" if a[0] != "ok" else "")})
        elif a[0] in ("syntax", "listener") and len(ctx.samples) < 5 and len(d) < 300:
            ctx.sample({"injection": kind, "text": d, "errors": a[1][:2]})
    # the un-injected documents must be accepted (otherwise the rejections above mean nothing)
    base = []
    seen = set()
    for x in items:
        t = dslgen.render_file(x[3], dslgen.canonical_layout(rng))
        if t not in seen:
            seen.add(t)
            base.append(t)
    br = tf.correspond_dsl(ctx, base, True, "base")
    acc = sum(1 for a in br if a[0] == "ok")
    ctx.extra["base_documents"] = len(base)
    ctx.extra["base_accepted"] = acc
    if base and acc < len(base):
        for t, a in zip(base, br):
            if a[0] != "ok":
                ctx.violation("base-rejected", {"input": S(t), "text": t, "impl": a,
                                                "why": "generator defect: a document meant to be valid is rejected"},
                              found_input=False)
                break


def replay(ctx, data):
    d = data["detail"]
    if "input" not in d:
        print(json.dumps(d, indent=1)[:4000])
        return 1
    text = sexp.to_str(d["input"])
    a = tf.norm_impl_dsl(tf.impl_dsl(ctx, [text], True)[0])
    print("text:", repr(text))
    print("implementation:", json.dumps(a)[:3000])
    return 1 if a[0] == "ok" else 0

"""C07 — module merge succeeds iff conflict-free and returns the exact attributed union."""
import json

from lib import core, sexp, dslgen, modgen, mergecheck
from lib.dslgen import S, T

FAMILIES = ("merge",)


def describe(rendered):
    return [{"name": n, "contents": t} for n, t in rendered]


def check_sets(ctx, items, label):
    """items: (files, injection, rendered)"""
    res = mergecheck.run_sets(ctx, [x[2] for x in items], label)
    mergecheck.coq_spec_check(ctx, [x[2] for x in items], res)
    for (files, inj, rendered), r in zip(items, res):
        if r[0] is None:
            continue
        a = r[0][0]
        sp = modgen.spec(files)
        kind = inj["kind"] if inj else "none"
        ctx.count("inject_" + kind)
        ctx.note_case(json.dumps(rendered), len(files) > 1 and any(d[0] == "extend" for f in files for d in f["decls"]))
        if sp["conflict_free"]:
            if a[0] != "ok":
                ctx.violation("conflict-free-rejected", {"files": describe(rendered), "why": "a conflict-free set of module files is rejected", "errors": a[1], "injection": kind})
                continue
            want, mods = modgen.expected_union(files, "1.2")
            got = a[1]
            # type definitions are returned in file order of their declaration
            if not dslgen.model_eq_ws(got, want):
                ctx.violation("wrong-union", {"files": describe(rendered), "why": "the merged model is not the attributed union of the declarations",
                                              "got": got, "want": dslgen.canon_model(want), "injection": kind})
            elif mergecheck.sorted_mods(a[2]) != mergecheck.sorted_mods(mods):
                ctx.violation("wrong-attribution", {"files": describe(rendered), "why": "GetModuleForObjectTypeRelation does not return the declaring/extending module",
                                                    "got": a[2], "want": mods})
            elif len(ctx.samples) < 3 and len(files) > 1:
                ctx.sample({"files": describe(rendered), "merged_types": [T(t[0]) for t in got[1]]})
        else:
            if a[0] == "ok":
                ctx.violation("conflict-accepted", {"files": describe(rendered), "why": "a set of module files with a conflict is merged without error",
                                                    "conflicts": sp["reasons"], "injection": kind})
            else:
                if a[2]:
                    ctx.violation("partial-model", {"files": describe(rendered), "why": "an error is returned together with a model"})
                names = {n for n, _ in rendered}
                for e in a[1]:
                    if e[0] == "conflict" and e[2] not in names:
                        ctx.violation("error-without-file", {"files": describe(rendered), "why": "a conflict error does not name a file of the set", "error": e})
                        break
                    if e[0] == "syntax":
                        ctx.count("syntax_errors_of_module_files")
                        if e[1] not in names:
                            ctx.violation("error-without-file", {"files": describe(rendered), "why": "the syntax errors of a module file are returned without the name of that file", "error": list(e)})
                            break



def run(ctx):
    ctx.rule = ("generated sets of 1-5 module files: base types with and without relations, extensions (several files "
                "extending the same or different types, a file defining and extending one type, two files extending a "
                "relation-less type), conditions; one conflict from a catalogue injected or none; canonical or wild layout; "
                "non-trivial = more than one file and at least one extension; distinct by text")
    ctx.assumptions = ["the number and the messages of the syntax errors ANTLR reports for one file are external: consecutive syntax entries of one file count as one"]
    rng = ctx.rng
    n = 45 if ctx.tier == "quick" else 1500
    items = []
    for i in range(n):
        for kind in [None] + modgen.CONFLICTS:
            files, inj = modgen.gen_set(rng, kind)
            if kind and inj is None:
                ctx.count("no_site_" + kind)
                continue
            rendered = [(f["name"], modgen.render(rng, f, wild=rng.choice([0.0, 0.0, 0.3]))[0]) for f in files]
            if rng.random() < 0.15:
                # legal spellings with more than one blank (or a tab) between a keyword and the name: the conflict must still
                # come back as an error that names the file (the line look-up of the merge does not find such lines)
                sp = rng.choice(["  ", "\t", "   "])
                rendered = [(nm, t.replace("type ", "type" + sp).replace("define ", "define" + sp).replace("condition ", "condition" + sp))
                            for nm, t in rendered]
            items.append((files, inj, rendered))
    check_sets(ctx, items, "sets")


def replay(ctx, data):
    d = data["detail"]
    if "files" not in d:
        print(json.dumps(d, indent=1)[:4000])
        return 1
    rendered = [(f["name"], f["contents"]) for f in d["files"]]
    r = mergecheck.run_sets(ctx, [rendered], "replay")
    print(json.dumps(d["files"], indent=1))
    print("implementation:", json.dumps(r[0][0])[:3000])
    print("model:", json.dumps(r[0][1])[:3000])
    return 1 if ctx.violations else 0

"""C11 — see props/graphprops.py"""
from props import graphprops

FAMILIES = graphprops.FAMILIES


def run(ctx):
    graphprops.run_for(ctx, "C11")


def replay(ctx, data):
    return graphprops.replay_for(ctx, "C11", data)

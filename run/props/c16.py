"""C16 — reported error positions always lie inside the input and on the offending text."""
import json
import os
import re

from lib import core, sexp, dslgen, modgen, mergecheck, tf
from lib.dslgen import S, T
from props import c09

FAMILIES = ("transform", "merge")

NAME_IN_MSG = [
    (re.compile(r"^'(.*)' is already defined in '(.*)'$", re.S), "relation"),
    (re.compile(r"^condition '(.*)' is already defined in the model$", re.S), "condition"),
    (re.compile(r"^parameter '(.*)' is already defined in the condition '(.*)'$", re.S), "parameter"),
    (re.compile(r"^'(.*)' is already extended in file\.$", re.S), "extended"),
]


def in_bounds(d, line, col):
    lines = d.split("\n")
    if not (0 <= line < len(lines)):
        return False
    return 0 <= col <= len(lines[line])


def check_dsl_positions(ctx, docs, label):
    """bounds for every error of every rejected document; exactness for listener-raised errors"""
    ir = tf.correspond_dsl(ctx, docs, True, label)
    for d, a in zip(docs, ir):
        if a[0] not in ("syntax", "listener"):
            continue
        ctx.note_case(d, a[0] == "listener")
        ctx.count(label + "_errors", len(a[1]))
        for (line, col, msg) in a[1]:
            if not in_bounds(d, line, col):
                ctx.violation("position-out-of-bounds", {"input": S(d), "text": d, "error": [line, col, msg],
                                                         "why": "line %d column %d is outside the input (%d lines)" % (line, col, len(d.split(chr(10))))})
                break
            name = None
            for rx, kind in NAME_IN_MSG:
                m = rx.match(msg)
                if m:
                    name = m.group(1)
                    break
            if msg == "extend can only be used in a modular model":
                kind = "extend"
                rest = d.split("\n")[line][:col]
                # in a document that also has syntax errors ANTLR's recovery can attach a stray 'extend' token to a
                # type declaration that does not start with it: the listener then reports the type's name, which is
                # where the name stands, but "extend type" need not precede it — the textual test below is for
                # documents that parse (the property's exact-position clause is about injected conflicts in valid text)
                if a[0] != "listener":
                    ctx.count(label + "_extend_error_after_recovery")
                    continue
                if not re.search(r"extend[ \t\f]+type[ \t\f]+$", rest):
                    ctx.violation("position-not-on-name", {"input": S(d), "text": d, "error": [line, col, msg],
                                                           "why": "the error does not point at the name of the extended type"})
                    break
                continue
            if name is not None:
                here = d.split("\n")[line][col:]
                if not here.startswith(name):
                    ctx.violation("position-not-on-name", {"input": S(d), "text": d, "error": [line, col, msg],
                                                           "why": "the text at the reported position does not spell %r" % name})
                    break
                # there must be an earlier declaration of the same name (the reported one is the repeated one)
                before = "\n".join(d.split("\n")[:line]) + "\n" + d.split("\n")[line][:col]
                if name not in before:
                    ctx.violation("position-on-first-declaration", {"input": S(d), "text": d, "error": [line, col, msg],
                                                                    "why": "the error points at the first declaration of %r, not at the repeated one" % name})
                    break
                if len(ctx.samples) < 3 and len(d) < 300:
                    ctx.sample({"text": d, "error": [line, col, msg]})


def mutate(rng, d):
    """small token-level damage that keeps most of the document"""
    k = rng.random()
    if not d:
        return "x"
    p = rng.randrange(len(d))
    if k < 0.25:
        return d[:p] + d[p + 1:]
    if k < 0.5:
        return d[:p] + rng.choice(["[", "]", "(", ")", ":", ",", "#", " or ", " and ", "define ", "type ", "\n", "é", "\t", "}", "{"]) + d[p:]
    if k < 0.7:
        q = min(len(d), p + rng.randint(1, 12))
        return d[:p] + d[q:]
    if k < 0.85:
        lines = d.split("\n")
        i = rng.randrange(len(lines))
        lines.insert(i, rng.choice(["# comment", "", "   ", "  # indented comment"]))
        return "\n".join(lines)
    return d[:p]


# ---- merge conflicts ----

PREFIX = {"duplicate type definition": "type ", "duplicate condition": "condition ", "extended type": "extend type ",
          "relation": "define "}


def first_line_with_prefix(lines, prefix):
    for i, l in enumerate(lines):
        if l.strip().startswith(prefix):
            return i
    return None


def expected_conflict_positions(e, files, positions):
    """candidate (file, line, col) of the declaration an error is about, from the generator's own bookkeeping"""
    msg, file = e[1], e[2]
    pos = positions.get(file, [])
    m = re.match(r"^duplicate type definition (.*)$", msg)
    if m:
        return [(p[3], p[4]) for p in pos if p[0] == "type" and p[2] == m.group(1)], ("type " + m.group(1)), m.group(1)
    m = re.match(r"^duplicate condition (.*)$", msg)
    if m:
        return [(p[3], p[4]) for p in pos if p[0] == "cond" and p[2] == m.group(1)], ("condition " + m.group(1)), m.group(1)
    m = re.match(r"^extended type (.*) does not exist$", msg)
    if m:
        return [(p[3], p[4]) for p in pos if p[0] == "extend" and p[2] == m.group(1)], ("extend type " + m.group(1)), m.group(1)
    m = re.match(r"^relation (.*) already exists on type (.*)$", msg)
    if m:
        return [(p[3], p[4]) for p in pos if p[0] == "relation" and p[2] == m.group(1) and p[1] == m.group(2) and p[5] == "extend"], ("define " + m.group(1)), m.group(1)
    return None, None, None


def check_merge_positions(ctx, n):
    rng = ctx.rng
    items = []
    for i in range(n):
        kind = rng.choice(modgen.CONFLICTS[:6])
        files, inj = modgen.gen_set(rng, kind)
        if inj is None:
            continue
        rendered = []
        positions = {}
        for f in files:
            text, pos = modgen.render(rng, f, wild=rng.choice([0.0, 0.3]))
            rendered.append((f["name"], text))
            positions[f["name"]] = pos
        items.append((files, rendered, positions, kind))
    res = mergecheck.run_sets(ctx, [x[1] for x in items], "conflicts")
    known_hits = 0
    for (files, rendered, positions, kind), r in zip(items, res):
        if r[0] is None:
            continue
        a = r[0][0]
        texts = dict(rendered)
        if a[0] != "err":
            continue
        ctx.note_case(json.dumps(rendered), True)
        for e in a[1]:
            if e[0] != "conflict" or e[1] == "file is not a module":
                continue
            ctx.count("conflict_errors")
            cands, prefix, name = expected_conflict_positions(e, files, positions)
            if cands is None:
                continue
            detail = {"files": [{"name": n_, "contents": t} for n_, t in rendered], "error": list(e)}
            if e[2] not in texts:
                ctx.violation("conflict-without-file", dict(detail, why="the conflict error does not name a file of the set"))
                continue
            lines = texts[e[2]].split("\n")
            got = (e[3], e[5])
            if got in cands:
                ctx.count("conflict_position_exact")
                if len(ctx.samples) < 5:
                    ctx.sample({"file": e[2], "line": lines[e[3]], "error": list(e)})
                continue
            # wrong position: is it the listed finding (whole-file prefix look-up, first substring for the column)?
            first = first_line_with_prefix(lines, prefix)
            region = False
            if cands:
                region = any(first != cl or lines[cl].find(name) != cc for (cl, cc) in cands)
            agree = r[1] is not None and r[1][0] == "err" and e in r[1][1]
            if region and agree and core.finding_listed(ctx, "K-C16-lines"):
                known_hits += 1
                ctx.count("known_finding_K-C16-lines")
                continue
            ctx.violation("conflict-position", dict(detail, why="the error is reported at line %d column %d of %s; the conflicting declaration stands at %s"
                                                                % (e[3], e[5], e[2], cands), expected=cands))
    ctx.extra["known_finding_hits"] = known_hits


def replay_known(ctx):
    """replay the witness of every listed finding; print KNOWN-FINDING if it still fails as recorded"""
    for k in ctx.known:
        fid = k["fields"].get("id")
        p = os.path.join(core.VERIF, "findings", fid + ".json")
        if not os.path.exists(p):
            continue
        w = json.load(open(p))
        rendered = [(f["name"], f["contents"]) for f in w["files"]]
        r = mergecheck.impl_merge(ctx, [rendered])[0]
        runs = [mergecheck.norm_impl_run(x) for x in r["r"]["runs"]]
        errs = runs[0][1] if runs[0][0] == "err" else []
        still = any(e[0] == "conflict" and e[1] == w["error_msg"] and (e[3], e[5]) == tuple(w["reported"]) and tuple(w["reported"]) != tuple(w["declared_at"]) for e in errs)
        if still:
            ctx.known_finding(f"id={fid} {w['what']}")
        else:
            ctx.count("known_finding_no_longer_reproduces")


def run(ctx):
    ctx.rule = ("rejected documents: the repository's invalid samples, the C09 injection catalogue on generated documents in "
                "wild layouts with comment and blank lines, and token-level damage of valid documents (bounds of every "
                "error; listener-raised errors must spell the offending name at the reported position and be preceded by "
                "an earlier declaration); module sets with one injected conflict at a position the generator records "
                "(file, line and column of the conflicting declaration); non-trivial = a listener-raised error or a merge conflict")
    ctx.assumptions = ["ANTLR's own messages are reported at token starts / EOF / characters of the cleaned text (external runtime)",
                       "columns are counted in code points for DSL errors and in bytes for merge errors, as the code does"]
    rng = ctx.rng
    replay_known(ctx)
    docs = [d for d in dslgen.corpus_dsl()]
    n = 60 if ctx.tier == "quick" else 3000
    for i in range(n):
        f0 = dslgen.gen_file(rng, modular=rng.random() < 0.4, hostile=0.1, max_types=4, max_rels=5, depth=3, exotic=0.1)
        for kind in ("duplicate-relation", "duplicate-condition", "duplicate-parameter", "extend-in-model", "extended-twice",
                     "mixed-operators", "direct-not-first", "empty-restrictions"):
            r = c09.inject(rng, f0, kind)
            if r is None:
                continue
            L = dslgen.Layout(rng, wild=rng.choice([0.0, 0.3, 0.6]), comments=0.3)
            text = dslgen.render_file(r[0], L)
            if rng.random() < 0.5:
                text = "".join(rng.choice(["# leading comment\n", "\n", "  \n", "   # indented\n"]) for _ in range(rng.randint(1, 3))) + text
            docs.append(text)
        valid = dslgen.render_file(f0, dslgen.Layout(rng, wild=0.2))
        for _ in range(3):
            docs.append(mutate(rng, valid))
    check_dsl_positions(ctx, list(dict.fromkeys(docs)), "dsl")
    check_merge_positions(ctx, 250 if ctx.tier == "quick" else 6000)


def replay(ctx, data):
    d = data["detail"]
    if "input" in d:
        check_dsl_positions(ctx, [sexp.to_str(d["input"])], "replay")
    elif "files" in d:
        rendered = [(f["name"], f["contents"]) for f in d["files"]]
        r = mergecheck.run_sets(ctx, [rendered], "replay")
        print(json.dumps(r[0][0][0])[:3000])
    for v in ctx.violations:
        print(json.dumps(v, indent=1, ensure_ascii=False)[:3000])
    return 1 if ctx.violations else 0

"""C01 — DSL -> model -> DSL -> model is the identity on every accepted DSL document."""
import json

from lib import core, sexp, dslgen, tf
from lib.dslgen import S, T

FAMILIES = ("transform",)


def impl_rt(ctx, docs, via):
    return ctx.impl([{"op": "rt", "d": S(d), "via": via} for d in docs])


def model_rt(ctx, docs, via):
    return ctx.model(tf.FAM, ["(206 %d %s)" % (1 if via == "json" else 0, sexp.enc(d)) for d in docs])


def norm_impl_rt(r):
    if r.get("panic") is not None:
        return ("panic", r["panic"])
    if r.get("timeout"):
        return ("timeout",)
    if "r" not in r:
        return ("bad", r.get("bad"))
    x = r["r"]
    steps = []
    for s in x["steps"]:
        steps.append((dslgen.canon_model(s[0]), T(s[1]) if len(s) > 1 else None))
    fail = None
    if "fail" in x:
        fail = (x["fail"][0], x["fail"][1] if x["fail"][1] != "load" else "parse")
    return ("steps", steps, fail, T(x["fail"][2]) if "fail" in x else None)


def norm_model_rt(r):
    steps = [(dslgen.canon_model(s[0]), T(s[1]) if len(s) > 1 else None) for s in r[0]]
    fail = None
    if r[1]:
        fail = (r[1][0], "parse" if r[1][1] == 0 else "print")
    return ("steps", steps, fail, None)


def has_hash_in_condition(model):
    return any(35 in c[1] for _, c in model[2])


def theorem_check(ctx, items):
    """items: (document, steps) of accepted documents.  The document-level theorems (C01_three_rounds,
    C02_document_round_trip_decidable), evaluated by the extracted model on the model the IMPLEMENTATION returned for the
    document (wire op 208): where model_okb says they apply, the implementation's second model must be [canonical m1] and
    its second rendering must be its first rendering, byte for byte."""
    if not items:
        return
    try:
        th = ctx.model(tf.FAM, ["(208 %s)" % sexp.enc(steps[0][0]) for _, steps in items])
    except core.ModelUnavailable:
        return
    for (d, steps), r8 in zip(items, th):
        if not r8:
            continue
        ctx.count("theorem_document_applicable" if r8[0] == 1 else "theorem_document_not_applicable")
        if r8[0] != 1 or len(steps) < 2:
            continue
        if dslgen.canon_model(r8[1]) != steps[1][0]:
            ctx.violation("theorem-rhs-differs", {"input": S(d), "text": d, "why": "the model read back from the first rendering differs from the canonical form the proved round trip promises",
                                                  "promised": dslgen.canon_model(r8[1]), "got": steps[1][0]})
        elif steps[1][1] != steps[0][1]:
            ctx.violation("theorem-bytes-differ", {"input": S(d), "text": d, "why": "the second rendering differs from the first although the proved three-round theorem applies",
                                                   "renderings": [s[1] for s in steps]})


def check_docs(ctx, docs, label):
    docs = list(dict.fromkeys(docs))
    for via in ("json", "direct"):
        applicable = []
        ir = [norm_impl_rt(r) for r in impl_rt(ctx, docs, via)]
        try:
            mr = [norm_model_rt(r) for r in model_rt(ctx, docs, via)]
        except core.ModelUnavailable:
            tf.model_unavailable(ctx)
            mr = [None] * len(docs)
        for d, a, b in zip(docs, ir, mr):
            if a[0] != "steps":
                ctx.violation("entry-point-abnormal", {"op": "rt", "via": via, "input": S(d), "text": d, "impl": a})
                continue
            steps, fail, msg = a[1], a[2], a[3]
            accepted = not (fail and fail == (0, "parse"))
            ctx.count(f"{label}_{via}_{'accepted' if accepted else 'rejected'}")
            if b is not None and (a[1], a[2]) != (b[1], b[2]):
                ctx.violation("correspondence-roundtrip", {"op": "rt", "via": via, "input": S(d), "text": d,
                                                           "impl": {"fail": fail, "texts": [s[1] for s in steps]},
                                                           "model": {"fail": b[2], "texts": [s[1] for s in b[1]]},
                                                           "what": "Model/Transform.roundtrip and the implementation disagree"},
                              found_input=False)
            if not accepted:
                continue
            m1 = steps[0][0]
            if not m1[0]:
                ctx.count("skipped_module_file")       # the property is about full models (model/schema header)
                continue
            if has_hash_in_condition(m1):
                ctx.count("skipped_hash_in_condition")
                continue
            if via == "json":
                ctx.note_case(d, any(t[1] for t in m1[1]))
            why = None
            if fail:
                why = f"round {fail[0]}: {fail[1]} failed: {msg}"
            elif not dslgen.model_eq_ws(steps[1][0], m1):
                why = "parsing the rendering gives a different model"
            elif steps[2][0] != steps[1][0]:
                why = "a second render/parse changes the model again"
            elif steps[2][1] != steps[1][1]:
                why = "the rendering is not byte-stable after one round"
            if not fail and via == "direct":
                applicable.append((d, steps))
            if why:
                ctx.violation("roundtrip-" + via, {"input": S(d), "text": d, "via": via, "why": why,
                                                   "renderings": [s[1] for s in steps]})
            elif len(ctx.samples) < 4 and len(d) < 300 and m1[2]:
                ctx.sample({"text": d, "via": via, "rendering": steps[0][1]})
        theorem_check(ctx, applicable)


def run(ctx):
    ctx.rule = ("DSL documents: every DSL text under tests/data plus generated syntax trees (as C03) in canonical and wild "
                "layouts; each run three rounds through both API paths; non-trivial = accepted with at least one "
                "relation; documents whose condition expressions contain '#' are outside the property's domain and skipped")
    ctx.assumptions = ["protojson marshal/unmarshal is the identity on the model AST up to this:{} (checked by correspondence)"]
    docs = dslgen.corpus_dsl()
    n = 400 if ctx.tier == "quick" else 8000
    rng = ctx.rng
    for i in range(n):
        f = dslgen.gen_file(rng, modular=False, hostile=0.3, max_types=4, max_rels=5, depth=4)
        docs.append(dslgen.render_file(f, dslgen.Layout(rng, wild=rng.choice([0.0, 0.3]))))
    # names that differ only in the case of their letters (types, relations, conditions, parameters): an order that
    # ignores case ties on them, and a tie is broken by Go's map order - the rendering stops being byte-stable
    for i in range(12 if ctx.tier == "quick" else 200):
        pairs = rng.sample([("limit", "Limit"), ("in_window", "In_Window"), ("c1", "C1"), ("valid", "VALID")], 2)
        rels = rng.sample([("viewer", "Viewer"), ("editor", "EDITOR"), ("owner", "Owner")], 2)
        lines = ["model", "  schema 1.1", "type user", "type User", "type doc", "  relations"]
        for a, b in rels:
            lines.append("    define %s: [user, User with %s, user with %s]" % (a, pairs[0][0], pairs[0][1]))
            lines.append("    define %s: [User with %s] or %s" % (b, pairs[1][rng.randint(0, 1)], a))
        rng.shuffle(lines[6:])
        for a, b in pairs:
            for nm in rng.sample([a, b], 2):
                lines += ["condition %s(x: int, X: string) {" % nm, "  x < %d" % rng.randint(1, 9), "}"]
        docs.append("\n".join(lines) + "\n")
    check_docs(ctx, docs, "docs")


def replay(ctx, data):
    d = data["detail"]
    if "input" not in d:
        print(json.dumps(d, indent=1)[:4000])
        return 1
    check_docs(ctx, [sexp.to_str(d["input"])], "replay")
    for v in ctx.violations:
        print(json.dumps(v, indent=1, ensure_ascii=False)[:3000])
    return 1 if ctx.violations else 0

#!/usr/bin/env python3
"""MANIFEST.setup_cmd: build everything from files on disk (offline): Gen/*.v from /repo, the Coq
development (full .vo build), every extracted model binary, the Go harness."""
import glob
import os
import sys

HERE = os.path.dirname(os.path.abspath(__file__))
sys.path.insert(0, HERE)
from lib import core  # noqa: E402


def main():
    fams = sorted(os.path.basename(p)[:-2] for p in glob.glob(os.path.join(core.COQ, "Extract", "*.v")))
    st = core.ensure_build(families=fams, need_harness=True)
    ok = not st.coq_unbuilt and all(st.families.values()) and st.harness and not st.forbidden
    if not ok:
        print(st.coq_errors[-4000:])
        print(st.harness_error[-2000:])
        print("forbidden:", st.forbidden)
    return 0 if ok else 1


if __name__ == "__main__":
    sys.exit(main())

"""Shared machinery of the checks: build, model/implementation runners, proof ledger,
known findings, evidence, verdicts.  See DESIGN.md section 3."""
import fcntl
import glob
import hashlib
import json
import os
import random
import re
import shutil
import subprocess
import sys
import time

from . import sexp

RUN = os.path.dirname(os.path.dirname(os.path.abspath(__file__)))
VERIF = os.path.dirname(RUN)
COQ = os.path.join(VERIF, "coq")
BUILD = os.path.join(VERIF, "build")
REPO = os.environ.get("VERIF_REPO", "/repo")
GOENV = dict(os.environ, GOFLAGS="-mod=mod", GOPROXY="off", GOSUMDB="off", GOTOOLCHAIN="local",
             CGO_ENABLED="0")

COQ_DIRS = ["Base", "Gen", "Model", "Spec", "Proofs", "Properties"]
FORBIDDEN = [r"\bAdmitted\b", r"\badmit\b", r"\bAxiom\b", r"\bAxioms\b", r"\bParameter\b",
             r"\bParameters\b", r"\bConjecture\b", r"Unset\s+Guard", r"bypass_check",
             r"Admit\s+Obligations", r"type-in-type", r"impredicative-set",
             r"Unset\s+Positivity", r"Unset\s+Universe", r"\bgive_up\b"]
SECTION_ONLY = [r"\bVariable\b", r"\bVariables\b", r"\bHypothesis\b", r"\bHypotheses\b", r"\bContext\b"]
ALLOWED_AXIOMS = set()   # standard-library axioms in use, each named in DESIGN.md section 9 (none)


def log(*a):
    print(*a, file=sys.stderr, flush=True)


def sh(cmd, cwd=None, env=None, timeout=1800, inp=None):
    p = subprocess.run(cmd, cwd=cwd, env=env, input=inp, stdout=subprocess.PIPE,
                       stderr=subprocess.STDOUT, timeout=timeout,
                       text=isinstance(inp, str) or inp is None)
    return p.returncode, p.stdout


def strip_comments(text):
    out = []
    depth = 0
    i = 0
    n = len(text)
    while i < n:
        if text.startswith("(*", i):
            depth += 1
            i += 2
        elif text.startswith("*)", i) and depth > 0:
            depth -= 1
            i += 2
        else:
            if depth == 0:
                out.append(text[i])
            i += 1
    return "".join(out)


# ---------------------------------------------------------------------------------------------
# build
# ---------------------------------------------------------------------------------------------

class BuildStatus:
    def __init__(self):
        self.gen = {}              # Gen file -> {"ok":..,"error":..}
        self.coq_unbuilt = set()   # .v files (relative to coq/) that did not compile
        self.coq_errors = ""       # tail of make output when something failed
        self.families = {}         # family -> path of binary or None
        self.harness = None        # path or None
        self.harness_error = ""
        self.forbidden = []        # forbidden-construct hits
        self.wall = 0.0

    def vo_ok(self, rel):
        return rel not in self.coq_unbuilt and os.path.exists(os.path.join(COQ, rel + "o"))


def _coq_files():
    files = []
    for d in COQ_DIRS:
        for p in sorted(glob.glob(os.path.join(COQ, d, "*.v"))):
            files.append(os.path.relpath(p, COQ))
    return files


def _write_if_changed(path, text):
    try:
        with open(path) as f:
            if f.read() == text:
                return False
    except OSError:
        pass
    with open(path, "w") as f:
        f.write(text)
    return True


def scan_forbidden():
    hits = []
    for p in glob.glob(os.path.join(COQ, "**", "*.v"), recursive=True):
        try:
            raw = open(p, encoding="utf-8").read()
        except OSError:
            continue
        code = strip_comments(raw)
        rel = os.path.relpath(p, COQ)
        for pat in FORBIDDEN:
            m = re.search(pat, code)
            if m:
                hits.append(f"{rel}: {m.group(0)}")
        if not re.search(r"^\s*Section\b", code, re.M):
            for pat in SECTION_ONLY:
                m = re.search(pat, code)
                if m:
                    hits.append(f"{rel}: {m.group(0)} outside a section")
    return hits


def ensure_build(families=(), need_harness=True, quiet=False):
    """Regenerate Gen/*.v from /repo, rebuild the Coq development (full .vo build), the
    extracted model binaries of the requested families and the Go harness.  Idempotent and
    serialised by a file lock."""
    os.makedirs(BUILD, exist_ok=True)
    st = BuildStatus()
    t0 = time.time()
    with open(os.path.join(BUILD, ".lock"), "w") as lock:
        fcntl.flock(lock, fcntl.LOCK_EX)
        # 1. translator
        rc, out = sh([sys.executable, os.path.join(RUN, "gen_coq.py")], timeout=300)
        try:
            st.gen = json.loads(out[out.index("{"):])
        except ValueError:
            st.gen = {"_translator": {"ok": False, "error": out[-2000:]}}
        # 2. Coq
        files = _coq_files()
        proj = "-Q . Verif\n-arg -w -arg -notation-overridden,-deprecated-hint-without-locality," \
               "-deprecated-syntactic-definition,-deprecated-instance-without-locality\n" + "\n".join(files) + "\n"
        changed = _write_if_changed(os.path.join(COQ, "_CoqProject"), proj)
        mk = os.path.join(COQ, "Makefile.coq")
        if changed or not os.path.exists(mk):
            rc, out = sh(["coq_makefile", "-f", "_CoqProject", "-o", "Makefile.coq"], cwd=COQ)
            if rc != 0:
                st.coq_errors = out[-3000:]
        rc, out = sh(["timeout", "3000", "make", "-f", "Makefile.coq", "-k", "-j16"], cwd=COQ, timeout=3100)
        if rc != 0:
            st.coq_errors = out[-6000:]
            rc2, dry = sh(["make", "-f", "Makefile.coq", "-k", "-n"], cwd=COQ)
            for m in re.finditer(r"COQC (\S+\.v)", dry):
                st.coq_unbuilt.add(m.group(1))
            for m in re.finditer(r'(\S+\.v)"?, line \d+', out):
                f = m.group(1).lstrip("./")
                if f in files:
                    st.coq_unbuilt.add(f)
        st.forbidden = scan_forbidden()
        # 3. extraction per family
        for fam in families:
            st.families[fam] = _build_family(fam, st)
        # 4. Go harness
        if need_harness:
            _build_harness(st)
    st.wall = time.time() - t0
    if not quiet:
        log(f"[build] {st.wall:.1f}s gen={ {k: v.get('ok') for k, v in st.gen.items()} } "
            f"unbuilt={sorted(st.coq_unbuilt)} families={ {k: bool(v) for k, v in st.families.items()} } "
            f"harness={bool(st.harness)}")
    return st


def _deps_mtime(paths):
    m = 0.0
    for p in paths:
        try:
            m = max(m, os.path.getmtime(p))
        except OSError:
            return float("inf")
    return m


def _build_family(fam, st):
    src = os.path.join(COQ, "Extract", fam + ".v")
    if not os.path.exists(src):
        return None
    out_dir = os.path.join(BUILD, "extract", fam)
    os.makedirs(out_dir, exist_ok=True)
    binary = os.path.join(BUILD, "model_" + fam)
    vos = glob.glob(os.path.join(COQ, "Base", "*.vo")) + glob.glob(os.path.join(COQ, "Gen", "*.vo")) + \
        glob.glob(os.path.join(COQ, "Model", "*.vo")) + glob.glob(os.path.join(COQ, "Spec", "*.vo"))
    if "Proofs." in open(src).read():       # the layout family takes definitions from proof files
        vos += glob.glob(os.path.join(COQ, "Proofs", "*.vo"))
    driver = os.path.join(VERIF, "ocaml", "driver.ml")
    newest = _deps_mtime(vos + [src, driver])
    # which .vo does this family need?  If any of its transitive deps failed, coqc will fail below.
    if os.path.exists(binary) and os.path.getmtime(binary) >= newest:
        # still make sure none of the needed files is currently broken
        if not _family_broken(fam, st):
            return binary
    shutil.copy(src, os.path.join(out_dir, "Extract.v"))
    rc, out = sh(["timeout", "900", "coqc", "-Q", COQ, "Verif", "Extract.v"], cwd=out_dir, timeout=1000)
    if rc != 0:
        st.coq_errors += f"\n[extract {fam}] " + out[-2000:]
        if os.path.exists(binary):
            os.remove(binary)
        return None
    ml = "fgamodel_" + fam
    drv = open(driver).read().replace("module M = Fgamodel", "module M = " + ml.capitalize())
    with open(os.path.join(out_dir, "driver.ml"), "w") as f:
        f.write(drv)
    rc, out = sh(["ocamlfind", "ocamlopt", "-w", "-a", "-inline", "100",
                  ml + ".mli", ml + ".ml", "driver.ml", "-o", binary], cwd=out_dir, timeout=900)
    if rc != 0:
        st.coq_errors += f"\n[ocaml {fam}] " + out[-2000:]
        return None
    return binary


def _family_broken(fam, st):
    if not st.coq_unbuilt:
        return False
    src = open(os.path.join(COQ, "Extract", fam + ".v")).read()
    needed = re.findall(r"(?:Model|Spec|Base|Gen)\.\w+", src)
    # conservative: broken if any unbuilt file is a Model/Spec/Base/Gen file (or, for a family that reads proof files, any file)
    dirs = ("Model", "Spec", "Base", "Gen") + (("Proofs",) if "Proofs." in src else ())
    return any(f.split("/")[0] in dirs for f in st.coq_unbuilt) and bool(needed)


def _build_harness(st):
    srcdir = os.path.join(VERIF, "harness")
    work = os.path.join(BUILD, "harness_src")
    os.makedirs(work, exist_ok=True)
    keep = set()
    for p in glob.glob(os.path.join(srcdir, "*.go")) + [os.path.join(srcdir, "go.mod")]:
        dst = os.path.join(work, os.path.basename(p))
        keep.add(dst)
        if not os.path.exists(dst) or open(p, "rb").read() != open(dst, "rb").read():
            shutil.copy(p, dst)
    for p in glob.glob(os.path.join(work, "*.go")):
        if p not in keep:
            os.remove(p)
    gosum = os.path.join(REPO, "pkg", "go", "go.sum")
    if os.path.exists(gosum):
        shutil.copy(gosum, os.path.join(work, "go.sum"))
    binary = os.path.join(BUILD, "harness")
    rc, out = sh(["timeout", "900", "go", "build", "-tags", "verif", "-o", binary + ".new", "."], cwd=work, env=GOENV,
                 timeout=1000)
    if rc != 0:
        st.harness = None
        st.harness_error = out[-4000:]
        return
    os.replace(binary + ".new", binary)
    st.harness = binary


def build_race_harness():
    """the same harness built with the Go race detector (needs cgo); returns the path or None"""
    work = os.path.join(BUILD, "harness_src")
    binary = os.path.join(BUILD, "harness_race")
    with open(os.path.join(BUILD, ".lock"), "w") as lock:
        fcntl.flock(lock, fcntl.LOCK_EX)
        rc, out = sh(["timeout", "900", "go", "build", "-race", "-tags", "verif", "-o", binary + ".new", "."], cwd=work,
                     env=dict(GOENV, CGO_ENABLED="1"), timeout=1000)
        if rc != 0:
            return None, out[-2000:]
        os.replace(binary + ".new", binary)
    return binary, ""


def run_race(binary, requests, timeout=1800):
    """run requests under the race-enabled harness; returns (results or None, race report text)"""
    data = "\n".join(json.dumps(r, separators=(",", ":")) for r in requests) + "\n"
    p = subprocess.run([binary, "-workers=8", "-deadline-ms=120000"], input=data, stdout=subprocess.PIPE, stderr=subprocess.PIPE,
                       text=True, timeout=timeout, env=dict(os.environ, GORACE="halt_on_error=0"))
    races = p.stderr if "DATA RACE" in p.stderr else ""
    lines = [l for l in p.stdout.split("\n") if l]
    try:
        res = [json.loads(l) for l in lines]
    except ValueError:
        res = None
    return res, races


# ---------------------------------------------------------------------------------------------
# running the two sides
# ---------------------------------------------------------------------------------------------

def run_model(binary, requests, timeout=1800, shards=16):
    """requests: list of sexp texts; returns list of parsed results (nested lists of ints)."""
    if not requests:
        return []
    shards = max(1, min(shards, len(requests) // 200 + 1))
    chunks = [requests[i::shards] for i in range(shards)]
    procs = []
    for ch in chunks:
        p = subprocess.Popen([binary], stdin=subprocess.PIPE, stdout=subprocess.PIPE, text=True,
                             env=dict(os.environ, OCAMLRUNPARAM="l=8G"))
        procs.append((p, ch))
    outs = []
    import threading
    results = [None] * len(procs)

    def feed(k, p, ch):
        try:
            o, _ = p.communicate("\n".join(ch) + "\n", timeout=timeout)
        except subprocess.TimeoutExpired:
            p.kill()
            o = ""
        results[k] = o

    ths = [threading.Thread(target=feed, args=(k, p, ch)) for k, (p, ch) in enumerate(procs)]
    for t in ths:
        t.start()
    for t in ths:
        t.join()
    per = []
    for k, (p, ch) in enumerate(procs):
        lines = (results[k] or "").split("\n")
        if lines and lines[-1] == "":
            lines.pop()
        if len(lines) != len(ch):
            raise RuntimeError(f"model returned {len(lines)} lines for {len(ch)} requests "
                               f"(rc={p.returncode}); last request: {ch[len(lines)] if len(lines) < len(ch) else ''}"[:600])
        per.append([sexp.parse(l) for l in lines])
    res = [None] * len(requests)
    for k in range(shards):
        for j, r in enumerate(per[k]):
            res[k + j * shards] = r
    return res


def run_impl(binary, requests, seq=False, timeout=3600, deadline_ms=20000, workers=16):
    """requests: list of dicts (with 'op'); returns list of result dicts."""
    if not requests:
        return []
    data = "\n".join(json.dumps(r, separators=(",", ":")) for r in requests) + "\n"
    cmd = [binary, f"-deadline-ms={deadline_ms}", f"-workers={workers}"]
    if seq:
        cmd.append("-seq")
    p = subprocess.run(cmd, input=data, stdout=subprocess.PIPE, stderr=subprocess.PIPE, text=True, timeout=timeout)
    lines = p.stdout.split("\n")
    if lines and lines[-1] == "":
        lines.pop()
    if len(lines) != len(requests):
        if p.returncode == 0:
            raise RuntimeError(f"harness returned {len(lines)} lines for {len(requests)} requests; rc={p.returncode} "
                               f"stderr={p.stderr[-800:]}")
        # the harness process died (a Go fatal error — concurrent map access, stack overflow, out of memory — cannot
        # be recovered inside the process): isolate the requests that kill it and report them as abnormal results
        return _isolate_crash(cmd, requests, timeout, p.stderr[-1500:])
    return [json.loads(l) for l in lines]


def _isolate_crash(cmd, requests, timeout, stderr_tail, depth=0):
    """bisect a batch whose process died; a request (or group of requests) that kills the process gets
    {"panic": "process died: ..."} (no "r"), the others their normal results"""
    def attempt(reqs):
        data = "\n".join(json.dumps(r, separators=(",", ":")) for r in reqs) + "\n"
        q = subprocess.run(cmd, input=data, stdout=subprocess.PIPE, stderr=subprocess.PIPE, text=True, timeout=timeout)
        ls = q.stdout.split("\n")
        if ls and ls[-1] == "":
            ls.pop()
        if len(ls) == len(reqs):
            return [json.loads(l) for l in ls], None
        return None, q.stderr[-1500:]
    died = {"panic": "process died: " + stderr_tail[-600:], "timeout": None, "fatal": True}
    if len(requests) == 1 or depth > 14:
        return [dict(died) for _ in requests]
    mid = len(requests) // 2
    out = []
    any_fatal = False
    for part in (requests[:mid], requests[mid:]):
        res, err = attempt(part)
        if res is None:
            res = _isolate_crash(cmd, part, timeout, err, depth + 1)
            any_fatal = True
        out.extend(res)
    if not any_fatal:
        # each half survives alone: the crash needs requests of both halves in one process (shared state)
        d = dict(died)
        d["panic"] = "process died when these requests ran in one process (each half alone survives): " + stderr_tail[-500:]
        return [dict(d) for _ in requests]
    return out


# ---------------------------------------------------------------------------------------------
# proof ledger
# ---------------------------------------------------------------------------------------------

def ledger(pid, st):
    """Compile a scratch file that Requires Properties/<pid>.vo and prints the assumptions of every
    theorem stated there.  Returns dict(obligations, discharged, theorems=[(name, status)], broken=[...])."""
    prop_rel = f"Properties/{pid}.v"
    prop_path = os.path.join(COQ, prop_rel)
    res = {"obligations": 0, "discharged": 0, "theorems": [], "broken": [], "axioms": [], "notes": []}
    if not os.path.exists(prop_path):
        res["notes"].append("no Properties file")
        return res
    code = strip_comments(open(prop_path).read())
    names = re.findall(r"^\s*(?:Theorem|Corollary)\s+(\w+)", code, re.M)
    res["obligations"] = len(names)
    if st.forbidden:
        res["notes"].append("forbidden constructs: " + "; ".join(st.forbidden[:5]))
    if not st.vo_ok(prop_rel):
        # find which theorem the first error belongs to
        m = re.search(re.escape(prop_rel) + r'", line (\d+)', st.coq_errors)
        culprit = None
        if m:
            line = int(m.group(1))
            for mm in re.finditer(r"^\s*(?:Theorem|Corollary)\s+(\w+)", open(prop_path).read(), re.M):
                ln = open(prop_path).read()[:mm.start()].count("\n") + 1
                if ln <= line:
                    culprit = mm.group(1)
        res["broken"] = [culprit] if culprit else ["(a dependency of Properties/%s.v: %s)" % (pid, ", ".join(sorted(st.coq_unbuilt))[:300])]
        res["theorems"] = [(n, "unchecked: file does not compile") for n in names]
        res["notes"].append("Properties file does not compile")
        return res
    ldir = os.path.join(BUILD, "ledger")
    os.makedirs(ldir, exist_ok=True)
    body = [f"From Verif Require Import Properties.{pid}."]
    for n in names:
        body.append(f'Goal True. idtac "@@THM {n}". Abort.')
        body.append(f"Print Assumptions {n}.")
    src = os.path.join(ldir, f"Ledger_{pid}.v")
    with open(src, "w") as f:
        f.write("\n".join(body) + "\n")
    rc, out = sh(["timeout", "600", "coqc", "-Q", COQ, "Verif", src], cwd=ldir, timeout=700)
    if rc != 0:
        res["notes"].append("ledger file failed: " + out[-500:])
        res["broken"] = names
        res["theorems"] = [(n, "ledger failed") for n in names]
        return res
    parts = re.split(r"@@THM (\w+)", out)
    for i in range(1, len(parts), 2):
        name, text = parts[i], parts[i + 1]
        if "Closed under the global context" in text:
            res["theorems"].append((name, "closed"))
            res["discharged"] += 1
        else:
            axs = re.findall(r"^(\S+)\s*:", text, re.M)
            bad = [a for a in axs if a not in ALLOWED_AXIOMS]
            res["axioms"].extend(axs)
            if bad:
                res["theorems"].append((name, "depends on: " + ", ".join(bad)))
                res["broken"].append(name)
            else:
                res["theorems"].append((name, "closed modulo allowed stdlib axioms: " + ", ".join(axs)))
                res["discharged"] += 1
    if st.forbidden:
        res["broken"].append("forbidden-constructs")
        res["discharged"] = 0
    return res


# ---------------------------------------------------------------------------------------------
# known findings
# ---------------------------------------------------------------------------------------------

def load_findings(pid):
    known, fixed = [], []
    path = os.path.join(VERIF, "KNOWN_FINDINGS.txt")
    if not os.path.exists(path):
        return known, fixed
    for line in open(path):
        line = line.strip()
        if not line or line.startswith("#"):
            continue
        kind, _, rest = line.partition(":")
        fields = dict(re.findall(r"(\w+)=(\S+)", rest))
        if pid not in fields.get("property", "").split(","):
            continue
        entry = {"fields": fields, "text": rest.strip(), "kind": kind.strip()}
        if kind.strip() == "known":
            known.append(entry)
        elif kind.strip() == "fixed":
            fixed.append(entry)
    return known, fixed


# ---------------------------------------------------------------------------------------------
# check context
# ---------------------------------------------------------------------------------------------

class Ctx:
    def __init__(self, pid, tier, seed):
        self.pid = pid
        self.tier = tier
        self.seed = seed
        self.rng = random.Random(f"{pid}:{seed}")
        self.t0 = time.time()
        self.st = None
        self.evaluations = 0
        self.nontrivial = set()
        self.samples = []
        self.dist = {}
        self.violations = []      # dicts
        self.known_lines = []
        self.assumptions = []
        self.extra = {}
        self.rule = ""
        self.exhaustive = False
        self.ledger = None
        self.trusted_base = []
        self.known, self.fixed = load_findings(pid)

    # ---- counting
    def count(self, key, n=1):
        self.dist[key] = self.dist.get(key, 0) + n

    def note_case(self, canonical, nontrivial):
        self.evaluations += 1
        if nontrivial:
            self.nontrivial.add(hashlib.sha1(repr(canonical).encode()).hexdigest()[:16])

    def sample(self, x, cap=6):
        if len(self.samples) < cap:
            self.samples.append(x)

    # ---- running
    def model(self, fam, requests):
        b = self.st.families.get(fam)
        if not b:
            raise ModelUnavailable(fam)
        return run_model(b, requests)

    def impl(self, requests, **kw):
        if not self.st.harness:
            raise RuntimeError("harness unavailable: " + self.st.harness_error)
        return run_impl(self.st.harness, requests, **kw)

    # ---- verdicts
    def violation(self, kind, detail, found_input=True):
        """kind: short label; detail: JSON-serialisable dict describing the failing input (or the
        broken theorem / correspondence when found_input is False)."""
        key = (kind, found_input)
        self.violations.append({"kind": kind, "found_input": found_input, "detail": detail})

    def known_finding(self, text):
        self.known_lines.append(text)


def finding_listed(ctx, fid):
    """is the finding [fid] listed (as known:) for this property in KNOWN_FINDINGS.txt?"""
    return any(k["fields"].get("id") == fid for k in ctx.known)


class ModelUnavailable(Exception):
    pass


def write_replay(ctx, v):
    os.makedirs(os.path.join(VERIF, "replays"), exist_ok=True)
    body = {"property": ctx.pid, "kind": v["kind"], "found_input": v["found_input"], "tier": ctx.tier,
            "seed": ctx.seed, "detail": v["detail"],
            "replay_cmd": f"python3 run/check.py {ctx.pid} --replay <this file>"}
    h = hashlib.sha1(json.dumps(body, sort_keys=True, default=str).encode()).hexdigest()[:12]
    rel = os.path.join("replays", f"{ctx.pid}-{h}.json")
    with open(os.path.join(VERIF, rel), "w") as f:
        json.dump(body, f, indent=1, default=str)
    return rel


def finish(ctx, level="proof"):
    """Print KNOWN-FINDING / VIOLATION lines, write evidence, return exit code."""
    for line in ctx.known_lines:
        print(f"KNOWN-FINDING: property={ctx.pid} {line}")
    # de-duplicate violations by kind; report real inputs first
    seen = set()
    reported = []
    for v in sorted(ctx.violations, key=lambda v: not v["found_input"]):
        if v["kind"] in seen:
            continue
        seen.add(v["kind"])
        reported.append(v)
    have_input = any(v["found_input"] for v in reported)
    out_lines = []
    for v in reported:
        if not v["found_input"] and have_input:
            # the broken theorem/correspondence is explained by a concrete failing input already reported
            continue
        rel = write_replay(ctx, v)
        suffix = "" if v["found_input"] else " no-failing-input-found"
        out_lines.append(f"VIOLATION property={ctx.pid} replay={rel}{suffix}")
    for l in out_lines[:5]:
        print(l)
    led = ctx.ledger or {"obligations": 0, "discharged": 0, "theorems": [], "broken": []}
    cov = {
        "obligations": led["obligations"],
        "discharged": led["discharged"],
        "checker_cmd": "make -C coq -f Makefile.coq (coqc 8.16.1, full .vo build) + coqc build/ledger/Ledger_%s.v "
                       "(Print Assumptions per theorem)%s" % (ctx.pid, "; coqchk -silent -o in the thorough tier" if ctx.tier == "thorough" else ""),
        "trusted_base": ctx.trusted_base,
        "theorems": [{"name": n, "status": s} for n, s in led["theorems"]],
        "broken": led["broken"],
        "evaluations": ctx.evaluations,
        "distinct_nontrivial": len(ctx.nontrivial),
        "rule": ctx.rule,
        "samples": ctx.samples,
        "distribution": ctx.dist,
        "exhaustive": ctx.exhaustive,
        "known_findings_replayed": ctx.known_lines,
        "violations_reported": out_lines,
    }
    cov.update(ctx.extra)
    ev = {
        "property_id": ctx.pid,
        "tier": ctx.tier,
        "seed": ctx.seed,
        "level": level,
        "coverage": cov,
        "assumptions": ctx.assumptions,
        "wall_s": round(time.time() - ctx.t0, 2),
        "violations": len(out_lines),
    }
    os.makedirs(os.path.join(VERIF, "evidence"), exist_ok=True)
    with open(os.path.join(VERIF, "evidence", f"{ctx.pid}.json"), "w") as f:
        json.dump(ev, f, indent=1, default=str)
    return 1 if out_lines else 0


def run_coqchk(ctx):
    """thorough tier: re-check Properties/<ID>.vo and everything it depends on with the independent checker
    and read the axioms it lists"""
    rc, out = sh(["timeout", "3000", "coqchk", "-silent", "-o", "-Q", ".", "Verif", f"Verif.Properties.{ctx.pid}"], cwd=COQ, timeout=3100)
    m = re.search(r"\* Axioms:(.*?)\n\s*\n\s*\*", out, re.S)
    axioms = m.group(1).strip() if m else "?"
    ctx.extra["coqchk"] = {"exit": rc, "axioms": axioms, "tail": out[-400:]}
    if rc != 0 or axioms != "<none>":
        ctx.violation("coqchk", {"what": "coqchk does not accept Properties/%s.vo or lists axioms" % ctx.pid, "axioms": axioms,
                                 "output": out[-1500:]}, found_input=False)


def standard_ledger(ctx):
    """Run the ledger and turn broken obligations into (input-less) violations."""
    led = ledger(ctx.pid, ctx.st)
    ctx.ledger = led
    if led["obligations"] == 0 or led["discharged"] < led["obligations"] or led["broken"]:
        ctx.violation("proof-obligations", {
            "broken_theorems": led["broken"], "theorems": led["theorems"], "notes": led["notes"],
            "coq_errors": ctx.st.coq_errors[-3000:], "translator": ctx.st.gen}, found_input=False)
    return led


COMMON_TRUSTED = [
    "Coq 8.16.1 kernel (coqc; coqchk in the thorough tier); vm_compute used for finite/computational lemmas; no native_compute",
    "axioms: none (Print Assumptions of every property theorem must say 'Closed under the global context')",
    "run/gen_coq.py translator (regular expressions over the source files named in the generated headers)",
    "Coq extraction with ExtrOcamlBasic only (no Extract Constant / Extract Inductive beyond ExtrOcamlBasic's bool, option, unit, list, prod, sumbool), ocamlfind ocamlopt 4.13.1, ocaml/driver.ml",
    "Go harness (harness/*.go, built with -tags verif against /repo's working tree) and the Python orchestrator/generators: differential testing, bounded by the generators",
]

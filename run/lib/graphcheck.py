"""Shared run of the weighted-graph checks (C04, C05, C06, C10, C11): every model goes through the
implementation (hooked build, explicit depth-first start orders, the unhooked Build several times) and
through the extracted model with the same orders."""
import json
import os

from . import core, sexp, dslgen, graphgen as gg, graphspec as gs
from .dslgen import S, T

FAM = "graph"


def run_graph(ctx, models, n_orders=3, repeat=3, label="models", order_repeat=1):
    try:
        mu = ctx.model(FAM, ["(500 %s)" % sexp.enc(m) for m in models])
    except core.ModelUnavailable:
        ctx.violation("model-unavailable", {"coq_errors": ctx.st.coq_errors[-2000:]}, found_input=False)
        mu = [None] * len(models)
    orders = []
    for m, r in zip(models, mu):
        if r is not None and r[0] == 0:
            ids = [T(n[0]) for n in r[1][0]]
            os_ = [ids, list(reversed(ids))]
            for _ in range(max(0, n_orders - 2)):
                p = ids[:]
                ctx.rng.shuffle(p)
                os_.append(p)
            orders.append(os_ * order_repeat)
        else:
            orders.append([])
    impl = ctx.impl([{"op": "wgraph", "m": m, "orders": [[S(x) for x in o] for o in os_], "repeat": repeat}
                     for m, os_ in zip(models, orders)])
    mreq, midx = [], []
    for k, (m, os_) in enumerate(zip(models, orders)):
        for j, o in enumerate(os_):
            mreq.append("(501 (%s) %s)" % (sexp.enc([S(x) for x in o]), sexp.enc(m)))
            midx.append((k, j))
    mres = {}
    if mu and mu[0] is not None or any(x is not None for x in mu):
        try:
            for key, r in zip(midx, ctx.model(FAM, mreq)):
                mres[key] = gg.norm_model_g(r)
        except core.ModelUnavailable:
            pass
    out = []
    for k, (m, os_, i) in enumerate(zip(models, orders, impl)):
        if "r" not in i:
            ctx.violation("entry-point-abnormal", {"op": "wgraph", "model": m, "impl": {x: i.get(x) for x in ("panic", "timeout", "bad")}})
            out.append(None)
            continue
        x = i["r"]
        un_i = gg.norm_impl_g(x["unweighted"])
        un_m = gg.norm_model_g(mu[k]) if mu[k] is not None else None
        ctx.count(f"{label}_unweighted_{un_i[0]}")
        if un_m is not None and not gg.same_result(un_i, un_m):
            ctx.violation("correspondence-builder", {"model": m, "impl": str(un_i)[:1500], "model_result": str(un_m)[:1500],
                                                     "what": "Model/WGraph.wbuild and the implementation disagree"}, found_input=False)
        ordered = []
        for j, o in enumerate(os_):
            if j >= len(x["ordered"]):
                break
            a = gg.norm_impl_g(x["ordered"][j])
            b = mres.get((k, j))
            ctx.count(f"{label}_order_{'ok' if a[0] == 'ok' else 'err%d' % a[1]}")
            if b is not None and not gg.same_result(a, b):
                ctx.violation("correspondence-weights", {"model": m, "order": o, "impl": str(a)[:1500], "model_result": str(b)[:1500],
                                                         "what": "Model/WWeights.assign_weights and the implementation disagree"}, found_input=False)
            ordered.append((o, a, b))
        builds = [gg.norm_impl_g(b) for b in x["builds"]]
        out.append({"m": m, "unweighted": un_i, "unweighted_model": un_m, "ordered": ordered, "builds": builds,
                    "unchanged": x["model_unchanged"]})
    return out


def coq_spec_check(ctx, results, report=True, what="weights"):
    """The theorem of Proofs/DagWeights.v says: if dag_check holds for the model's graph and weight assignment
    succeeds, every relation node carries Spec/GraphWeights.spec_weights — for every start order.  Here the
    extracted specification is evaluated (op 502) and compared with what the IMPLEMENTATION stored, per order:
    the theorem's conclusion observed on the real code, and its hypothesis measured (how many generated models
    are inside the theorem's domain)."""
    rs = [r for r in results if r is not None]
    try:
        specs = ctx.model(FAM, ["(502 %s)" % sexp.enc(r["m"]) for r in rs])
    except core.ModelUnavailable:
        return
    for r, sp in zip(rs, specs):
        if sp is None or not sp or sp[0] != 1:
            ctx.count("theorem_dag_not_applicable")
            continue
        ctx.count("theorem_dag_applicable")
        if what == "verdict":
            if len(sp) < 4 or sp[2] != 1:
                ctx.count("theorem_dag_fuel_check_fails")
                continue
            for (o, a, b) in r["ordered"]:
                if b is not None and (b[0] == "ok") != (sp[3] == 1):
                    raise RuntimeError("the extracted model contradicts the theorem dag_accepts_iff on %r" % (r["m"],))
                ctx.count("theorem_dag_verdicts_compared")
                if (a[0] == "ok") != (sp[3] == 1) and report:
                    ctx.violation("verdict-differs-from-proved-spec",
                                  {"model": r["m"], "order": o, "impl": a[0] if a[0] == "ok" else a, "spec_accepts": sp[3] == 1,
                                   "why": "on a model without cycles the implementation's verdict differs from Spec/GraphWeights.accepts, "
                                          "which Model/WWeights.assign_weights is proved to follow for every start order"})
                    break
            continue
        if what == "weights":
            want = {T(x[0]): dict((T(k), v) for k, v in x[1]) for x in sp[1]}
            read = lambda g, nid: dict(g["nodes"].get(nid, {}).get("weights", []))
        else:
            want = {T(x[0]): sorted(set(T(t) for t in x[2])) for x in sp[1]}
            read = lambda g, nid: sorted(set(g["nodes"].get(nid, {}).get("wild", [])))
        for (o, a, b) in r["ordered"]:
            if b is not None and b[0] == "ok":
                for nid, w in want.items():
                    got = read(b[1], nid)
                    if got != w:
                        raise RuntimeError("the extracted model contradicts the theorem dag_weights on %r node %s: %r vs %r"
                                           % (r["m"], nid, got, w))
            if a[0] != "ok":
                ctx.count("theorem_dag_impl_rejects")
                continue
            ctx.count("theorem_dag_orders_compared")
            for nid, w in want.items():
                got = read(a[1], nid)
                if got != w and report:
                    ctx.violation(what + "-differ-from-proved-spec",
                                  {"model": r["m"], "order": o, "node": nid, "impl": got, "spec": w,
                                   "why": "on a model without cycles the implementation stores " + what + " other than Spec/GraphWeights."
                                          + ("spec_weights" if what == "weights" else "spec_wildcards (= the reachable public types)")
                                          + ", which Model/WWeights.assign_weights is proved to compute for every start order"})
                    break


def model_spec_check(ctx, results):
    """C06_operand_order_on_the_model is a theorem about the property's own definition of weights on the MODEL
    (Spec/Weights.spec_of).  Here that definition is evaluated by the extracted specification (op 504) on every generated
    model whose graph has no cycle and compared with the weights the IMPLEMENTATION stored on the relation nodes — wherever
    every operand of an intersection/exclusion is one edge (outside known finding K-C04-operands the two notions of operand
    coincide) — and with the independent Python oracle."""
    from lib import graphspec as gs
    rs = [r for r in results if r is not None and not gs.degenerate(r["m"])]
    try:
        specs = ctx.model(FAM, ["(504 %s)" % sexp.enc(r["m"]) for r in rs])
    except core.ModelUnavailable:
        return
    for r, sp in zip(rs, specs):
        if sp is None or not sp or sp[0] != 1:
            ctx.count("model_spec_not_applicable")
            continue
        if not gs.simple_operands(r["m"]):
            ctx.count("model_spec_multi_edge_operands")
            continue
        want = {T(x[0]): dict((T(k), v) for k, v in x[1]) for t in sp[1] for x in t}
        py = gs.spec_weights(r["m"]) if gs.builder_valid(r["m"]) else None
        if py is not None and gs.well_founded(r["m"]):
            for (t, rel), w in py.items():
                if want.get(t + "#" + rel) != w:
                    raise RuntimeError("specification drift between Spec/Weights.spec_of and run/lib/graphspec.spec_weights on %r: %s#%s %r vs %r"
                                       % (r["m"], t, rel, want.get(t + "#" + rel), w))
        ctx.count("model_spec_applicable")
        for (o, a, b) in r["ordered"]:
            if a[0] != "ok":
                continue
            ctx.count("model_spec_orders_compared")
            for nid, w in want.items():
                got = dict(a[1]["nodes"].get(nid, {}).get("weights", []))
                if got != w:
                    ctx.violation("weights-differ-from-model-level-spec",
                                  {"model": r["m"], "order": o, "node": nid, "impl": got, "spec": w,
                                   "why": "on a model without cycles whose operands are single edges the implementation stores weights other than "
                                          "Spec/Weights.spec_of, the property's definition on the model"})
                    break
            else:
                continue
            break


def describe(m):
    """a model as DSL-like text when printable, for replays and samples"""
    return m


def replay_known(ctx, pid_filter=None):
    """replay every listed finding of this property that has a graph witness"""
    for k in ctx.known:
        fid = k["fields"].get("id")
        p = os.path.join(core.VERIF, "findings", fid + ".json")
        if not os.path.exists(p):
            continue
        w = json.load(open(p))
        if w.get("kind") != "graph":
            continue
        res = run_graph(ctx, [w["model"]], n_orders=2, repeat=int(w.get("repeat", 1)), label="known")
        r = res[0]
        if r is None:
            continue
        still = False
        if w["expect"] == "accepted-not-well-founded":
            still = any(a[0] == "ok" for (_, a, _) in r["ordered"]) and not gs.well_founded(w["model"])
        elif w["expect"] == "weights-differ-from-spec":
            W = gs.spec_weights(w["model"])
            for (_, a, _) in r["ordered"]:
                if a[0] == "ok":
                    for (t, rel), want in W.items():
                        if dict(a[1]["nodes"].get(t + "#" + rel, {}).get("weights", [])) != want:
                            still = True
                else:
                    still = still or gs.well_founded(w["model"])
        if still:
            ctx.known_finding(f"id={fid} {w['what']}")
        else:
            ctx.count("known_finding_no_longer_reproduces")

"""Shared steps of the merge checks (C07, C12, C16)."""
import json

from . import core, sexp, dslgen, modgen
from .dslgen import S, T

FAM = "merge"


def wire_files(rendered):
    return [[S(n), S(t)] for (n, t) in rendered]


def impl_merge(ctx, sets, schema="1.2", repeat=1):
    return ctx.impl([{"op": "merge", "files": wire_files(r), "schema": S(schema), "repeat": repeat} for r in sets])


def model_merge(ctx, sets, schema="1.2"):
    return ctx.model(FAM, ["(400 %s %s)" % (sexp.enc(wire_files(r)), sexp.enc(schema)) for r in sets])


def collapse(errs):
    """the number of syntax errors ANTLR reports for one file is external: consecutive syntax entries of one file are one"""
    out = []
    for e in errs:
        if e[0] == "syntax" and out and out[-1] == e:
            continue
        out.append(e)
    return out


def norm_impl_run(x):
    if x["ok"]:
        return ("ok", dslgen.canon_model(x["model"]), x["modules"])
    es = []
    for e in x["errs"]:
        if e[0] == 1:
            es.append(("conflict", T(e[1]), T(e[2]), e[3], e[4], e[5], e[6]))
        elif e[0] == 0:
            es.append(("syntax", T(e[2]) if len(e) > 2 else ""))
        else:
            es.append(("other", T(e[1])))
    return ("err", collapse(es), bool(x.get("has_model")))


def norm_model(r, names=None):
    """names: the file names of the list, so that a syntax entry (file index) can be compared by name"""
    if r[0] == 0:
        mods = [[t[0], sorted(t[1])] for t in r[2]]
        return ("ok", dslgen.canon_model(r[1]), mods)
    if r[0] == 1:
        es = []
        for e in r[1]:
            if e[0] == 0:
                es.append(("syntax", names[e[1]] if names is not None and len(e) > 1 and e[1] < len(names) else ""))
            else:
                es.append(("conflict", T(e[1]), T(e[2]), e[3], e[4], e[5], e[6]))
        return ("err", collapse(es), False)
    return ("panic", T(r[1]))


def run_sets(ctx, sets, label, repeat=1):
    """returns list of (impl runs normalised [list], model normalised or None)"""
    raw = impl_merge(ctx, sets, repeat=repeat)
    try:
        mr = [norm_model(r, [n for n, _ in rendered]) for r, rendered in zip(model_merge(ctx, sets), sets)]
    except core.ModelUnavailable:
        ctx.violation("model-unavailable", {"coq_errors": ctx.st.coq_errors[-2000:]}, found_input=False)
        mr = [None] * len(sets)
    out = []
    for rendered, r, m in zip(sets, raw, mr):
        if "r" not in r:
            ctx.violation("entry-point-abnormal", {"op": "merge", "files": [{"name": n, "contents": t} for n, t in rendered],
                                                   "impl": {k: r.get(k) for k in ("panic", "timeout", "bad")}})
            out.append((None, m))
            continue
        runs = [norm_impl_run(x) for x in r["r"]["runs"]]
        ctx.count(f"{label}_{runs[0][0]}")
        if m is not None:
            a = runs[0]
            same = (a[0] == m[0]) and (a[1] == m[1]) and (a[0] != "ok" or sorted_mods(a[2]) == sorted_mods(m[2]))
            if not same:
                ctx.violation("correspondence-merge", {"op": "merge", "files": [{"name": n, "contents": t} for n, t in rendered],
                                                       "impl": a[:2], "model": m[:2],
                                                       "what": "Model/Merge.merge and the implementation disagree"},
                              found_input=False)
        out.append((runs, m, r["r"]["files_unchanged"]))
    return out


def coq_spec_check(ctx, sets, results):
    """Theorem C07_succeeds_iff_conflict_free_decidable: for module sets as the parser delivers them
    (wf_modulesb), merge succeeds iff conflict_freeb.  Both booleans are evaluated by the extracted
    specification (op 401) and the second is compared with the IMPLEMENTATION's verdict."""
    try:
        specs = ctx.model(FAM, ["(401 %s)" % sexp.enc(wire_files(r)) for r in sets])
    except core.ModelUnavailable:
        return
    for rendered, res, sp in zip(sets, results, specs):
        if sp is None or res is None or res[0] is None:
            continue
        if sp[0] != 1:
            ctx.count("theorem_merge_outside_domain")
            continue
        ctx.count("theorem_merge_in_domain")
        runs, m = res[0], res[1]
        if m is not None and (m[0] == "ok") != (sp[1] == 1):
            raise RuntimeError("the extracted model contradicts the theorem merge_ok_iff on %r" % (rendered,))
        ctx.count("theorem_merge_conflict_free" if sp[1] == 1 else "theorem_merge_conflicting")
        for a in runs:
            if (a[0] == "ok") != (sp[1] == 1):
                ctx.violation("verdict-differs-from-proved-spec",
                              {"op": "merge", "files": [{"name": n, "contents": t} for n, t in rendered],
                               "impl": a[:2], "spec_conflict_free": sp[1] == 1,
                               "why": "the implementation's verdict differs from Spec/MergeSpec.conflict_free, which Model/Merge.merge "
                                      "is proved to follow on every well-formed list of module files"})
                break


def sorted_mods(mods):
    return [[t[0], sorted(t[1])] for t in mods]

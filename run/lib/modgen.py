"""Module-file sets for the merge properties (C07, C12, C16): generator with injected conflicts, a
line-tracking renderer, and the specification (conflict-freedom, expected union, expected positions)
written independently of the Go code."""
from . import dslgen
from .dslgen import S, T

TYPE_POOL = ["user", "group", "doc", "folder", "org", "team", "project", "repo", "wiki", "page", "doc_x", "user2"]
REL_POOL = ["member", "viewer", "editor", "owner", "parent", "admin", "viewer_x", "e", "fin", "view", "can_view"]
COND_POOL = ["cond", "cond_x", "in_window", "is_valid", "c1", "Zone_check", "In_window"]
# the grammar lets a module be named by some of its own words too (identifier: IDENTIFIER | MODEL | SCHEMA | TYPE | RELATION | MODULE | EXTEND)
MODULES = ["core", "wiki", "issues", "m1", "m2", "type", "module", "relation", "extend"]


def simple_expr(rng, rels, types, conds):
    return dslgen.gen_expr(rng, rng.choice([0, 0, 1, 2]), rels or ["member"], dslgen.Names(rng, 0.0), True, types, conds)


def gen_set(rng, conflict=None):
    """returns list of files: {"name", "module", "decls": [...], "broken": None|"syntax"|"model-header"}
    decl = ("type", name, rels) | ("extend", name, rels) | ("cond", conddict)"""
    nfiles = rng.choice([1, 2, 2, 3, 3, 4, 5])
    names = rng.sample(TYPE_POOL, k=min(len(TYPE_POOL), rng.randint(nfiles, nfiles + 4)))
    conds = rng.sample(COND_POOL, k=rng.choice([0, 1, 2, 3]))
    files = []
    for i in range(nfiles):
        files.append({"name": f"f{i}.fga" if rng.random() < 0.7 else rng.choice([f"dir{i}/m.fga", f"dir{i}\\m.fga", f"Dir {i}/M{i}.fga", f"./f{i}.fga"]), "module": rng.choice(MODULES) if rng.random() < 0.5 else MODULES[i % len(MODULES)],
                      "decls": [], "broken": None})
    # base types
    base = {}
    for n in names:
        f = rng.choice(files)
        nrel = rng.choice([0, 0, 1, 2, 3])
        rnames = rng.sample(REL_POOL, k=nrel)
        rels = [(r, simple_expr(rng, rnames, names, conds)) for r in rnames]
        f["decls"].append(("type", n, rels))
        base[n] = set(rnames)
    # extensions (conflict-free by construction)
    for f in files:
        targets = rng.sample(names, k=min(len(names), rng.choice([0, 0, 1, 1, 2, 3])))
        for t in targets:
            free = [r for r in REL_POOL if r not in base[t]]
            rnames = rng.sample(free, k=min(len(free), rng.choice([1, 1, 2])))
            if not rnames and rng.random() < 0.7:
                continue
            rels = [(r, simple_expr(rng, rnames, names, conds)) for r in rnames]
            f["decls"].append(("extend", t, rels))
            base[t] |= set(rnames)
    # conditions
    for c in conds:
        rng.choice(files)["decls"].append(("cond", dslgen.gen_condition(rng, c)))
    for f in files:
        # declarations: types and extends first (grammar: typeDefs then conditions), shuffled among themselves
        tds = [d for d in f["decls"] if d[0] != "cond"]
        rng.shuffle(tds)
        f["decls"] = tds + [d for d in f["decls"] if d[0] == "cond"]
    inj = None
    if conflict:
        inj = inject(rng, files, names, conds, conflict)
    return files, inj


CONFLICTS = ["duplicate-type", "duplicate-type-same-file", "duplicate-condition", "extend-missing",
             "duplicate-relation-base", "duplicate-relation-two-extensions", "model-header", "model-header-with-condition",
             "syntax-error", "extended-twice-in-file", "define-and-extend-same-file-ok", "two-extend-relationless-ok",
             "blank-file", "case-twin-relations", "case-twin-conditions", "same-name-files-ok", "duplicate-relation-in-extension"]


def inject(rng, files, names, conds, kind):
    """mutates files; returns a description {"kind", "conflict": bool, ...} or None if no site"""
    def types_of(f):
        return [d for d in f["decls"] if d[0] == "type"]
    def insert_type_decl(f, d):
        k = sum(1 for x in f["decls"] if x[0] != "cond")
        f["decls"].insert(rng.randint(0, k), d)
    if kind in ("duplicate-type", "duplicate-type-same-file"):
        cands = [(f, d) for f in files for d in types_of(f)]
        if not cands:
            return None
        f, d = rng.choice(cands)
        g = f if kind.endswith("same-file") else rng.choice(files)
        rels = [(r, simple_expr(rng, [r], names, [])) for r in rng.sample(REL_POOL, k=rng.choice([0, 1]))]
        insert_type_decl(g, ("type", d[1], rels))
        return {"kind": kind, "conflict": True, "type": d[1]}
    if kind == "duplicate-condition":
        cands = [(f, d) for f in files for d in f["decls"] if d[0] == "cond"]
        if not cands:
            c = dslgen.gen_condition(rng, "cond")
            files[0]["decls"].append(("cond", c))
            cands = [(files[0], ("cond", c))]
        f, d = rng.choice(cands)
        g = rng.choice(files)
        if len(files) > 1 and rng.random() < 0.5:
            # the second declaration in ANOTHER file of the SAME module (a module may be spread over several files)
            g = rng.choice([x for x in files if x is not f])
            g["module"] = f["module"]
        g["decls"].append(("cond", dslgen.gen_condition(rng, d[1]["name"])))
        return {"kind": kind, "conflict": True, "condition": d[1]["name"]}
    if kind == "extend-missing":
        f = rng.choice(files)
        insert_type_decl(f, ("extend", rng.choice(["ghost", "nobody", "user_x"]), [("member", simple_expr(rng, ["member"], names, []))]))
        return {"kind": kind, "conflict": True}
    if kind == "duplicate-relation-base":
        cands = [(f, d) for f in files for d in types_of(f) if d[2]]
        if not cands:
            return None
        f, d = rng.choice(cands)
        g = rng.choice(files)
        r = rng.choice(d[2])[0]
        # remove an existing extension of that type in g (same type twice in a file is another conflict)
        g["decls"] = [x for x in g["decls"] if not (x[0] == "extend" and x[1] == d[1])]
        insert_type_decl(g, ("extend", d[1], [(r, simple_expr(rng, [r], names, []))]))
        return {"kind": kind, "conflict": True, "type": d[1], "relation": r}
    if kind == "duplicate-relation-two-extensions":
        if len(files) < 2:
            return None
        cands = [d for f in files for d in types_of(f)]
        if not cands:
            return None
        d = rng.choice(cands)
        used = {d2[0] for d2 in d[2]} | {r for f in files for x in f["decls"] if x[0] == "extend" and x[1] == d[1] for r, _ in x[2]}
        free = [r for r in REL_POOL if r not in used]
        if not free:
            return None
        r = rng.choice(free)
        f1, f2 = rng.sample(files, 2)
        for g in (f1, f2):
            ext = next((x for x in g["decls"] if x[0] == "extend" and x[1] == d[1]), None)
            if ext:
                ext[2].append((r, simple_expr(rng, [r], names, [])))
            else:
                insert_type_decl(g, ("extend", d[1], [(r, simple_expr(rng, [r], names, []))]))
        return {"kind": kind, "conflict": True, "type": d[1], "relation": r}
    if kind in ("model-header", "model-header-with-condition"):
        f = rng.choice(files)
        f["broken"] = "model-header"
        f["decls"] = [d for d in f["decls"] if d[0] != "extend"]
        if kind.endswith("condition") and not any(d[0] == "cond" for d in f["decls"]):
            f["decls"].append(("cond", dslgen.gen_condition(rng, "hdr_cond")))
        if not f["decls"]:
            f["decls"] = [("type", "lonely", [("member", simple_expr(rng, ["member"], names, []))])]
        return {"kind": kind, "conflict": True}
    if kind == "syntax-error":
        rng.choice(files)["broken"] = "syntax"
        return {"kind": kind, "conflict": True}
    if kind == "blank-file":
        # a file with no content at all (empty, white space only, a comment only) is not a module
        f = {"name": "blank%d.fga" % rng.randrange(100), "module": "none", "decls": [],
             "broken": rng.choice(["blank", "blank", "comment-only"])}
        files.insert(rng.randrange(len(files) + 1), f)
        return {"kind": kind, "conflict": True}
    if kind == "case-twin-relations":
        # a type with two relations whose names differ only in case, both re-declared by an extension in another file:
        # two errors whose order must not depend on anything but the files
        if len(files) < 2:
            return None
        cands = [(f, d) for f in files for d in types_of(f)]
        if not cands:
            return None
        f, d = rng.choice(cands)
        twins = rng.choice([("viewer", "Viewer"), ("Editor", "editor"), ("admin", "ADMIN")])
        have = {r for r, _ in d[2]}
        for r in twins:
            if r not in have:
                d[2].append((r, simple_expr(rng, [r], names, [])))
        g = rng.choice([x for x in files if x is not f])
        g["decls"] = [x for x in g["decls"] if not (x[0] == "extend" and x[1] == d[1])]
        order = list(twins)
        rng.shuffle(order)
        insert_type_decl(g, ("extend", d[1], [(r, simple_expr(rng, [r], names, [])) for r in order]))
        return {"kind": kind, "conflict": True, "type": d[1], "relations": list(twins)}
    if kind == "case-twin-conditions":
        # (or one name a prefix of the other, the longer one declared first: a look-up of the declaration line by prefix ties on them)
        twins = rng.choice([("check", "Check"), ("In_window", "in_window"), ("viewable_at", "viewable"), ("cond_x", "cond")])
        if len(files) >= 2 and rng.random() < 0.7:
            # both first declarations in earlier files, both repetitions in the LAST file: two errors for one file, whose order
            # must be the same on every invocation
            g = files[-1]
            for f in files:
                f["decls"] = [d for d in f["decls"] if not (d[0] == "cond" and d[1]["name"] in twins)]
            for c in twins:
                rng.choice(files[:-1])["decls"].append(("cond", dslgen.gen_condition(rng, c)))
        else:
            for c in twins:
                if not any(d[0] == "cond" and d[1]["name"] == c for f in files for d in f["decls"]):
                    rng.choice(files)["decls"].append(("cond", dslgen.gen_condition(rng, c)))
            g = rng.choice(files)
        order = list(twins)
        rng.shuffle(order)
        if twins[0].startswith(twins[1]) and rng.random() < 0.6:
            order = list(twins)          # the longer name first
        for c in order:
            g["decls"].append(("cond", dslgen.gen_condition(rng, c)))
        return {"kind": kind, "conflict": True, "conditions": list(twins)}
    if kind == "same-name-files-ok":
        # two entries of the list carry the same file name, and each extends a type: nothing conflicts
        if len(files) < 2:
            return None
        f0 = rng.choice(files)
        insert_type_decl(f0, ("type", "shared", []))
        f1, f2 = rng.sample(files, 2)
        f2["name"] = f1["name"]
        insert_type_decl(f1, ("extend", "shared", [("viewer", simple_expr(rng, ["viewer"], names, []))]))
        insert_type_decl(f2, ("extend", "shared", [("editor", simple_expr(rng, ["editor"], names, []))]))
        return {"kind": kind, "conflict": False}
    if kind == "duplicate-relation-in-extension":
        # one 'extend type' block declares the same NEW relation twice: the second declaration must not silently replace the first
        cands = [(f, d) for f in files for d in f["decls"] if d[0] == "extend" and d[2]]
        if not cands:
            tys = [d for f in files for d in types_of(f)]
            if not tys:
                return None
            d0 = rng.choice(tys)
            used = {r for r, _ in d0[2]} | {r for g in files for x in g["decls"] if x[0] == "extend" and x[1] == d0[1] for r, _ in x[2]}
            free = [r for r in REL_POOL if r not in used]
            if not free:
                return None
            g = rng.choice(files)
            g["decls"] = [x for x in g["decls"] if not (x[0] == "extend" and x[1] == d0[1])]
            d = ("extend", d0[1], [(free[0], simple_expr(rng, [free[0]], names, []))])
            insert_type_decl(g, d)
            f = g
        else:
            f, d = rng.choice(cands)
        r = rng.choice(d[2])[0]
        d[2].insert(rng.randrange(len(d[2]) + 1), (r, simple_expr(rng, [r], names, [])))
        return {"kind": kind, "conflict": True, "type": d[1], "relation": r}
    if kind == "extended-twice-in-file":
        cands = [(f, d) for f in files for d in f["decls"] if d[0] == "extend"]
        if not cands:
            return None
        f, d = rng.choice(cands)
        insert_type_decl(f, ("extend", d[1], [("extra_rel", simple_expr(rng, ["extra_rel"], names, []))]))
        return {"kind": kind, "conflict": True}
    if kind == "define-and-extend-same-file-ok":
        cands = [(f, d) for f in files for d in types_of(f)]
        if not cands:
            return None
        f, d = rng.choice(cands)
        if any(x[0] == "extend" and x[1] == d[1] for x in f["decls"]):
            return {"kind": kind, "conflict": False}
        used = {d2[0] for d2 in d[2]} | {r for g in files for x in g["decls"] if x[0] == "extend" and x[1] == d[1] for r, _ in x[2]}
        free = [r for r in REL_POOL if r not in used]
        if not free:
            return None
        insert_type_decl(f, ("extend", d[1], [(free[0], simple_expr(rng, [free[0]], names, []))]))
        return {"kind": kind, "conflict": False}
    if kind == "two-extend-relationless-ok":
        if len(files) < 2:
            return None
        f0 = rng.choice(files)
        insert_type_decl(f0, ("type", "bare", []))
        f1, f2 = rng.sample(files, 2)
        insert_type_decl(f1, ("extend", "bare", [("viewer", simple_expr(rng, ["viewer"], names, []))]))
        insert_type_decl(f2, ("extend", "bare", [("editor", simple_expr(rng, ["editor"], names, []))]))
        return {"kind": kind, "conflict": False}
    raise ValueError(kind)


# ---------------------------------------------------------------------------------------------
# rendering with positions
# ---------------------------------------------------------------------------------------------

def render(rng, f, wild=0.0):
    """-> (text, positions) ; positions: list of (kind, type-or-None, name, line, col) for every declaration name"""
    if f["broken"] == "blank":
        return rng.choice(["", "\n", "  \n\n", "\t\n", " ", "\n\n\n"]), []
    if f["broken"] == "comment-only":
        return rng.choice(["# nothing here\n", "# a\n# b", "\n# module x\n"]), []
    L = dslgen.Layout(rng, wild=wild, crlf=False, comments=0.0)
    lines = []
    pos = []
    if rng.random() < 0.3:
        lines.append("# " + rng.choice(["module file", "type user", "define viewer: [user]"]))
    if f["broken"] == "model-header":
        lines.append("model")
        lines.append("  schema 1.1")
    else:
        lines.append("module " + f["module"])
    for d in f["decls"]:
        if d[0] in ("type", "extend"):
            if rng.random() < 0.5:
                lines.append("")
            if rng.random() < 0.15:
                lines.append("# about " + d[1])
            head = ("extend type " if d[0] == "extend" else "type ") + d[1]
            indent = rng.choice(["", "", " "]) if wild else ""
            # a trailing comment (the pre-pass cuts it) - also one that repeats the declaration: positions are those of the code
            tail = rng.choice(["", "", " # see below", "  # " + head, " # " + d[1]]) if wild else ""
            lines.append(indent + head + tail)
            pos.append((d[0], None, d[1], len(lines) - 1, len(indent) + len(head) - len(d[1])))
            if d[2]:
                lines.append("  relations")
                for r, e in d[2]:
                    indent = rng.choice(["    ", "    ", "\t", "      "]) if wild else "    "
                    tail = rng.choice(["", "", "", " # " + r, "  # define " + r + ": [user]"]) if wild else ""
                    lines.append(indent + "define " + r + ": " + dslgen.render_expr(e, L) + tail)
                    pos.append(("relation", d[1], r, len(lines) - 1, len(indent) + 7, d[0]))
        else:
            c = d[1]
            lines.append("")
            ps = ", ".join(p + ": " + (f"{cont}<{ty}>" if cont else ty) for (p, cont, ty) in c["params"])
            indent = rng.choice(["", "", " ", "\t", "  "]) if wild else ""
            lines.append(indent + "condition " + c["name"] + "(" + ps + ") {")
            pos.append(("cond", None, c["name"], len(lines) - 1, len(indent) + 10))
            lines.append("  " + c["expr"])
            lines.append("}")
    if f["broken"] == "syntax":
        first_cond = next((i for i, l in enumerate(lines) if l.strip().startswith("condition ")), len(lines))
        k = rng.randrange(first_cond + 1)      # never inside a condition body, where anything is expression text
        lines.insert(k, rng.choice(["type", "define x [user]", "type a b", "}", "extend x"]))
        pos = [p if p[3] < k else p[:3] + (p[3] + 1,) + p[4:] for p in pos]
    text = "\n".join(lines) + ("\n" if rng.random() < 0.8 else "")
    if wild and rng.random() < 0.25:
        text = text.replace("\n", "\r\n")      # Windows line ends: the line index of a declaration stays what it is
    return text, pos


# ---------------------------------------------------------------------------------------------
# specification
# ---------------------------------------------------------------------------------------------

def spec(files):
    """-> {"conflict_free": bool, "reasons": [...], "model": wire model or None}"""
    reasons = []
    for f in files:
        if f["broken"]:
            reasons.append(("not-a-module", f["name"]))
        exts = [d[1] for d in f["decls"] if d[0] == "extend"]
        if len(set(exts)) != len(exts):
            reasons.append(("extended-twice-in-file", f["name"]))
        for d in f["decls"]:
            if d[0] != "cond":
                rn = [r for r, _ in d[2]]
                if len(set(rn)) != len(rn):
                    reasons.append(("duplicate-relation-in-declaration", f["name"]))
    seen = {}
    for f in files:
        if f["broken"]:
            continue
        for d in f["decls"]:
            if d[0] == "type":
                if d[1] in seen:
                    reasons.append(("duplicate-type", d[1], f["name"]))
                else:
                    seen[d[1]] = f
    cseen = {}
    for f in files:
        if f["broken"]:
            continue
        for d in f["decls"]:
            if d[0] == "cond":
                if d[1]["name"] in cseen:
                    reasons.append(("duplicate-condition", d[1]["name"], f["name"]))
                else:
                    cseen[d[1]["name"]] = f
    rels = {}
    for f in files:
        if f["broken"]:
            continue
        for d in f["decls"]:
            if d[0] == "type" and seen.get(d[1]) is f:
                rels.setdefault(d[1], [])
                for r, _ in d[2]:
                    rels[d[1]].append(r)
    for f in files:
        if f["broken"]:
            continue
        for d in f["decls"]:
            if d[0] == "extend":
                if d[1] not in seen:
                    reasons.append(("extend-missing", d[1], f["name"]))
                    continue
                for r, _ in d[2]:
                    if r in rels[d[1]]:
                        reasons.append(("duplicate-relation", d[1], r, f["name"]))
                    rels[d[1]].append(r)
    if reasons:
        return {"conflict_free": False, "reasons": reasons, "model": None}
    return {"conflict_free": True, "reasons": [], "model": None}


def expected_union(files, schema):
    """the exact attributed union (call only when conflict-free)"""
    types = []
    index = {}
    for f in files:
        for d in f["decls"]:
            if d[0] == "type":
                rels = {}
                meta = {}
                for r, e in d[2]:
                    info = {"refs": []}
                    rels[r] = dslgen.expr_sem(e, info)
                    meta[r] = [info["refs"], S(""), []]
                index[d[1]] = len(types)
                types.append({"name": d[1], "rels": rels, "meta": meta, "module": f["module"], "file": f["name"],
                              "modules": {r: f["module"] for r in rels}})
    for f in files:
        for d in f["decls"]:
            if d[0] == "extend":
                t = types[index[d[1]]]
                for r, e in d[2]:
                    info = {"refs": []}
                    t["rels"][r] = dslgen.expr_sem(e, info)
                    t["meta"][r] = [info["refs"], S(f["module"]), [S(f["name"])]]
                    t["modules"][r] = f["module"]
    wire_types = []
    modules = []
    for t in types:
        rl = [[S(k), t["rels"][k]] for k in sorted(t["rels"])]
        ml = [[S(k), t["meta"][k]] for k in sorted(t["meta"])]
        wire_types.append([S(t["name"]), rl, [[ml, S(t["module"]), [S(t["file"])]]]])
        modules.append([S(t["name"]), [[S(k), [S(t["modules"][k])]] for k in sorted(t["rels"])]])
    conds = {}
    for f in files:
        for d in f["decls"]:
            if d[0] == "cond":
                c = d[1]
                ps = {}
                for (p, cont, ty) in c["params"]:
                    ps[p] = [dslgen.TYPE_NUM[cont], [dslgen.TYPE_NUM[ty]]] if cont else [dslgen.TYPE_NUM[ty]]
                conds[c["name"]] = [S(c["name"]), S(dslgen.norm_expr(c["expr"])), [[S(k), ps[k]] for k in sorted(ps)],
                                    [[S(f["module"]), [S(f["name"])]]]]
    return [S(schema), wire_types, [[S(k), conds[k]] for k in sorted(conds)]], modules

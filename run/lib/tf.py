"""Transformer family: running DSL documents and models through the implementation and the
extracted model, and comparing projected observables."""
import re

from . import core, sexp
from .dslgen import S, T, canon_model, canon_typedef, sort_pairs

FAM = "transform"

LISTENER_MSGS = [
    re.compile(r"^extend can only be used in a modular model$"),
    re.compile(r"^'.*' is already defined in '.*'$", re.S),
    re.compile(r"^condition '.*' is already defined in the model$", re.S),
    re.compile(r"^parameter '.*' is already defined in the condition '.*'$", re.S),
    re.compile(r"^'.*' is already extended in file\.$", re.S),
]

# symbolic token names in the framework's wire numbering (coq/Model/Token.v all_tkinds)
TK_NAMES = ["HASH", "COLON", "COMMA", "AND", "OR", "BUT_NOT", "FROM", "MODULE", "MODEL", "SCHEMA", "SCHEMA_VERSION",
            "EXTEND", "TYPE", "CONDITION", "RELATIONS", "RELATION", "DEFINE", "KEYWORD_WITH",
            "EQUALS", "NOT_EQUALS", "IN", "LESS", "LESS_EQUALS", "GREATER_EQUALS", "GREATER", "LOGICAL_AND", "LOGICAL_OR",
            "LBRACKET", "RPRACKET", "LBRACE", "RBRACE", "LPAREN", "RPAREN", "DOT", "MINUS", "EXCLAM", "QUESTIONMARK",
            "PLUS", "STAR", "SLASH", "PERCENT", "CEL_TRUE", "CEL_FALSE", "NUL",
            "WHITESPACE", "CEL_COMMENT", "NUM_FLOAT", "NUM_INT", "NUM_UINT", "STRING", "BYTES",
            "IDENTIFIER", "EXTENDED_IDENTIFIER", "NEWLINE",
            "CONDITION_PARAM_CONTAINER", "CONDITION_PARAM_TYPE", "EOF"]
TK_CODE = {n: i for i, n in enumerate(TK_NAMES)}


def is_listener_msg(msg):
    return any(p.match(msg) for p in LISTENER_MSGS)


def impl_dsl(ctx, docs, modular=False):
    return ctx.impl([{"op": "dsl", "d": S(d), "modular": modular} for d in docs])


def model_dsl(ctx, docs):
    return ctx.model(FAM, ["(201 %s)" % sexp.enc(d) for d in docs])


def norm_impl_dsl(r):
    """-> ("ok", model, exts) | ("listener", errs) | ("syntax", errs) | ("panic", text) | ("timeout",)"""
    if r.get("panic") is not None:
        return ("panic", r["panic"])
    if r.get("timeout"):
        return ("timeout",)
    if "r" not in r:
        return ("bad", r.get("bad"))
    x = r["r"]
    if x["ok"]:
        return ("ok", canon_model(x["model"]), [[k, canon_typedef(t)] for k, t in x["exts"]])
    errs = [(e[0], e[1], T(e[2])) for e in x["errs"]]
    if errs and all(is_listener_msg(m) for (_, _, m) in errs):
        return ("listener", errs)
    return ("syntax", errs)


def norm_model_dsl(r):
    tag = r[0]
    if tag == 0:
        return ("ok", canon_model(r[1]), sort_pairs([[k, canon_typedef(t)] for k, t in r[2]]))
    if tag == 1:
        return ("syntax", r[1], r[2])
    if tag == 2:
        return ("listener", [(e[0], e[1], T(e[2])) for e in r[1]])
    if tag == 3:
        return ("panic", T(r[1]))
    return ("bad", r)


def agree_dsl(i, m, modular):
    """do the normalised observables of implementation and model agree?"""
    if i[0] != m[0]:
        return False
    if i[0] == "ok":
        return i[1] == m[1] and (not modular or i[2] == m[2])
    if i[0] == "listener":
        return i[1] == m[1]
    return True     # syntax: verdict only; panic: both panic


def impl_print(ctx, models, src=False, via="proto"):
    return ctx.impl([{"op": "print", "m": m, "src": src, "via": via} for m in models])


def model_print(ctx, models, src=False, via="proto"):
    op = 205 if via == "json" else 202
    return ctx.model(FAM, ["(%d %d %s)" % (op, 1 if src else 0, sexp.enc(m)) for m in models])


ERR_NEST = re.compile(r"^the '(.*)' relation definition under the '(.*)' type is not supported by the OpenFGA DSL syntax yet$", re.S)
ERR_COND = re.compile(r"^the '(.*)' condition has a different nested condition name \('(.*)'\)$", re.S)
ERR_GENERIC = re.compile(r"^the '(.*)' parameter of the '(.*)' condition has no generic type.*$", re.S)


def norm_impl_print(r):
    """-> ("ok", text, after_types) | ("err", (kind, a, b), after) | ("panic", text)"""
    if r.get("panic") is not None:
        return ("panic", r["panic"])
    if r.get("timeout"):
        return ("timeout",)
    if "r" not in r:
        return ("bad", r.get("bad"))
    x = r["r"]
    after = [canon_typedef(t) for t in x["after"]]
    if x["ok"]:
        return ("ok", T(x["text"]), after)
    msg = T(x["err"])
    m = ERR_NEST.match(msg)
    if m:
        return ("err", ("nesting", m.group(2), m.group(1)), after)
    m = ERR_COND.match(msg)
    if m:
        return ("err", ("condname", m.group(1), m.group(2)), after)
    m = ERR_GENERIC.match(msg)
    if m:
        return ("err", ("nogeneric", m.group(2), m.group(1)), after)
    return ("err", ("other", msg, ""), after)


def norm_model_print(r):
    tag = r[0]
    if tag == 0:
        return ("ok", T(r[1]), [canon_typedef(t) for t in r[2]])
    if tag == 1:
        e = r[1]
        kind = {0: "nesting", 1: "condname", 2: "nogeneric"}[e[0]]
        return ("err", (kind, T(e[1]), T(e[2])), [canon_typedef(t) for t in r[2]])
    if tag == 3:
        return ("panic", T(r[1]))
    return ("bad", r)


def impl_lex(ctx, texts):
    return ctx.impl([{"op": "lex", "d": S(t)} for t in texts])


def model_lex(ctx, docs):
    """model: prepass + lex_all of the raw documents; returns (cleaned text is op 203)"""
    return ctx.model(FAM, ["(200 %s)" % sexp.enc(d) for d in docs])


def model_prepass(ctx, docs):
    return [T(x) for x in ctx.model(FAM, ["(203 %s)" % sexp.enc(d) for d in docs])]


def norm_impl_tokens(r):
    if "r" not in r:
        return None
    out = []
    for name, text, line, col, ch in r["r"]["tokens"]:
        out.append((TK_CODE.get(name, -1), T(text), line, col))
    return out, len(r["r"]["errors"] or [])


def norm_model_tokens(r):
    return [(t[0], T(t[1]), t[2], t[3]) for t in r[0]], len(r[1])


# ---------------------------------------------------------------------------------------------
# shared check steps
# ---------------------------------------------------------------------------------------------

def correspond_dsl(ctx, docs, modular=False, label="dsl"):
    """implementation vs extracted model on DSL documents (verdict, model, extensions, listener errors);
    returns the normalised implementation results"""
    ir = [norm_impl_dsl(r) for r in impl_dsl(ctx, docs, modular)]
    try:
        mr = [norm_model_dsl(r) for r in model_dsl(ctx, docs)]
    except core.ModelUnavailable:
        model_unavailable(ctx)
        return ir
    for d, a, b in zip(docs, ir, mr):
        ctx.count(f"{label}_impl_{a[0]}")
        if a[0] in ("panic", "timeout", "bad"):
            ctx.violation("entry-point-abnormal", {"op": "dsl", "modular": modular, "input": S(d), "text": d, "impl": a})
        elif not agree_dsl(a, b, modular):
            ctx.violation("correspondence-dsl", {"op": "dsl", "modular": modular, "input": S(d), "text": d,
                                                 "impl": a, "model": b,
                                                 "what": "Model/Transform.dsl_to_model and the implementation disagree"},
                          found_input=False)
    return ir


def correspond_tokens(ctx, docs, label="lex"):
    """token streams of the generated Go lexer vs Model/Lexer on the cleaned text"""
    try:
        clean = model_prepass(ctx, docs)
        mt = [norm_model_tokens(r) for r in model_lex(ctx, docs)]
    except core.ModelUnavailable:
        model_unavailable(ctx)
        return
    it = [norm_impl_tokens(r) for r in impl_lex(ctx, clean)]
    for d, c, a, b in zip(docs, clean, it, mt):
        if a is None:
            ctx.violation("entry-point-abnormal", {"op": "lex", "input": S(c), "text": c})
            continue
        ctx.count(f"{label}_tokens", len(a[0]))
        if a[1] == 0 and b[1] == 0:
            ok = a[0] == b[0]
        else:
            # after a lexer error ANTLR drops the scanned prefix; only the verdict is compared
            ok = (a[1] > 0) == (b[1] > 0)
        if not ok:
            k = next((i for i, (x, y) in enumerate(zip(a[0], b[0])) if x != y), min(len(a[0]), len(b[0])))
            ctx.violation("correspondence-tokens", {"op": "lex", "input": S(d), "text": d, "cleaned": c,
                                                    "first_difference_at_token": k,
                                                    "impl": a[0][k:k + 3], "model": b[0][k:k + 3],
                                                    "what": "Model/Lexer and the generated lexer disagree"},
                          found_input=False)


def correspond_print(ctx, models, src=False, via="proto", label="print"):
    ir = [norm_impl_print(r) for r in impl_print(ctx, models, src, via)]
    try:
        mr = [norm_model_print(r) for r in model_print(ctx, models, src, via)]
    except core.ModelUnavailable:
        model_unavailable(ctx)
        return ir
    for m, a, b in zip(models, ir, mr):
        ctx.count(f"{label}_impl_{a[0]}")
        if a[0] in ("panic", "timeout", "bad"):
            ctx.violation("entry-point-abnormal", {"op": "print", "src": src, "via": via, "model": m, "impl": a})
            continue
        x, y = (a[:2], b[:2]) if via == "json" else (a, b)
        if x != y:
            ctx.violation("correspondence-print", {"op": "print", "src": src, "via": via, "model": m, "impl": a[:2],
                                                   "model_result": b[:2], "after_equal": a[2:] == b[2:],
                                                   "what": "Model/Printer.print_model and the implementation disagree"},
                          found_input=False)
    return ir


def model_unavailable(ctx):
    ctx.violation("model-unavailable", {"what": "the extracted model does not build",
                                        "coq_errors": ctx.st.coq_errors[-2000:], "translator": ctx.st.gen},
                  found_input=False)

"""Generators for the transformer family: DSL syntax trees with their expected models, an independent
layout renderer, corpus loading, wire encoding.  Everything random derives from the rng passed in.

Syntax tree of a relation definition (what the DSL text says):
    expr    = {"first": operand, "op": None|"or"|"and"|"but not", "rest": [operand...]}
    operand = ("direct", [restriction...]) | ("rw", computed, tupleset|None) | ("group", expr)
    restriction = {"type":..., "rel": None|str, "wild": bool, "cond": None|str}
Wire userset (expected model), see coq/Model/WireModel.v.
"""
import glob
import os
import re

import yaml

from . import core

KEYWORD_IDS = ["model", "schema", "type", "relation", "module", "extend"]
NEAR_KEYWORDS = ["types", "defined", "but", "android", "fromage", "orx", "and_", "withx", "relations_", "conditions",
                 "trueish", "nullable", "in_", "define-x", "not", "extends"]
PLAIN_IDS = ["user", "group", "doc", "folder", "org", "member", "viewer", "editor", "owner", "parent", "admin",
             "a", "b", "c", "x1", "_x", "__a__", "A", "Zed", "can_view", "can-edit", "a-", "a_b-c"]
EXT_IDS = ["a/b", "a.b", "a.b/c", "_.a_/_b._", "a.bc/def", "x-1/y.z", "a/b/c"]
COND_IDS = ["cond", "in_window", "is_valid", "c1", "_c", "x-y", "condX", "Zone_check", "In_window"]
PARAM_TYPES = ["bool", "string", "int", "uint", "double", "duration", "timestamp", "ipaddress"]
TYPE_NUM = {"any": 1, "bool": 2, "string": 3, "int": 4, "uint": 5, "double": 6, "duration": 7, "timestamp": 8,
            "map": 9, "list": 10, "ipaddress": 11}

PLAIN_EXPRS = ["x < 100", "a == b", "x > 0 && y <= 10", "user.name == \"anne\"", "ip in allowed", "!(a || b)",
               "n % 2 == 0", "t1 < t2 + d", "x.y.z != null", "items[0] == 'a'", "f(x, y) ? 1 : 2", "true",
               "1.5e3 > x", "0x1F == n", "42u < m", "size(l) >= 1", "a-b == c"]
HOSTILE_EXPRS = ["s == \"}\"", "s == 'a } b'", "s == \"\"\"tri}ple\"\"\"", "s == r\"raw\\n\"", "x < 1 // trailing } comment",
                 "a ==\n  b", "m == {\"k\": 1", "s == \"a\\\"b\"", "b == b\"bytes\"", "s == '''x\ny'''",
                 "x  <   1", "s == \"esc\\u00e9\"", "a ==\tb", "s == R'''q}'''", "a // c1\n  && b // c2",
                 "a ==\n    b", "x > 0 &&\n      y <= 10 &&\n    z"]
# what the parser keeps of an expression: hidden-channel // comments are dropped
EXPR_EXPECTED = {"x < 1 // trailing } comment": "x < 1 ", "a // c1\n  && b // c2": "a \n  && b "}


def S(s):
    return [ord(c) for c in s]


def T(cps):
    return "".join(chr(c) for c in cps)


# ---------------------------------------------------------------------------------------------
# corpus
# ---------------------------------------------------------------------------------------------

def _walk_yaml(x, out):
    if isinstance(x, dict):
        for k, v in x.items():
            if k in ("dsl", "contents") and isinstance(v, str):
                out.append(v)
            else:
                _walk_yaml(v, out)
    elif isinstance(x, list):
        for y in x:
            _walk_yaml(y, out)


# documents kept from minimised correspondence failures of earlier runs (they run first, as part of the corpus):
# a hidden-channel `//` comment line between sections leaves two NEWLINE tokens in a row, which the optional
# NEWLINE of `main` takes (Model/Parser.skip_dup_newline)
EXTRA_CORPUS = [
    "model\n  schema 1.1\n\ntype t\n  relations\n    define a: [t]\ntype u\n//\ncondition c(x: int) {\n  x > 0\n}\n",
    "model\n  schema 1.1\n//\ntype t\n//\n",
    "model\n  schema 1.1\n//\n//\ntype t\n",
    "model\n  schema 1.1\n//\n\n//\n",
    "module m\n// c\ntype t\n  relations\n    define a: [t]\n// d\ncondition c(x: int) {\n  x > 0\n}\n// e\n",
    "model\n  schema 1.1\ntype t\n//\n//\ncondition c(x: int) {\n  x > 0\n}\n",
]


def corpus_dsl():
    """every DSL text under tests/data (files and yaml fields), de-duplicated, in a stable order"""
    root = os.path.join(core.REPO, "tests", "data")
    out = []
    for p in sorted(glob.glob(os.path.join(root, "**", "*.fga"), recursive=True)):
        try:
            out.append(open(p, encoding="utf-8").read())
        except OSError:
            pass
    for p in sorted(glob.glob(os.path.join(root, "*.yaml"))):
        try:
            _walk_yaml(yaml.safe_load(open(p, encoding="utf-8")), out)
        except Exception:
            pass
    out += EXTRA_CORPUS
    seen = set()
    res = []
    for d in out:
        if d not in seen and "\f" not in d:
            seen.add(d)
            res.append(d)
    return res


# ---------------------------------------------------------------------------------------------
# syntax trees
# ---------------------------------------------------------------------------------------------

class Names:
    def __init__(self, rng, exotic=0.25):
        self.rng = rng
        self.exotic = exotic

    def ident(self, allow_ext=True):
        r = self.rng.random()
        if r < self.exotic * 0.4:
            return self.rng.choice(KEYWORD_IDS)
        if r < self.exotic * 0.7:
            return self.rng.choice(NEAR_KEYWORDS)
        if r < self.exotic and allow_ext:
            return self.rng.choice(EXT_IDS)
        return self.rng.choice(PLAIN_IDS)

    def distinct(self, n, allow_ext=True):
        out = []
        guard = 0
        while len(out) < n and guard < 200:
            x = self.ident(allow_ext)
            guard += 1
            if x not in out:
                out.append(x)
        k = 0
        while len(out) < n:
            out.append(f"n{k}")
            k += 1
        return out


def gen_restriction(rng, types, conds, names):
    r = {"type": rng.choice(types) if types and rng.random() < 0.85 else names.ident(), "rel": None, "wild": False,
         "cond": None}
    k = rng.random()
    if k < 0.2:
        r["wild"] = True
    elif k < 0.45:
        r["rel"] = names.ident()
    if conds and rng.random() < 0.25:
        r["cond"] = rng.choice(conds)
    return r


def gen_operand(rng, depth, rels, names, allow_direct, types, conds):
    k = rng.random()
    if allow_direct and k < 0.35:
        return ("direct", [gen_restriction(rng, types, conds, names) for _ in range(rng.choice([1, 1, 2, 3]))])
    if depth > 0 and k < 0.6:
        return ("group", gen_expr(rng, depth - 1, rels, names, allow_direct, types, conds))
    cu = rng.choice(rels) if rels and rng.random() < 0.8 else names.ident()
    ts = None
    if rng.random() < 0.3:
        ts = rng.choice(rels) if rels and rng.random() < 0.8 else names.ident()
    return ("rw", cu, ts)


def gen_expr(rng, depth, rels, names, allow_direct, types, conds):
    first = gen_operand(rng, depth, rels, names, allow_direct, types, conds)
    k = rng.random()
    if k < 0.35:
        return {"first": first, "op": None, "rest": []}
    op = rng.choice(["or", "or", "and", "but not"])
    n = 1 if op == "but not" else rng.choice([1, 1, 2, 3])
    rest = [gen_operand(rng, depth, rels, names, False, types, conds) for _ in range(n)]
    return {"first": first, "op": op, "rest": rest}


def gen_condition(rng, name, hostile=False):
    n = rng.choice([1, 1, 2, 3])
    pn = []
    # names that are prefixes of each other and continue with a digit, '_' or '-' order differently as names and as
    # rendered "name: type" entries (':' sorts after digits and '-', before '_' and letters)
    for x in ["x", "x1", "y", "user", "user_ip", "ip", "allowed", "t1", "t", "items", "items2", "n"]:
        if len(pn) < n and rng.random() < 0.45:
            pn.append(x)
    if not pn:
        pn = ["x"]
    params = []
    for p in pn:
        if rng.random() < 0.25:
            params.append((p, rng.choice(["list", "map"]), rng.choice(PARAM_TYPES)))
        else:
            params.append((p, None, rng.choice(PARAM_TYPES)))
    expr = rng.choice(HOSTILE_EXPRS if hostile else PLAIN_EXPRS)
    return {"name": name, "params": params, "expr": expr}


def gen_file(rng, modular=False, max_types=5, max_rels=5, depth=3, exotic=0.25, hostile=0.0, n_conds=None):
    """a syntax tree of a whole document"""
    names = Names(rng, exotic)
    tnames = names.distinct(rng.randint(1, max_types))
    if n_conds is None:
        n_conds = rng.choice([0, 0, 1, 2])
    if not modular and rng.random() < 0.06:
        # a document without any type block (header only, or header and conditions)
        tnames = []
        n_conds = rng.choice([0, 1, 2, 2])
    cnames = []
    for c in COND_IDS:
        if len(cnames) < n_conds and rng.random() < 0.5:
            cnames.append(c)
    types = []
    for tn in tnames:
        nrel = rng.randint(0, max_rels)
        rnames = names.distinct(nrel)
        rels = []
        for rn in rnames:
            rels.append((rn, gen_expr(rng, rng.randint(0, depth), rnames, names, True, tnames, cnames)))
        types.append({"name": tn, "extend": modular and rng.random() < 0.3 and nrel > 0, "rels": rels})
    conds = [gen_condition(rng, c, rng.random() < hostile) for c in cnames]
    hdr = ("module", rng.choice(["core", "wiki", "m1", "model", "type"])) if modular else ("model", rng.choice(["1.1", "1.2", "1.0", "2.10"]))
    # extends of the same type twice in a file are an error: make extended names unique by construction
    return {"header": hdr, "types": types, "conds": conds}


# ---- expected model (denotation of the syntax tree; independent of the Coq model) ----

def ref_wire(r):
    if r["wild"]:
        kind = [2]
    elif r["rel"] is not None:
        kind = [1, S(r["rel"])]
    else:
        kind = [0]
    return [S(r["type"]), kind, S(r["cond"] or "")]


def operand_sem(o, info):
    if o[0] == "direct":
        info["refs"] = [ref_wire(r) for r in o[1]]
        return [1, 1]
    if o[0] == "rw":
        return [2, S(o[1])] if o[2] is None else [3, S(o[2]), S(o[1])]
    return expr_sem(o[1], info)


def expr_sem(e, info):
    xs = [operand_sem(e["first"], info)] + [operand_sem(o, info) for o in e["rest"]]
    if e["op"] is None:
        return xs[0]
    if e["op"] == "or":
        return [4] + xs
    if e["op"] == "and":
        return [5] + xs
    return [6, xs[0], xs[1]]


def expected_model(f):
    """wire model the document denotes (maps sorted by key, as the harness emits them)"""
    modular = f["header"][0] == "module"
    module = f["header"][1] if modular else ""
    types = []
    for t in f["types"]:
        rels = {}
        meta = {}
        for rn, e in t["rels"]:
            info = {"refs": []}
            rels[rn] = expr_sem(e, info)
            meta[rn] = [info["refs"], S(module if (modular and t["extend"]) else ""), []]
        rl = [[S(k), rels[k]] for k in sorted(rels)]
        ml = [[S(k), meta[k]] for k in sorted(meta)]
        if modular:
            md = [[ml, S(module), []]]
        elif ml:
            md = [[ml, S(""), []]]
        else:
            md = []
        types.append([S(t["name"]), rl, md])
    conds = {}
    for c in f["conds"]:
        ps = {}
        for (p, cont, ty) in c["params"]:
            ps[p] = [TYPE_NUM[cont], [TYPE_NUM[ty]]] if cont else [TYPE_NUM[ty]]
        expr = c["expr"]
        conds[c["name"]] = [S(c["name"]), S(norm_expr(expr)), [[S(k), ps[k]] for k in sorted(ps)],
                            [[S(module), []]] if modular else []]
    schema = f["header"][1] if not modular else ""
    return [S(schema), types, [[S(k), conds[k]] for k in sorted(conds)]]


def norm_expr(e):
    """condition expressions are compared modulo surrounding whitespace and trailing whitespace per line
    (and without hidden-channel // comments, which the parser drops)"""
    return EXPR_EXPECTED.get(e, e)


# ---------------------------------------------------------------------------------------------
# layout renderer (independent of the Coq TokLayout relation)
# ---------------------------------------------------------------------------------------------

class Layout:
    """choices at every optional / repeated layout element of the grammar"""

    def __init__(self, rng, wild=0.3, crlf=None, comments=0.15, tabs=0.2):
        self.rng = rng
        self.wild = wild            # probability of a non-canonical choice
        self.crlf = rng.random() < 0.15 if crlf is None else crlf
        self.comments = comments
        self.tabs = tabs

    def ws(self):                   # mandatory WHITESPACE
        if self.rng.random() >= self.wild:
            return " "
        n = self.rng.choice([1, 2, 3, 5])
        return "".join(self.rng.choice(" \t" if self.rng.random() < self.tabs else " ") for _ in range(n))

    def ows(self, default=""):      # optional WHITESPACE
        if self.rng.random() >= self.wild:
            return default
        return self.rng.choice(["", " ", "  ", "\t"])

    def eol(self):
        return "\r\n" if self.crlf else "\n"

    def nl(self, indent):           # a NEWLINE (with optional blank lines / comment lines), then the indent
        out = ""
        if self.rng.random() < self.wild * 0.5:
            out += self.rng.choice(["", " ", "   "])          # trailing blanks
        if self.rng.random() < self.comments:
            out += " # " + self.rng.choice(["note", "a # b", "define x: [y]", "type z", "}"])
        out += self.eol()
        while self.rng.random() < self.wild * 0.4:
            k = self.rng.random()
            if k < 0.5:
                out += self.rng.choice(["", "  ", "    "]) + self.eol()     # blank line
            else:
                out += self.rng.choice(["", "  ", "      "]) + "#" + self.rng.choice([" comment", "type x", " define a: b", ""]) + self.eol()
        return out + self.indent(indent)

    def indent(self, n):
        if self.rng.random() >= self.wild:
            return " " * n
        return self.rng.choice([" " * n, "\t", " " * (n + 2), "", " "]) if n else self.rng.choice(["", "", " "])


def render_restriction(r, L, multiline):
    s = r["type"]
    if r.get("both"):                      # C09 injection: wildcard and relation in one restriction
        return s + (":*#" + r["both"] if L.rng.random() < 0.5 else "#" + r["both"] + ":*")
    if r["wild"]:
        s += ":*"
    elif r["rel"] is not None:
        s += "#" + r["rel"]
    if r["cond"]:
        s += L.ws() + "with" + L.ws() + r["cond"]
    return s


def render_operand(o, L):
    if o[0] == "direct":
        multiline = L.rng.random() < L.wild * 0.3
        parts = []
        for r in o[1]:
            pre = (L.eol() + L.indent(6)) if multiline else L.ows()
            post = (L.eol() + L.indent(4)) if (multiline and L.rng.random() < 0.5) else L.ows()
            parts.append(pre + render_restriction(r, L, multiline) + post)
        return "[" + ",".join(parts) + "]"
    if o[0] == "rw":
        return o[1] if o[2] is None else o[1] + L.ws() + "from" + L.ws() + o[2]
    return "(" + L.ows() + render_expr(o[1], L) + L.ows() + ")"


def render_expr(e, L):
    s = render_operand(e["first"], L)
    for o in e["rest"]:
        s += L.ws() + e["op"] + L.ws() + render_operand(o, L)
    if e.get("mix"):                       # C09 injection: a different operator at the same level
        s += L.ws() + e["mix"][0] + L.ws() + render_operand(e["mix"][1], L)
    return s


def render_condition(c, L):
    ps = []
    for (p, cont, ty) in c["params"]:
        t = (f"{cont}<{ty}>" if ty is not None else cont) if cont else ty
        ps.append(L.ows() + p + L.ows() + ":" + L.ows(" ") + t + L.ows())
    body_open = "{" + L.rng.choice([L.eol() + "  ", L.eol(), " ", ""]) if L.rng.random() < L.wild else "{" + L.eol() + "  "
    body_close = L.rng.choice([L.eol(), "", " "]) if (L.rng.random() < L.wild and "//" not in c["expr"]) else L.eol()
    return ("condition" + L.ws() + c["name"] + L.ows() + "(" + ",".join(ps) + ")" + L.ows(" ") + body_open
            + c["expr"] + body_close + "}")


def render_file(f, L):
    out = ""
    if L.rng.random() < L.wild * 0.3:
        out += L.rng.choice([" ", "\n", "  \n"])
    if f["header"][0] == "model":
        out += "model" + L.nl(2) + "schema" + L.ws() + f["header"][1] + L.ows()
    elif f["header"][0] == "module":
        out += "module" + L.ws() + f["header"][1] + L.ows()
    elif f["header"][0] == "both":         # C09 injections
        out += "model" + L.nl(2) + "schema" + L.ws() + "1.1" + L.nl(0) + "module" + L.ws() + "core" + L.ows()
    elif f["header"][0] == "both2":
        out += "module" + L.ws() + "core" + L.nl(0) + "model" + L.nl(2) + "schema" + L.ws() + "1.1" + L.ows()
    else:
        out = out.lstrip("\n ")
        if not f["types"]:
            out += "#"
    for k, t in enumerate(f["types"]):
        if not (k == 0 and f["header"][0] == "none"):
            out += L.nl(0)
        out += ("extend" + L.ws() if t["extend"] else "") + "type" + L.ws() + t["name"]
        if t["rels"]:
            out += L.nl(2) + "relations"
            for rn, e in t["rels"]:
                out += L.nl(4) + "define" + L.ws() + rn + L.ows() + ":" + L.ows(" ") + render_expr(e, L)
    for c in f["conds"]:
        out += L.nl(0) + render_condition(c, L)
    # the last content line may carry trailing blanks and a trailing comment too, with or without a final
    # line end (the pre-pass trims trailing newlines, so what follows the last token reaches EOF)
    if L.rng.random() < L.wild * 0.5:
        out += L.rng.choice(["", " ", "   "])
    if L.rng.random() < L.comments * 2:
        out += L.rng.choice([" # ", "  # ", " #", "   #x "]) + L.rng.choice(["note", "a # b", "type z", ""])
    if L.rng.random() < 0.7:
        out += L.eol()
        while L.rng.random() < L.wild * 0.3:
            out += L.rng.choice(["", "  ", "# end"]) + L.eol()
    return out


def canonical_layout(rng):
    return Layout(rng, wild=0.0, crlf=False, comments=0.0)


# ---------------------------------------------------------------------------------------------
# canonicalisation of wire models
# ---------------------------------------------------------------------------------------------

def sort_pairs(l):
    return sorted(l, key=lambda p: p[0])


def canon_typedef(t):
    name, rels, meta = t
    rels = sort_pairs(rels)
    if meta:
        m = meta[0]
        meta = [[sort_pairs(m[0]), m[1], m[2]]]
    return [name, rels, meta]


def canon_condition(c):
    return [c[0], c[1], sort_pairs(c[2]), c[3]]


def canon_model(m):
    return [m[0], [canon_typedef(t) for t in m[1]], sort_pairs([[k, canon_condition(c)] for k, c in m[2]])]


def strip_expr_ws(cps):
    """condition expression modulo surrounding whitespace and trailing whitespace of each line"""
    lines = T(cps).split("\n")
    lines = [l.rstrip(" \t\r\f") for l in lines]
    return S("\n".join(lines).strip(" \t\r\n\f"))


def model_eq_ws(a, b):
    def norm(m):
        m = canon_model(m)
        return [m[0], m[1], [[k, [c[0], strip_expr_ws(c[1]), c[2], c[3]]] for k, c in m[2]]]
    return norm(a) == norm(b)


# ---------------------------------------------------------------------------------------------
# random wire models (printer side: C02, C13, C14, C08)
# ---------------------------------------------------------------------------------------------

def gen_userset(rng, depth, rels, p_this=0.25, degenerate=0.0):
    k = rng.random()
    if degenerate and k < degenerate:
        return rng.choice([[0], [1, 0], [4], [5], [4, [2, S("a")]], [5, [1, 1]], [6, [0], [2, S("a")]]])
    if k < p_this:
        return [1, 1]
    if depth <= 0 or k < 0.55:
        if rng.random() < 0.7:
            return [2, S(rng.choice(rels))]
        return [3, S(rng.choice(rels)), S(rng.choice(rels))]
    op = rng.choice([4, 4, 5, 6])
    if op == 6:
        return [6, gen_userset(rng, depth - 1, rels, p_this, degenerate), gen_userset(rng, depth - 1, rels, p_this, degenerate)]
    # a union or intersection with ONE operand is a legal model (JSON/proto only; the DSL cannot write it)
    return [op] + [gen_userset(rng, depth - 1, rels, p_this, degenerate) for _ in range(rng.choice([1, 2, 2, 2, 3, 4]))]


def count_this(u):
    if u[0] == 1:
        return 1
    if u[0] in (4, 5):
        return sum(count_this(c) for c in u[1:])
    if u[0] == 6:
        return count_this(u[1]) + count_this(u[2])
    return 0


def gen_wire_model(rng, modular=None, degenerate=0.0, p_this=0.25, max_types=4, max_rels=4, depth=3, modules=None, files=None):
    names = Names(rng, 0.15)
    if modular is None:
        modular = rng.random() < 0.4
    tnames = names.distinct(rng.randint(1, max_types))
    modules = modules or ["core", "wiki", "a"]
    files = files or ["core.fga", "z.fga", "a/b.fga", "", "teams #1/core.fga"]
    cnames = [c for c in COND_IDS[:4] + COND_IDS[7:] if rng.random() < 0.4]
    types = []
    for tn in tnames:
        rnames = names.distinct(rng.randint(0, max_rels))
        rels = []
        metas = []
        for rn in rnames:
            u = gen_userset(rng, rng.randint(0, depth), rnames, p_this, degenerate)
            rels.append([S(rn), u])
            refs = []
            if count_this(u) > 0 or rng.random() < 0.1:
                for _ in range(rng.choice([1, 1, 2, 3]) if rng.random() > degenerate * 0.5 else 0):
                    refs.append(ref_wire(gen_restriction(rng, tnames, cnames, names)))
            mod = S(rng.choice(modules)) if modular and rng.random() < 0.4 else []
            fil = [S(rng.choice(files))] if modular and rng.random() < 0.5 else []
            if rng.random() <= degenerate * 0.5:
                continue
            if count_this(u) == 0 and not refs and rng.random() < 0.15:
                continue        # a relation without direct assignment needs no metadata entry (hand-written JSON leaves it out)
            metas.append([S(rn), [refs, mod, fil]])
        if modular:
            tmod = S(rng.choice(modules)) if rng.random() < 0.85 else []
            tfile = [S(rng.choice(files))] if rng.random() < 0.7 else []
            meta = [[metas, tmod, tfile]]
        elif metas or rng.random() < 0.2:
            meta = [[metas, [], []]]
        else:
            meta = []
        types.append([S(tn), rels, meta])
    conds = []
    for cn in cnames:
        c = gen_condition(rng, cn, hostile=False)
        ps = []
        for (p, cont, ty) in c["params"]:
            if cont:
                g = [[TYPE_NUM[ty]]] if rng.random() > degenerate else rng.choice([[], [[TYPE_NUM[ty]], [3]]])
                ps.append([S(p), [TYPE_NUM[cont]] + g])
            else:
                n = TYPE_NUM[ty] if rng.random() > degenerate else rng.choice([0, 1, 9, 10, 12, 77])
                ps.append([S(p), [n]])
        cm = [[S(rng.choice(modules)), [S(rng.choice(files))] if rng.random() < 0.6 else []]] if modular and rng.random() < 0.8 else []
        key = cn if rng.random() > degenerate * 0.3 else cn + "x"
        conds.append([S(key), [S(cn), S(c["expr"]), ps, cm]])
    return [S(rng.choice(["1.1", "1.2"])), types, conds]

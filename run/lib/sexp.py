"""S-expressions with natural-number atoms: the wire format of the extracted model."""


def enc(x):
    """Python value -> sexp text.  int -> atom, bool -> 0/1, str -> list of code points,
    None -> (), list/tuple -> list.  Use Opt(x) for options and Raw(text) for pre-encoded."""
    if isinstance(x, bool):
        return "1" if x else "0"
    if isinstance(x, int):
        if x < 0:
            raise ValueError("negative atom")
        return str(x)
    if isinstance(x, str):
        return "(" + " ".join(str(ord(c)) for c in x) + ")"
    if x is None:
        return "()"
    if isinstance(x, Raw):
        return x.text
    if isinstance(x, Opt):
        return "()" if x.v is None else "(" + enc(x.v) + ")"
    if isinstance(x, (list, tuple)):
        return "(" + " ".join(enc(y) for y in x) + ")"
    raise TypeError(f"cannot encode {type(x)}")


class Raw:
    def __init__(self, text):
        self.text = text


class Opt:
    def __init__(self, v):
        self.v = v


def parse(s):
    """sexp text -> nested Python lists of ints."""
    i = 0
    n = len(s)
    stack = []
    cur = None
    top = None
    while i < n:
        c = s[i]
        if c == "(":
            new = []
            if cur is not None:
                cur.append(new)
                stack.append(cur)
            cur = new
            i += 1
        elif c == ")":
            if stack:
                cur = stack.pop()
            else:
                top = cur
                cur = None
            i += 1
        elif c in " \t\r\n":
            i += 1
        else:
            j = i
            while j < n and s[j].isdigit():
                j += 1
            if j == i:
                raise ValueError(f"bad sexp char {c!r} at {i}")
            v = int(s[i:j])
            if cur is None:
                top = v
            else:
                cur.append(v)
            i = j
    return top


def to_str(x):
    """list of code points -> Python str"""
    return "".join(chr(c) for c in x)

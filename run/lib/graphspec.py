"""Specifications of the graph properties, written on the *model* (independently of the Go code and of the
Coq transcription): expected graph structure (C10), maximum tuple-hop depth K/D (C04), well-foundedness
(C05), reachable public types (C11)."""
from .dslgen import S, T

INF = 2147483647


def rels_of(m):
    return {(T(t[0]), T(k)): u for t in m[1] for k, u in t[1]}


def refs_of(m):
    out = {}
    for t in m[1]:
        meta = t[2][0][0] if t[2] else []
        for k, rm in meta:
            out[(T(t[0]), T(k))] = rm[0]
    return out


def ref_target(r):
    ty = T(r[0])
    if r[1][0] == 0:
        return ("type", ty)
    if r[1][0] == 2:
        return ("wild", ty)
    return ("rel", ty, T(r[1][1]))


# ---------------------------------------------------------------------------------------------
# builder-time validity (the three ErrInvalidModel conditions of the builder)
# ---------------------------------------------------------------------------------------------

def ttus(u, out=None):
    out = [] if out is None else out
    if u[0] == 3:
        out.append((T(u[1]), T(u[2])))
    elif u[0] in (4, 5):
        for c in u[1:]:
            ttus(c, out)
    elif u[0] == 6:
        ttus(u[1], out)
        ttus(u[2], out)
    return out


def builder_valid(m):
    R = rels_of(m)
    F = refs_of(m)
    for (t, r), u in R.items():
        for (ts, cu) in ttus(u):
            if (t, ts) not in F or not F[(t, ts)]:
                return False
            for ref in F[(t, ts)]:
                if (T(ref[0]), cu) not in R:
                    return False
    return True


# ---------------------------------------------------------------------------------------------
# C10: expected structure
# ---------------------------------------------------------------------------------------------

def norm_rewrite(m, t, r, u, F):
    """the rewrite as the graph must mirror it"""
    if u[0] == 1:
        targets = []
        for ref in F.get((t, r), []):
            tg = ref_target(ref)
            name = tg[1] if tg[0] == "type" else (tg[1] + ":*" if tg[0] == "wild" else tg[1] + "#" + tg[2])
            cond = T(ref[2]) or "none"
            for x in targets:
                if x[0] == name:
                    if cond not in x[1]:
                        x[1].append(cond)
                    break
            else:
                targets.append([name, [cond]])
        return ("this", targets)
    if u[0] == 2:
        return ("computed", t + "#" + T(u[1]))
    if u[0] == 3:
        parents = []
        for ref in F.get((t, T(u[1])), []):
            p = T(ref[0]) + "#" + T(u[2])
            if p not in parents:
                parents.append(p)
        return ("ttu", t + "#" + T(u[1]), parents)
    if u[0] in (4, 5):
        return ({4: "union", 5: "intersection"}[u[0]], [norm_rewrite(m, t, r, c, F) for c in u[1:]])
    if u[0] == 6:
        return ("exclusion", [norm_rewrite(m, t, r, u[1], F), norm_rewrite(m, t, r, u[2], F)])
    return ("unset",)


def flatten_operands(ops):
    """the edge sequence an operator node must carry for its operands"""
    out = []
    for o in ops:
        if o[0] == "this":
            for name, conds in o[1]:
                k = next((i for i, e in enumerate(out) if e[0] == "direct" and e[1] == name), None)
                if k is None:
                    out.append(["direct", name, list(conds)])
                else:
                    for c in conds:
                        if c not in out[k][2]:
                            out[k][2].append(c)
        elif o[0] == "computed":
            out.append(["rewrite-or-computed", o[1]])
        elif o[0] == "ttu":
            for p in o[2]:
                if not any(e[0] == "ttu" and e[1] == p and e[2] == o[1] for e in out):
                    out.append(["ttu", p, o[1]])
        else:
            out.append(["operator", o])
    return out


def check_structure(m, g):
    """compare the graph dump g (canonical form) with the model; returns None or a reason"""
    R = rels_of(m)
    F = refs_of(m)
    nodes, edges = g["nodes"], g["edges"]
    used_ops = set()
    expected_nodes = set()
    for t in m[1]:
        expected_nodes.add(T(t[0]))

    def match(node_id, want, top):
        """edges of node_id must be exactly the flattened operands [want]"""
        got = edges.get(node_id, [])
        seq = flatten_operands(want)
        if len(got) != len(seq):
            return "%s has %d edges, the model gives %d operand edges" % (node_id, len(got), len(seq))
        for e, w in zip(got, seq):
            if w[0] == "direct":
                expected_nodes.add(w[1])
                if not (e["type"] == 0 and e["to"] == w[1] and e["conds"] == w[2] and e["tupleset"] == ""):
                    return "%s: expected direct edge to %s with conditions %s, found %s" % (node_id, w[1], w[2], e)
            elif w[0] == "rewrite-or-computed":
                expected_nodes.add(w[1])
                kind = 3 if top else 1
                if not (e["type"] == kind and e["to"] == w[1] and e["conds"] == ["none"]):
                    return "%s: expected %s edge to %s, found %s" % (node_id, "computed" if top else "rewrite", w[1], e)
            elif w[0] == "ttu":
                expected_nodes.add(w[1])
                if not (e["type"] == 2 and e["to"] == w[1] and e["tupleset"] == w[2]):
                    return "%s: expected TTU edge to %s labelled %s, found %s" % (node_id, w[1], w[2], e)
            else:
                op = w[1]
                if not (e["type"] == 1 and e["to"] in nodes and nodes[e["to"]]["type"] == 2 and nodes[e["to"]]["label"] == op[0]
                        and e["conds"] == ["none"]):
                    return "%s: expected rewrite edge to a %s operator node, found %s" % (node_id, op[0], e)
                if e["to"] in used_ops:
                    return "operator node %s is shared by two operator occurrences" % e["to"]
                used_ops.add(e["to"])
                expected_nodes.add(e["to"])
                r = match(e["to"], op[1], False)
                if r:
                    return r
        return None

    for (t, r), u in sorted(R.items()):
        nid = t + "#" + r
        expected_nodes.add(nid)
        if nid not in nodes or nodes[nid]["type"] != 1:
            return "relation node %s is missing" % nid
        n = norm_rewrite(m, t, r, u, F)
        if n[0] in ("union", "intersection", "exclusion"):
            res = match(nid, [n], True)
        else:
            res = match(nid, [n], True)
        if res:
            return res
    if set(nodes) != expected_nodes:
        extra = sorted(set(nodes) - expected_nodes)
        missing = sorted(expected_nodes - set(nodes))
        return "node inventory differs: unexpected %s, missing %s" % (extra[:4], missing[:4])
    for nid, n in nodes.items():
        want = 0
        if "#" in nid:
            want = 1
        if nid.endswith(":*"):
            want = 3
        if n["type"] == 2:
            continue
        if n["type"] != want:
            return "node %s has type %d" % (nid, n["type"])
    return None


# ---------------------------------------------------------------------------------------------
# C04 / C05: keys and depths by least fixed point on the model
# ---------------------------------------------------------------------------------------------

def mmax(a, b):
    out = dict(a)
    for k, v in b.items():
        out[k] = max(out.get(k, 0), v)
    return out


def bump(w):
    return {k: (v if v >= INF else v + 1) for k, v in w.items()}


def eval_rewrite(t, r, u, W, F, R):
    """keys/depth map of a rewrite under the current approximation W"""
    if u[0] == 1:
        out = {}
        for ref in F.get((t, r), []):
            tg = ref_target(ref)
            if tg[0] in ("type", "wild"):
                out = mmax(out, {tg[1]: 1})
            else:
                out = mmax(out, bump(W.get((tg[1], tg[2]), {})))
        return out
    if u[0] == 2:
        return dict(W.get((t, T(u[1])), {}))
    if u[0] == 3:
        out = {}
        for ref in F.get((t, T(u[1])), []):
            out = mmax(out, bump(W.get((T(ref[0]), T(u[2])), {})))
        return out
    if u[0] == 4:
        out = {}
        for c in u[1:]:
            out = mmax(out, eval_rewrite(t, r, c, W, F, R))
        return out
    if u[0] == 5:
        ws = [eval_rewrite(t, r, c, W, F, R) for c in u[1:]]
        if not ws:
            return {}
        keys = set(ws[0])
        for w in ws[1:]:
            keys &= set(w)
        return {k: max(w[k] for w in ws) for k in keys}
    if u[0] == 6:
        b = eval_rewrite(t, r, u[1], W, F, R)
        s = eval_rewrite(t, r, u[2], W, F, R)
        return {k: max(v, s.get(k, 0)) for k, v in b.items()}
    return {}


def spec_weights(m):
    """(keys and depths per relation) as the supremum over unfoldings: Kleene iteration from the empty maps;
    a depth that is still growing after the key sets are stable for |relations|+1 rounds is infinite"""
    R = rels_of(m)
    F = refs_of(m)
    W = {k: {} for k in R}
    n = len(R) + 2
    for _ in range(3 * n + 3):
        W2 = {k: eval_rewrite(k[0], k[1], u, W, F, R) for k, u in R.items()}
        if W2 == W:
            return W
        W = W2
    # not stable: depths keep growing on cycles -> infinite; iterate with saturation
    for _ in range(3 * n + 3):
        W2 = {k: eval_rewrite(k[0], k[1], u, W, F, R) for k, u in R.items()}
        for k in W2:
            for ty, v in W2[k].items():
                old = W[k].get(ty, 0)
                if old >= INF or (v > old and old > 0):
                    W2[k][ty] = INF          # a depth that still grows is unbounded; infinity is absorbing
        if W2 == W:
            break
        W = W2
    return W


def operand_weights(m, t, r, u, W):
    return eval_rewrite(t, r, u, W, refs_of(m), rels_of(m))


# ---- cycles ----

def dep_edges(m):
    """dependency edges between relations: (from, to, needs_tuple, through_constraint) where through_constraint
    says the reference sits below an intersection/exclusion operator of the source relation"""
    R = rels_of(m)
    F = refs_of(m)
    out = []

    def walk(t, r, u, constrained):
        if u[0] == 1:
            for ref in F.get((t, r), []):
                tg = ref_target(ref)
                if tg[0] == "rel":
                    out.append(((t, r), (tg[1], tg[2]), True, constrained))
        elif u[0] == 2:
            out.append(((t, r), (t, T(u[1])), False, constrained))
        elif u[0] == 3:
            for ref in F.get((t, T(u[1])), []):
                out.append(((t, r), (T(ref[0]), T(u[2])), True, constrained))
        elif u[0] in (4, 5):
            for c in u[1:]:
                walk(t, r, c, constrained or u[0] == 5)
        elif u[0] == 6:
            walk(t, r, u[1], True)
            walk(t, r, u[2], True)

    for (t, r), u in R.items():
        walk(t, r, u, False)
    return out


def reachable(adj, src):
    seen = set()
    stack = list(adj.get(src, []))
    while stack:
        x = stack.pop()
        if x in seen:
            continue
        seen.add(x)
        stack.extend(adj.get(x, []))
    return seen


def cycle_info(m):
    E = dep_edges(m)
    adj = {}
    adj_free = {}
    for (a, b, tup, con) in E:
        adj.setdefault(a, []).append(b)
        if not tup:
            adj_free.setdefault(a, []).append(b)
    has_cycle = any(a in reachable(adj, a) for a in adj)
    tuple_free_cycle = any(a in reachable(adj_free, a) for a in adj_free)
    constrained_cycle = any(con and a in ({b} | reachable(adj, b)) for (a, b, tup, con) in E)
    return {"has_cycle": has_cycle, "tuple_free_cycle": tuple_free_cycle, "constrained_cycle": constrained_cycle}


def has_empty_intersection(m, W):
    R = rels_of(m)
    F = refs_of(m)

    def walk(t, r, u):
        if u[0] == 5:
            if not eval_rewrite(t, r, u, W, F, R):
                return True
        if u[0] in (4, 5):
            return any(walk(t, r, c) for c in u[1:])
        if u[0] == 6:
            return walk(t, r, u[1]) or walk(t, r, u[2])
        return False

    return any(walk(t, r, u) for (t, r), u in R.items())


def degenerate(m):
    """shapes outside the domain of the graph properties (no DSL document produces them)"""
    def bad(u):
        if u[0] == 0 or u == [1, 0]:
            return True
        if u[0] in (4, 5):
            return len(u) < 2 or any(bad(c) for c in u[1:])
        if u[0] == 6:
            return bad(u[1]) or bad(u[2])
        return False
    def nthis(u):
        if u[0] == 1:
            return 1
        if u[0] in (4, 5):
            return sum(nthis(c) for c in u[1:])
        if u[0] == 6:
            return nthis(u[1]) + nthis(u[2])
        return 0
    names = [T(t[0]) for t in m[1]]
    return (len(set(names)) != len(names) or any(bad(u) for u in rels_of(m).values())
            or any(nthis(u) > 1 for u in rels_of(m).values()))


def undefined_reference(m):
    """a computed userset or a userset restriction that names a relation no type defines"""
    R = rels_of(m)
    return any(b not in R for (a, b, tup, con) in dep_edges(m))


def well_founded(m):
    if not builder_valid(m) or undefined_reference(m):
        return False
    ci = cycle_info(m)
    if ci["tuple_free_cycle"] or ci["constrained_cycle"]:
        return False
    W = spec_weights(m)
    if any(not w for w in W.values()):
        return False
    if has_empty_intersection(m, W):
        return False
    return True


def simple_operands(m):
    """every operand of an intersection / exclusion consists of one edge (the domain outside K-C04-operands)"""
    R = rels_of(m)
    F = refs_of(m)

    def edges_of(t, r, c):
        if c[0] == 1:
            return len({ref_target(ref) for ref in F.get((t, r), [])})
        if c[0] == 3:
            return len({T(ref[0]) for ref in F.get((t, T(c[1])), [])})
        return 1

    def signature(t, r, c):
        if c[0] == 1:
            return tuple(sorted(("direct",) + ref_target(ref) for ref in F.get((t, r), [])))
        if c[0] == 3:
            return ("ttu", T(c[1]), T(c[2]))
        return None

    def walk(t, r, u):
        if u[0] in (5, 6):
            kids = u[1:] if u[0] == 5 else [u[1], u[2]]
            if any(edges_of(t, r, c) != 1 for c in kids):
                return False
            # two operands that the builder's edge de-duplication collapses into one edge
            sigs = [signature(t, r, c) for c in kids if signature(t, r, c) is not None]
            if len(set(sigs)) != len(sigs):
                return False
        if u[0] in (4, 5):
            return all(walk(t, r, c) for c in u[1:])
        if u[0] == 6:
            return walk(t, r, u[1]) and walk(t, r, u[2])
        return True

    return all(walk(t, r, u) for (t, r), u in R.items())


# ---------------------------------------------------------------------------------------------
# C11: reachable public types, on the graph dump
# ---------------------------------------------------------------------------------------------

def reach_wild(g):
    adj = {k: [e["to"] for e in es] for k, es in g["edges"].items()}
    out = {}
    for n in g["nodes"]:
        seen = reachable(adj, n) | {n}
        out[n] = sorted(x[:-2] for x in seen if x.endswith(":*") and g["nodes"].get(x, {}).get("type") == 3)
    return out


# ---------------------------------------------------------------------------------------------
# C17: the plain graph the rewrites dictate (independent of Model/PGraph.v)
# ---------------------------------------------------------------------------------------------
OPNAME = {4: "union", 5: "intersection", 6: "exclusion"}


def plain_expected(m):
    """-> (non-operator nodes {label: type}, {relation label: description}, number of operator nodes).
    description of a relation / operator node = sorted list of what enters it:
      (edge type, tupleset, source label)            for a type, wildcard or relation source
      ("op", operator, description of the operator)  for an operator source (always a rewrite edge)
    direct edges are de-duplicated per source, tuple-to-userset edges per (source, tupleset) among all operands of
    one node; computed operands give one line each."""
    R = rels_of(m)
    F = refs_of(m)
    nodes = {}
    nops = [0]
    for t in m[1]:
        nodes[T(t[0])] = 0
        for k, _ in t[1]:
            nodes[T(t[0]) + "#" + T(k)] = 1

    def entering(t, r, u, parent_is_relation):
        """what the operand u contributes to its parent node: (set of direct, set of ttu, list of others)"""
        if u[0] == 1:
            ds = set()
            for ref in F.get((t, r), []):
                tg = ref_target(ref)
                if tg[0] == "type":
                    nodes.setdefault(tg[1], 0)
                    ds.add((0, "", tg[1]))
                elif tg[0] == "wild":
                    nodes.setdefault(tg[1] + ":*", 3)
                    ds.add((0, "", tg[1] + ":*"))
                else:
                    nodes.setdefault(tg[1] + "#" + tg[2], 1)
                    ds.add((0, "", tg[1] + "#" + tg[2]))
            return ds, set(), []
        if u[0] == 2:
            lab = t + "#" + T(u[1])
            nodes.setdefault(lab, 1)
            return set(), set(), [(3 if parent_is_relation else 1, "", lab)]
        if u[0] == 3:
            ts, cu = T(u[1]), T(u[2])
            out = set()
            for ref in F.get((t, ts), []):
                pt = T(ref[0])
                if (pt, cu) in R:
                    nodes.setdefault(pt + "#" + cu, 1)
                    out.add((2, t + "#" + ts, pt + "#" + cu))
            return set(), out, []
        kids = u[1:]
        nops[0] += 1
        return set(), set(), [("op", OPNAME[u[0]], describe(t, r, kids, False))]

    def describe(t, r, operands, parent_is_relation):
        ds, ts, rest = set(), set(), []
        for c in operands:
            a, b, c2 = entering(t, r, c, parent_is_relation)
            ds |= a
            ts |= b
            rest += c2
        return sorted(list(ds) + list(ts) + rest, key=repr)

    desc = {}
    for (t, r), u in R.items():
        desc[t + "#" + r] = describe(t, r, [u], True)
    return nodes, desc, nops[0]


def plain_decoded(g):
    """g = (direction, [(id, label, type)], [(from, to, edge type, tupleset)]) -> same triple as plain_expected"""
    lab = {n[0]: n[1] for n in g[1]}
    typ = {n[0]: n[2] for n in g[1]}
    inc = {}
    for (f, t, et, ts) in g[2]:
        inc.setdefault(t, []).append((f, et, ts))

    def describe(nid, depth=0):
        out = []
        for (f, et, ts) in inc.get(nid, []):
            if typ[f] == 2:
                if depth > 64:
                    out.append(("op-cycle",))
                else:
                    out.append(("op", lab[f], describe(f, depth + 1)) if et == 1 and ts == "" else ("op-odd", lab[f], et, ts))
            else:
                out.append((et, ts, lab[f]))
        return sorted(out, key=repr)

    nodes = {n[1]: n[2] for n in g[1] if n[2] != 2}
    desc = {n[1]: describe(n[0]) for n in g[1] if n[2] == 1}
    return nodes, desc, sum(1 for n in g[1] if n[2] == 2)


def plain_structure_mismatch(m, g):
    en, ed, eo = plain_expected(m)
    gn, gd, go = plain_decoded(g)
    if len([n for n in g[1] if n[2] != 2]) != len(gn):
        return "two nodes carry the same label"
    if en != gn:
        miss = sorted(set(en.items()) - set(gn.items()))[:4]
        extra = sorted(set(gn.items()) - set(en.items()))[:4]
        return "nodes differ from what the rewrites dictate: missing %s, unexpected %s" % (miss, extra)
    if eo != go:
        return "%d operator nodes, the rewrites contain %d operators" % (go, eo)
    for k in sorted(ed):
        if ed[k] != gd.get(k, []):
            return "what enters %s is %s, the rewrite dictates %s" % (k, gd.get(k, []), ed[k])
    for k in sorted(gd):
        if k not in ed and gd[k]:
            return "edges enter %s, which no rewrite defines: %s" % (k, gd[k])
    return None

"""Graph-oriented model generator and canonicalisation of graph dumps (C04, C05, C06, C10, C11, C17)."""
from . import core, sexp, dslgen
from .dslgen import S, T

TYPES = ["user", "group", "doc", "folder", "org", "team", "Repo"]
RELS = ["member", "viewer", "editor", "owner", "parent", "admin", "a", "b", "c", "d", "member_all"]
CONDS = ["condX", "condY"]


def gen_graph_model(rng, profile="mixed", max_types=4, max_rels=4, depth=2, wildcards=0.15, conds=0.15):
    """wire model whose references mostly resolve.  profile: acyclic | cyclic | mixed"""
    if profile == "mixed":
        profile = rng.choice(["acyclic", "acyclic", "cyclic"])
    tnames = rng.sample(TYPES, rng.randint(2, max_types))
    rels = {t: rng.sample(RELS, rng.randint(0 if t == tnames[0] else 1, max_rels)) for t in tnames}
    order = [(t, r) for t in tnames for r in rels[t]]
    rng.shuffle(order)
    rank = {tr: i for i, tr in enumerate(order)}
    use_conds = rng.random() < 0.4
    directs = {}          # (t, r) -> restrictions (decided up front so that TTUs can pick tuplesets)
    for (t, r) in order:
        refs = []
        for _ in range(rng.choice([1, 1, 2, 3])):
            k = rng.random()
            ty = rng.choice(tnames)
            cond = rng.choice(CONDS) if use_conds and rng.random() < conds else ""
            if k < wildcards:
                refs.append([S(ty), [2], S(cond)])
            elif k < wildcards + 0.25:
                cands = [(t2, r2) for (t2, r2) in order if (profile != "acyclic" or rank[(t2, r2)] < rank[(t, r)])]
                if cands:
                    t2, r2 = rng.choice(cands)
                    refs.append([S(t2), [1, S(r2)], S(cond)])
                else:
                    refs.append([S(ty), [0], S(cond)])
            else:
                refs.append([S(ty), [0], S(cond)])
        # the same parent type twice, once conditioned (de-duplicated edges), followed by something else
        if use_conds and refs and rng.random() < 0.2:
            k = rng.randrange(len(refs))
            dup = [refs[k][0], refs[k][1], S(rng.choice(CONDS)) if not T(refs[k][2]) else S("")]
            refs.insert(k + 1, dup)
            if k + 2 >= len(refs):
                refs.append([S(rng.choice(tnames)), [0], S("")])
        directs[(t, r)] = refs

    def plain_parent_types(t, r):
        return [T(x[0]) for x in directs[(t, r)]]

    def leaf(t, r, allow_this):
        k = rng.random()
        if allow_this and k < 0.4:
            return [1, 1]
        if k < 0.7:
            cands = [r2 for r2 in rels[t] if (profile != "acyclic" or rank[(t, r2)] < rank[(t, r)])]
            if cands and rng.random() < 0.92:
                return [2, S(rng.choice(cands))]
            if profile == "acyclic":
                return [1, 1]
            return [2, S(rng.choice(RELS))]
        # tuple to userset: tupleset must be another relation of t
        ts = [r2 for r2 in rels[t] if r2 != r]
        if not ts:
            return [1, 1]
        tsr = rng.choice(ts)
        parents = plain_parent_types(t, tsr)
        cands = None
        for r3 in RELS:
            if all(p in rels and r3 in rels[p] for p in parents):
                if profile != "acyclic" or all(rank[(p, r3)] < rank[(t, r)] for p in parents):
                    cands = (cands or []) + [r3]
        if cands and rng.random() < 0.9:
            return [3, S(tsr), S(rng.choice(cands))]
        if profile == "acyclic":
            return [1, 1]
        return [3, S(tsr), S(rng.choice(RELS))]

    def tree(t, r, d, budget):
        """budget: a one-element list, the number of direct assignments still allowed in this relation (DSL: at most one)"""
        if d <= 0 or rng.random() < 0.45:
            x = leaf(t, r, budget[0] > 0)
            if x == [1, 1]:
                if budget[0] <= 0:
                    lower = [r2 for r2 in rels[t] if rank[(t, r2)] < rank[(t, r)]]
                    if profile != "acyclic" and rng.random() < 0.5:
                        return [2, S(rng.choice(rels[t]))]
                    return [2, S(rng.choice(lower))] if lower else [2, S(rng.choice(rels[t]))]
                budget[0] -= 1
            return x
        op = rng.choice([4, 4, 5, 6])
        if op == 6:
            return [6, tree(t, r, d - 1, budget), tree(t, r, d - 1, budget)]
        # single-operand unions/intersections are legal in JSON/proto models
        return [op] + [tree(t, r, d - 1, budget) for _ in range(rng.choice([1, 2, 2, 2, 2, 3]))]

    types = []
    for t in tnames:
        rl = []
        ml = []
        for r in rels[t]:
            lowest = min(rels[t], key=lambda x: rank[(t, x)])
            u = [1, 1] if r == lowest else tree(t, r, rng.randint(0, depth), [1])
            rl.append([S(r), u])
            # the tupleset relations must keep their restrictions; others only if they have a direct assignment.
            # A relation defined purely by rewrite needs no metadata entry at all (sparse metadata of API-written models)
            if not has_direct(u) and rng.random() < 0.2:
                continue
            ml.append([S(r), [directs[(t, r)], [], []]])
        types.append([S(t), rl, [[ml, [], []]] if ml else []])
    cs = []
    if use_conds:
        for c in CONDS:
            cs.append([S(c), [S(c), S("x > 0"), [[S("x"), [4]]], []]])
    return [S("1.1"), types, cs]


def has_direct(u):
    return dslgen.count_this(u) > 0


# ---- canonical form of a graph dump ----

def canon_weights(w):
    return sorted([(T(k), v) for k, v in w])


def canon_graph(g):
    """g = [nodes, edges] as emitted by either side -> dict"""
    nodes = {}
    for n in g[0]:
        nodes[T(n[0])] = {"label": T(n[1]), "type": n[2], "weights": canon_weights(n[3]), "wild": [T(x) for x in n[4]]}
    edges = {}
    for e in g[1]:
        edges.setdefault(T(e[0]), []).append({"to": T(e[1]), "type": e[2], "tupleset": T(e[3]), "conds": [T(c) for c in e[4]],
                                              "weights": canon_weights(e[5]), "wild": [T(x) for x in e[6]]})
    return {"nodes": nodes, "edges": edges}


def graphs_equal(a, b, wild_as_set=True):
    if a["nodes"].keys() != b["nodes"].keys() or a["edges"].keys() != b["edges"].keys():
        return False
    for k in a["nodes"]:
        x, y = a["nodes"][k], b["nodes"][k]
        if (x["label"], x["type"], x["weights"]) != (y["label"], y["type"], y["weights"]):
            return False
        if (sorted(x["wild"]) != sorted(y["wild"])) if wild_as_set else (x["wild"] != y["wild"]):
            return False
    for k in a["edges"]:
        if len(a["edges"][k]) != len(b["edges"][k]):
            return False
        for x, y in zip(a["edges"][k], b["edges"][k]):
            if (x["to"], x["type"], x["tupleset"], x["conds"], x["weights"]) != (y["to"], y["type"], y["tupleset"], y["conds"], y["weights"]):
                return False
            if (sorted(x["wild"]) != sorted(y["wild"])) if wild_as_set else (x["wild"] != y["wild"]):
                return False
    return True


def norm_impl_g(x):
    if x["ok"]:
        return ("ok", canon_graph(x["graph"]))
    return ("err", x["class"], T(x["msg"]))


def norm_model_g(r):
    if r[0] == 0:
        return ("ok", canon_graph(r[1]))
    if r[0] == 1:
        return ("err", 2 if r[1] == 4 else r[1], "")
    return ("panic", T(r[1]))


def same_result(a, b):
    if a[0] != b[0]:
        return False
    if a[0] == "ok":
        return graphs_equal(a[1], b[1])
    if a[0] == "err":
        return a[1] == b[1]
    return True


def same_verdict(a, b):
    """C06 compares the verdict (accepted / rejected) and, when accepted, the graphs; not the error class"""
    if a[0] != b[0]:
        return False
    return graphs_equal(a[1], b[1]) if a[0] == "ok" else True

#!/usr/bin/env python3
"""python3 run/check.py <ID> [--tier quick|thorough] [--replay FILE] [--seed N]

Exit 0: the property held on everything explored (KNOWN-FINDING lines may be printed).
Exit 1: a line `VIOLATION property=<ID> replay=<path>[ no-failing-input-found]` was printed.
Exit 2: the machinery itself could not run (e.g. /repo does not compile)."""
import argparse
import importlib
import json
import os
import sys
import traceback

HERE = os.path.dirname(os.path.abspath(__file__))
sys.path.insert(0, HERE)
from lib import core  # noqa: E402


def main():
    ap = argparse.ArgumentParser()
    ap.add_argument("pid")
    ap.add_argument("--tier", default=os.environ.get("VERIF_TIER", "quick"), choices=["quick", "thorough"])
    ap.add_argument("--seed", type=int, default=int(os.environ.get("VERIF_SEED", "20260927") or 20260927))
    ap.add_argument("--replay")
    a = ap.parse_args()
    os.chdir(core.VERIF)
    pid = a.pid.upper()
    mod = importlib.import_module("props." + pid.lower())
    ctx = core.Ctx(pid, a.tier, a.seed)
    ctx.trusted_base = list(core.COMMON_TRUSTED)
    try:
        need_h = getattr(mod, "NEED_HARNESS", True)
        ctx.st = core.ensure_build(families=getattr(mod, "FAMILIES", ()), need_harness=need_h)
        if need_h and not ctx.st.harness:
            print("BUILD FAILED: the Go harness does not build against /repo's working tree", file=sys.stderr)
            print(ctx.st.harness_error, file=sys.stderr)
            return 2
        if a.replay:
            data = json.load(open(a.replay))
            return mod.replay(ctx, data)
        core.standard_ledger(ctx)
        if a.tier == "thorough":
            core.run_coqchk(ctx)
        mod.run(ctx)
        if a.tier == "thorough" and hasattr(mod, "thorough_extra"):
            mod.thorough_extra(ctx)
        return core.finish(ctx, level=getattr(mod, "LEVEL", "proof"))
    except Exception:
        traceback.print_exc()
        return 2


if __name__ == "__main__":
    sys.exit(main())

#!/usr/bin/env python3
"""Translator: re-extracts every part of /repo that is *data* into coq/Gen/*.v on every run.

Part of the trusted base (see DESIGN.md section 9).  Each generator returns the text of one
Gen file or raises TranslateError; a file is rewritten only when its content changed so that
`make` recompiles exactly the dependants.  A generator that fails writes a stub that does not
define the constants, so only the theorems that need them fail to compile.
"""
import os
import re
import sys
import json

REPO = os.environ.get("VERIF_REPO", "/repo")
HERE = os.path.dirname(os.path.abspath(__file__))
GEN = os.path.join(os.path.dirname(HERE), "coq", "Gen")


class TranslateError(Exception):
    pass


def read(rel):
    p = os.path.join(REPO, rel)
    try:
        with open(p, encoding="utf-8") as f:
            return f.read()
    except OSError as e:
        raise TranslateError(f"cannot read {rel}: {e}")


def coq_str(s):
    """A Python str as a Coq [str] literal (list of code points, N)."""
    return "[" + "; ".join(str(ord(c)) for c in s) + "]"


def coq_list(items):
    return "[" + "; ".join(items) + "]"


_SIMPLE_ESC = {"n": "\n", "t": "\t", "r": "\r", "\\": "\\", '"': '"', "'": "'", "f": "\f",
               "b": "\b", "v": "\v", "a": "\a", "0": "\0", "`": "`", "$": "$"}


def unescape(body, lang):
    """Decode the inside of a double-quoted literal of Go / TS / Java."""
    out = []
    i = 0
    while i < len(body):
        c = body[i]
        if c != "\\":
            out.append(c)
            i += 1
            continue
        i += 1
        if i >= len(body):
            raise TranslateError("dangling backslash in literal")
        e = body[i]
        if e == "x" and lang in ("go", "ts"):
            out.append(chr(int(body[i + 1:i + 3], 16)))
            i += 3
        elif e == "u":
            out.append(chr(int(body[i + 1:i + 5], 16)))
            i += 5
        elif e in _SIMPLE_ESC:
            out.append(_SIMPLE_ESC[e])
            i += 1
        else:
            raise TranslateError(f"unsupported escape \\{e} in {lang} literal")
    return "".join(out)


STR_LIT = r'"((?:[^"\\\n]|\\.)*)"'

# ---------------------------------------------------------------------------------------------
# Rules.v  (C18)
# ---------------------------------------------------------------------------------------------

RULE_KEYS = ["type", "relation", "condition", "id", "object"]


def go_rules(src):
    rules = {}
    for m in re.finditer(r'\bRule(\w+)\s+Rule\s*=\s*' + STR_LIT, src):
        rules[m.group(1).lower()] = unescape(m.group(2), "go")
    return rules


def js_rules(src):
    m = re.search(r'export const Rules\s*=\s*\{(.*?)\};', src, re.S)
    if not m:
        raise TranslateError("JS Rules object not found")
    rules = {}
    for k in re.finditer(r'(\w+)\s*:\s*' + STR_LIT, m.group(1)):
        rules[k.group(1).lower()] = unescape(k.group(2), "ts")
    return rules


def java_rules(src):
    rules = {}
    for m in re.finditer(r'public static final String (\w+)\s*=\s*' + STR_LIT, src):
        rules[m.group(1).lower()] = unescape(m.group(2), "java")
    return rules


class _ExprParser:
    """return-expression of a Go validator: identifiers, calls f(x), &&, ||, parentheses."""

    def __init__(self, text, env, funcs):
        self.toks = re.findall(r'&&|\|\||[()]|[A-Za-z_]\w*|\S', text)
        self.i = 0
        self.env = env
        self.funcs = funcs

    def peek(self):
        return self.toks[self.i] if self.i < len(self.toks) else None

    def take(self):
        t = self.peek()
        self.i += 1
        return t

    def parse(self):
        e = self.p_or()
        if self.peek() is not None:
            raise TranslateError(f"unexpected token {self.peek()!r} in return expression")
        return e

    def p_or(self):
        e = self.p_and()
        while self.peek() == "||":
            self.take()
            e = ("or", e, self.p_and())
        return e

    def p_and(self):
        e = self.p_atom()
        while self.peek() == "&&":
            self.take()
            e = ("and", e, self.p_atom())
        return e

    def p_atom(self):
        t = self.take()
        if t == "(":
            e = self.p_or()
            if self.take() != ")":
                raise TranslateError("missing )")
            return e
        if t is None or not re.match(r'[A-Za-z_]\w*$', t):
            raise TranslateError(f"unsupported token {t!r} in return expression")
        if self.peek() == "(":
            self.take()
            self.take()  # the argument identifier
            if self.take() != ")":
                raise TranslateError("unsupported call shape")
            return ("call", t)
        if t in self.env:
            return self.env[t]
        raise TranslateError(f"unknown identifier {t} in return expression")


def go_validators(src):
    """name -> expression tree over ('match', fmt, [rule keys]) / and / or / call."""
    out = {}
    for m in re.finditer(r'func (Validate\w+)\((\w+) string\) bool \{(.*?)\n\}', src, re.S):
        name, arg, body = m.group(1), m.group(2), m.group(3)
        env = {}
        stmts = [s.strip() for s in body.strip().split("\n") if s.strip()]
        ret = None
        for s in stmts:
            a = re.match(r'(\w+), _ := regexp\.MatchString\(fmt\.Sprintf\(' + STR_LIT +
                         r'((?:\s*,\s*Rule\w+)*)\)\s*,\s*(\w+)\)$', s)
            if a:
                if a.group(4) != arg:
                    raise TranslateError(f"{name}: matches {a.group(4)} instead of its argument")
                args = [x.strip()[4:].lower() for x in a.group(3).split(",") if x.strip()]
                env[a.group(1)] = ("match", unescape(a.group(2), "go"), args)
                continue
            r = re.match(r'return (.*)$', s)
            if r:
                ret = r.group(1)
                continue
            raise TranslateError(f"{name}: unsupported statement {s!r}")
        if ret is None:
            raise TranslateError(f"{name}: no return")
        out[name] = _ExprParser(ret, env, out).parse()
    return out


def _vexpr(e, lang, resolved):
    if e[0] == "match":
        args = coq_list([f"{lang}_rule_{a}" for a in e[2]])
        return f"(VMatch {coq_str(e[1])} {args})"
    if e[0] == "and":
        return f"(VAnd {_vexpr(e[1], lang, resolved)} {_vexpr(e[2], lang, resolved)})"
    if e[0] == "or":
        return f"(VOr {_vexpr(e[1], lang, resolved)} {_vexpr(e[2], lang, resolved)})"
    if e[0] == "call":
        if e[1] not in resolved:
            raise TranslateError(f"call to unknown validator {e[1]}")
        return resolved[e[1]]
    raise TranslateError("bad expression")


VALIDATORS = ["ValidateObject", "ValidateObjectID", "ValidateRelation", "ValidateUserSet",
              "ValidateUserObject", "ValidateUserWildcard", "ValidateUser",
              "ValidateRelationshipCondition", "ValidateType"]


def snake(name):
    return re.sub(r'(?<!^)(?=[A-Z][a-z])', "_", name).lower()


def gen_rules():
    go_src = read("pkg/go/validation/validation-rules.go")
    g = go_rules(go_src)
    j = js_rules(read("pkg/js/validator/validate-rules.ts"))
    v = java_rules(read("pkg/java/src/main/java/dev/openfga/language/validation/Validator.java"))
    lines = ["(* GENERATED by run/gen_coq.py from validation-rules.go, validate-rules.ts, Validator.java *)",
             "From Verif Require Import Base.Str Model.Regex.", ""]
    for lang, rules in (("go", g), ("js", j), ("java", v)):
        for k in RULE_KEYS:
            if k not in rules:
                raise TranslateError(f"{lang}: rule {k} not found")
        extra = sorted(set(rules) - set(RULE_KEYS))
        for k in RULE_KEYS + extra:
            lines.append(f"Definition {lang}_rule_{k} : str := {coq_str(rules[k])}.")
        pairs = coq_list([f"({coq_str(k)}, {lang}_rule_{k})" for k in RULE_KEYS + extra])
        lines.append(f"Definition {lang}_rules : list (str * str) := {pairs}.")
        lines.append("")
    vals = go_validators(go_src)
    resolved = {}
    pending = dict(vals)
    progress = True
    while pending and progress:
        progress = False
        for name in list(pending):
            try:
                resolved[name] = _vexpr(pending[name], "go", resolved)
                del pending[name]
                progress = True
            except TranslateError:
                pass
    if pending:
        raise TranslateError("unresolvable validators: " + ", ".join(pending))
    for name in VALIDATORS:
        if name not in resolved:
            raise TranslateError(f"validator {name} not found")
        lines.append(f"Definition go_{snake(name)} : vexpr := {resolved[name]}.")
    names = coq_list([f"({coq_str(n)}, go_{snake(n)})" for n in VALIDATORS])
    lines.append(f"Definition go_validators : list (str * vexpr) := {names}.")
    return "\n".join(lines) + "\n"


# ---------------------------------------------------------------------------------------------

GENERATORS = {
    "Rules.v": gen_rules,
}


def register(name):
    def deco(fn):
        GENERATORS[name] = fn
        return fn
    return deco


def write_if_changed(path, text):
    try:
        with open(path, encoding="utf-8") as f:
            if f.read() == text:
                return False
    except OSError:
        pass
    tmp = path + ".tmp"
    with open(tmp, "w", encoding="utf-8") as f:
        f.write(text)
    os.replace(tmp, path)
    return True


def main():
    # late imports: further generators live in gen_*.py next to this file
    sys.path.insert(0, HERE)
    for mod in sorted(f[:-3] for f in os.listdir(HERE) if f.startswith("gen_") and f.endswith(".py")
                      and f != "gen_coq.py"):
        __import__(mod)
    os.makedirs(GEN, exist_ok=True)
    status = {}
    import gen_coq as _self   # the generators register themselves on the imported module, not on __main__
    for name, fn in _self.GENERATORS.items():
        path = os.path.join(GEN, name)
        try:
            text = fn()
            status[name] = {"ok": True, "changed": write_if_changed(path, text)}
        except TranslateError as e:
            msg = str(e)[:300].replace("*)", "* )").replace("(*", "( *")
            stub = f"(* GENERATED stub: translator failed: {msg} *)\n"
            write_if_changed(path, stub)
            status[name] = {"ok": False, "error": str(e)}
    json.dump(status, sys.stdout, indent=1)
    print()
    return 0


if __name__ == "__main__":
    sys.exit(main())

#!/usr/bin/env python3
"""Writes MANIFEST.json from the table below (kept next to the checks so that it stays current)."""
import json
import os
import subprocess

V = os.path.dirname(os.path.dirname(os.path.abspath(__file__)))

TECH = "machine-checked proof in Coq 8.16 over an executable model tied to the code by differential correspondence (extracted OCaml model vs Go harness)"
COMMON_NOTE = ("Trusted: Coq kernel (coqc; coqchk in the thorough tier), no axioms (Print Assumptions of every theorem is checked on each run), "
               "extraction with ExtrOcamlBasic only, run/gen_*.py translators, the Go harness and Python orchestrator. ")

P = {
 "C01": ("Coq model of the whole DSL pipeline (pre-pass, lexer, recursive-descent parser, listener, printer; Model/Lexer.v, Parser.v, Listener.v, Printer.v, Transform.v) "
         "with theorems in Properties/C01.v (every accepted document renders — from the text, no hypothesis left; every parsed model is expressible and always renders, by either API path; at parse-tree level the text printed for a parsed relation is the canonical rendering of a grammatical definition with the SAME denotation — the parser's output is already in the printer's normal form; and AT CHARACTER LEVEL, for every relation definition whose names are plain identifiers that no literal rule of the lexer claims: printer text -> lexer model -> parser model -> listener gives the same rewrite with the same restrictions and no lexer error, Proofs/LexInversion.v, LexRender.v, ParserNatural.v, RoundTripChars.v over the regenerated keyword tables; and FOR WHOLE DOCUMENTS without conditions and module information whose names are plain identifiers: the text the printer model writes is turned by the pre-pass, the lexer model, the parser model and the listener model back into the model in canonical form, and rendering that model gives the same bytes again (C01_three_rounds), Proofs/Doc*.v, LexEof.v, PrepassTidy.v); the model's three-round composition (Transform.roundtrip) is run against the implementation's on every document, through the JSON string API and in memory, "
         "and the property itself (model equality modulo expression whitespace, byte stability) is checked on the implementation for every accepted document.",
         "Not mechanised: the character-level round trip of conditions, comments, module files and of names that are keywords (all observed on every run). ANTLR lexer/parser semantics and protojson are modelled (assumptions listed in Model/Lexer.v, Parser.v, Transform.v), not verified."),
 "C02": ("Theorems in Properties/C02.v about Model/Printer.v (the transcription of jsontodsl.go): the printer succeeds exactly on expressible rewrites, and (lossless) the text it writes is the canonical rendering of a grammatical parse tree whose denotation — also through the listener's rewrite stack — is the input rewrite up to [normalize] (direct assignment hoisted, one-operand operators collapsed) with exactly the relation's type restrictions; characters included: the printed line lexes without error to the canonical tokens (longest match, first rule, over the regenerated keyword tables; names plain identifiers and not keywords), the parser reads token kinds only, hence print_top -> lex -> p_def -> denotation = normalize u with the relation's restrictions; at document level (no conditions, no module information, plain names) print_model -> pre-pass -> lex -> parse -> listener = the model in canonical form (C02_document_round_trip); the Coq specification itself (carriable/expressible/normalize) is evaluated by the extracted model on every relation and compared with the implementation's re-parsed output; correspondence of the printer model with both printer paths byte for byte, "
         "an independent specification (count/first-position, normalisation) as oracle on random models and on every rewrite tree (operators with 1-3 operands) up to 5/6 nodes, and parse-back of every output.",
         "Not mechanised: names that are keywords, conditions, modular metadata comments (observed). Domain of the statement: carriable models (what a DSL document can express at all); degenerate shapes are correspondence-only."),
 "C03": ("Theorems in Properties/C03.v about the listener model (rewrite-stack discipline = denotation of the parse tree) and the parser model (everything it returns is grammatical; conversely every grammatical relation definition is returned for its canonical token sequence at any nesting depth — parser exactness); token streams of Model/Lexer.v against the generated Go lexer, "
         "models against the implementation, and the implementation against the model written, for generated syntax trees under an independent layout renderer.",
         "ANTLR semantics assumed as stated in Model/Lexer.v / Parser.v; error recovery not modelled."),
 "C04": ("Faithful Coq transcription of the builder and of AssignWeights with the depth-first start order as explicit argument (Model/WGraph.v, WWeights.v), run against the implementation (hooked to take the same order) on every model; "
         "theorems in Properties/C04.v: the three strategies as functions on weight maps, and the GLOBAL statement for graphs without cycles — for every depth-first start order, if assignment succeeds every node carries exactly the order-free specification Spec/GraphWeights.spec_weights (invariant of the traversal, Proofs/DagWeights.v); the decidable hypothesis (dag_check) and the specification are evaluated by the extracted model on every generated model and compared with what the implementation stored; the property's own definition (maximum tuple-hop depth as least fixed point on the model, edge rule, no placeholder) as oracle against the implementation.",
         "Not proved: graphs with tuple cycles; equality of the graph-level specification with the model-level definition (they differ exactly at K-C04-operands). Known findings K-C04-operands and K-WG-cycles delimit where the unmodified code departs from the statement; inner map orders of AssignWeights are sampled, not driven."),
 "C05": ("Same model as C04; theorems in Properties/C05.v: the self-loop rule, refutation witnesses on cyclic models, and the EQUIVALENCE on graphs without cycles for every start order — assignment succeeds iff Spec/GraphWeights.accepts holds of every start node (operand edges present, every edge to a type/wildcard or to an accepted node with a non-empty weight map, intersections keep a common type), soundness and completeness with AssignWeights' own fuel; hypotheses and predicate are evaluated by the extracted model per run and compared with the implementation's verdict per start order; well-foundedness computed on the model (tuple-free cycles, constrained cycles, builder conditions, empty intersections, relations without terminal type) as oracle for the verdict under every explicit start order.",
         "Not proved: the equivalence on graphs with cycles (refuted there: K-WG-cycles). Known findings K-WG-cycles and K-C04-operands."),
 "C06": ("Same model as C04: the only schedule (start order) is an argument of the model; no package-level state and no cache field on the builder (Gen/Globals.v, regenerated per run); operands of unions/intersections reordered in the check; theorems in Properties/C06.v (independence of the order of type definitions; on graphs without cycles the weights do not depend on the start order at all — both orders give the order-free specification); the value semantics the model gives to wildcard lists and weight maps is tied to the code by Gen/Sites.v (every store into a node or edge, regenerated per run; theorem: none shares another object's list or map); all outcomes of a model (explicit orders, repeated unhooked Build, permuted type definitions) compared; histories: one builder object building sequences of different models, sequentially and concurrently, against a fresh builder per model.",
         "Inner map iteration orders and concurrency are sampled by repetition; known finding K-WG-cycles."),
 "C07": ("Coq transcription of TransformModuleFilesToModel (Model/Merge.v) over the parser model; theorems in Properties/C07.v, among them THE EQUIVALENCE: for every list of module files as the parser delivers them (decidable well-formedness, evaluated per run) merge succeeds iff the list is conflict-free in the order-free sense of Spec/MergeSpec.v, and on success returns the declared types in file order with exactly the contributed relation names and the attributed conditions (Proofs/MergeIff.v), and THE CONTENT: every declared relation reads back with its rewrite unchanged, a definition's relation with its metadata, an extension's relation with the extending file, every type with the module and file of its definition, nothing else present (Proofs/MergeContent.v); the decidable form of the specification is evaluated by the extracted model on every generated set and compared with the implementation's verdict; correspondence on generated module sets with a catalogue of injected conflicts; "
         "conflict-freedom and the exact attributed union computed from the generator's syntax trees as oracle.",
         "Syntax errors inside files are compared as opaque entries."),
 "C08": ("Theorems in Properties/C08.v (panic-freedom of the modelled control flow: printer, listener, ParseDSL, both graph stages, fga.mod, and the module merge on parser-delivered files); PANIC and TIMEOUT are observables of every harness call; mutation fuzzing of the corpus, degenerate protobuf models, damaged module sets and manifests; scaled inputs timed.",
         "Partial by nature: a Gallina model cannot exhibit a Go panic it does not name nor running time; the quadratic bound is measured only. Known finding K-C08-formfeed."),
 "C09": ("Theorems in Properties/C09.v about the parser and listener models, including from the text with no hypothesis left: whenever ParseDSL accepts a document the returned model is the denotation of a grammatical parse tree in which nothing is declared twice (lexer tokens are non-empty, the parser's name tokens are tokens of its input); every document of a catalogue of 13 structural violations injected at random sites of generated valid documents must be rejected by the implementation and by the model alike.",
         "ANTLR semantics assumed as in C03."),
 "C10": ("Theorems in Properties/C10.v about Model/WGraph.wbuild (one node per label, one operator node per operator occurrence, computed-edge rule, totality, the built graph is unweighted with every edge filed under its source; THE STRUCTURE: for every model in a decidable domain — no relation declared twice, no name that reads as an operator node — the edge lists under every relation node and every operator node are exactly the lists Spec/GraphShape.shape computes from the rewrite alone, with closed forms for direct assignments, tuple-to-usersets and operand order, Proofs/BuilderShape.v and ShapeLists.v; the domain is measured on every generated model); the built graph of the implementation is compared with the extracted model (nodes, ordered edges, kinds, labels, conditions) and decoded against the model by an independent structure check; input model unchanged.",
         "Operator node names are canonicalised structurally (ULIDs are random)."),
 "C11": ("Same model as C04 (wildcard propagation transcribed); theorems in Properties/C11.v: on graphs without cycles, for every start order, the list of a node holds exactly the public types whose wildcard node is reachable (inductive reachability), each edge carries its target's set, and no list has duplicates; the value semantics the model gives to these lists is tied to the code by Gen/Sites.v (every store of a list or map into a node or edge, regenerated from weighted_graph*.go per run; theorem: none stores another object's list as it is — defect F13 was four such stores); the executable form (spec_wildcards) is compared with the implementation's lists per run; wildcard lists of every node and edge against reachability of T:* nodes in the built graph, per explicit start order.",
         "Known finding K-WG-cycles delimits the unproved cyclic part."),
 "C12": ("Model/Merge.merge takes no iteration-order argument (after repair F5); theorems in Properties/C12.v: conflict-freedom is invariant under permutation of the files, hence permuting the list never changes whether the merge succeeds (for every list), and on success the permuted list yields the same model up to the order of type definitions and map enumeration: same schema, permuted type names, identical module/file/rewrite/metadata/condition readings (Proofs/MergeContent.v); each list merged repeatedly in one process, all permutations of small lists, correspondence per permutation.",
         "The well-formedness of parser output is itself a theorem (every list of files with distinct names). Not proved: that a successful merge of a permuted list returns the same types up to order (observed per run). Go map order is sampled by repetition."),
 "C13": ("Frame theorems in Properties/C13.v, and two facts about the source text that are regenerated from the working tree on every run (run/gen_globals.py -> Gen/Globals.v): the hand-written Go packages have no package-level variable that could hold data between calls (error sentinels and interface assertions only) and the graph-builder objects have exactly the fields of the pinned tree (no cache field); argument-after-call observables for the printer, both graph builders and the merge; the same batch of calls in two orders, after warm-up and from 16 goroutines compared result by result; one shared model from 8 goroutines, also under the Go race detector.",
         "Partial by nature: data races and ANTLR cache state are outside any Gallina model; the race detector run is supporting evidence."),
 "C14": ("Theorems in Properties/C14.v about the printer's sort (sortByModule is a total order on distinct names, so output is independent of input order) and about the source-information comments: they never change the verdict, and the output with comments is the plain output decorated with ' # ...' segments before line breaks, so that cutting comments line by line gives the same lines, the pre-pass of ParseDSL sees the same text and both outputs parse to the same result (for every model whose module and file names contain no line break); output bytes compared across repeated calls, permuted models, JSON with shuffled keys; comment stripping and re-parse of the source-information output.",
         "Names without line breaks."),
 "C15": ("Theorems in Properties/C15.v about Model/ModFile.v (safe paths, verbatim, one error per entry); whole manifests through the real YAML parser, exhaustive over the property's alphabet to length 3/4, against the model on yaml.v3's node view and against an independent specification.",
         "yaml.v3 and net/url are external (QueryUnescape transcribed)."),
 "C16": ("Theorems in Properties/C16.v about token positions; bounds of every error of every rejected document, exact positions of listener-raised errors, exact file/line/column of injected merge conflicts against the generator's bookkeeping.",
         "Partial: positions of ANTLR's own messages are assumed to be token starts/EOF. Known finding K-C16-lines."),
 "C17": ("Coq model of the plain graph (builder, Reversed, PathExists, DOT content; Model/PGraph.v) with theorems in Properties/C17.v — among them THE STRUCTURE: for every model in a decidable domain (no relation declared twice, no name that reads as an operator node) the lines entering every relation node and every operator node, read as (source label, kind, tupleset label, conditions) in line order, are exactly what Spec/PGraphShape.pshape computes from the rewrite alone (Proofs/PBuilderShape.v); reversal and path theorems for all graphs; an oracle of the dictated structure that is independent of the Coq model; single/double reversal, DOT text stability, path duality on all label pairs, look-up and cycle flags against the implementation.",
         "gonum (IDs, DOT order, reachability, cycle enumeration) is external; cycle flags are checked by the oracle only."),
 "C18": ("Coq theorems (Properties/C18.v, no axioms): for every string each of the nine model validators equals a character-level specification; the validators are built by a regex parser + derivative matcher from the rule strings the translator re-extracts from validation-rules.go on every run; exhaustive differential run against the Go validators.",
         "Go's regexp (RE2 semantics of the subset used) is modelled; JS/Java compared as sources only."),
 "C19": ("Finite theorems by computation (Properties/C19.v) over the constants the translator re-extracts on every run: the 12 serialized automata are equal, the rule/token vocabularies of the three packages equal those of the two .g4 files, every listener callback names a rule.",
         "Equality of automata implies equal languages given the same ANTLR runtime semantics; JS and Java runtimes cannot run offline."),
}


def main():
    checks = []
    for pid in sorted(P):
        text, note = P[pid]
        checks.append({
            "property_id": pid,
            "quick_cmd": f"python3 run/check.py {pid} --tier quick",
            "thorough_cmd": f"python3 run/check.py {pid} --tier thorough",
            "evidence_file": f"/verif/evidence/{pid}.json",
            "replay_cmd_template": f"python3 run/check.py {pid} --replay {{path}}",
            "engine": "coq-models",
            "level_claimed": {"category": "proof", "text": text, "design_ref": f"DESIGN.md section 5 {pid}"},
            "level_note": COMMON_NOTE + note,
            "technique": TECH,
        })
    hooks = subprocess.run(["git", "-C", "/repo", "log", "--format=%H %s"], capture_output=True, text=True).stdout.splitlines()
    hook_commits = [l.split()[0] for l in hooks if " verif hooks" in l]
    m = {
        "version": 1,
        "setup_cmd": "python3 run/setup.py",
        "hooks": {
            "guard": "verif",
            "enable": "go build -tags verif (the harness module in /verif/harness replaces github.com/openfga/language/pkg/go by /repo/pkg/go); the hooks are one add-only file pkg/go/graph/verif_hooks.go with //go:build verif",
            "baseline_off_cmd": "cd /repo/pkg/go && GOFLAGS=-mod=mod GOPROXY=off GOSUMDB=off GOTOOLCHAIN=local go test -json -vet=off -count=1 -timeout 25m ./...",
            "source_commits": hook_commits,
            "add_only": True,
        },
        "engines": [
            {"name": "coq-models", "path": "coq/", "serves_properties": sorted(P),
             "kind_free_text": "Coq 8.16.1 development: executable Gallina models of the Go code (Model/), proofs (Proofs/), property theorems (Properties/), constants regenerated from /repo on every run (Gen/); extraction families in Extract/"},
            {"name": "correspondence", "path": "run/", "serves_properties": sorted(P),
             "kind_free_text": "Python orchestrator: translators run/gen_*.py, build, proof ledger (Print Assumptions), differential run of the extracted OCaml models (ocaml/driver.ml) against the Go harness (harness/, built with -tags verif against /repo's working tree), property oracles, known findings, evidence"},
        ],
        "checks": checks,
        "not_applicable": [],
        "notes": "All 19 properties are claimed. C08, C13 and C16 are partial by nature (running time and un-named panics; data races and runtime cache state; positions of ANTLR's own messages) — see DESIGN.md. Known findings are listed in KNOWN_FINDINGS.txt with witnesses in findings/.",
    }
    with open(os.path.join(V, "MANIFEST.json"), "w") as f:
        json.dump(m, f, indent=1)


if __name__ == "__main__":
    main()

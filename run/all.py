#!/usr/bin/env python3
"""python3 run/all.py [quick|thorough] [IDs...] : run the checks (4 at a time), print one line per check."""
import concurrent.futures, json, os, subprocess, sys, time
V = os.path.dirname(os.path.dirname(os.path.abspath(__file__)))
tier = sys.argv[1] if len(sys.argv) > 1 and sys.argv[1] in ("quick", "thorough") else "quick"
ids = [a for a in sys.argv[1:] if a not in ("quick", "thorough")] or [c["property_id"] for c in json.load(open(os.path.join(V, "MANIFEST.json")))["checks"]]
subprocess.run([sys.executable, os.path.join(V, "run", "setup.py")], cwd=V, capture_output=True)
def one(i):
    t = time.time()
    p = subprocess.run([sys.executable, os.path.join(V, "run", "check.py"), i, "--tier", tier], cwd=V, capture_output=True, text=True)
    lines = [l for l in p.stdout.splitlines() if l.startswith("VIOLATION")]
    kf = sum(1 for l in p.stdout.splitlines() if l.startswith("KNOWN-FINDING"))
    try:
        e = json.load(open(os.path.join(V, "evidence", i + ".json")))
        c = e["coverage"]
        info = f"obl {c['discharged']}/{c['obligations']} eval {c['evaluations']} nontrivial {c['distinct_nontrivial']}"
    except Exception as ex:
        info = "no evidence: " + str(ex)
    return f"{i}: exit {p.returncode} {time.time()-t:5.1f}s known={kf} {info} " + " ".join(lines) + (("\n" + p.stderr[-800:]) if p.returncode not in (0, 1) else "")
with concurrent.futures.ThreadPoolExecutor(4) as ex:
    for line in ex.map(one, ids):
        print(line, flush=True)

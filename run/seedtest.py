#!/usr/bin/env python3
"""python3 run/seedtest.py <seed dir name> <check id>... : apply seeded/<name>/patch.diff to /repo, run the
quick checks, undo the patch, print what each check said.  Never leaves /repo modified."""
import os, subprocess, sys
V = os.path.dirname(os.path.dirname(os.path.abspath(__file__)))
name, ids = sys.argv[1], sys.argv[2:]
patch = os.path.join(V, "seeded", name, "patch.diff")
st = subprocess.run(["git", "-C", "/repo", "status", "--porcelain"], capture_output=True, text=True).stdout.strip()
if st:
    sys.exit("refusing: /repo is not clean:\n" + st)
r = subprocess.run(["git", "-C", "/repo", "apply", "--check", patch], capture_output=True, text=True)
if r.returncode != 0:
    sys.exit("patch does not apply: " + r.stderr)
subprocess.run(["git", "-C", "/repo", "apply", patch], check=True)
try:
    for i in ids:
        p = subprocess.run([sys.executable, os.path.join(V, "run", "check.py"), i, "--tier", "quick"],
                           capture_output=True, text=True, cwd=V)
        lines = [l for l in p.stdout.splitlines() if l.startswith(("VIOLATION", "KNOWN-FINDING"))]
        print(f"== {name} / {i}: exit {p.returncode}")
        for l in lines:
            print("   ", l)
        if p.returncode not in (0, 1):
            print(p.stderr[-1500:])
finally:
    subprocess.run(["git", "-C", "/repo", "reset", "-q", "--hard", "HEAD"])
    subprocess.run(["git", "-C", "/repo", "checkout", "--", "."])
    # files the patch CREATED are untracked and survive the checkout: remove exactly those
    import re
    for m in re.finditer(r"^diff --git a/(\S+) b/\S+\nnew file mode", open(patch).read(), re.M):
        f = os.path.join("/repo", m.group(1))
        if os.path.exists(f):
            os.remove(f)
